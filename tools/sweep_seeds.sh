#!/bin/bash
# (helper: re-applies every seeded/<id>/patch.diff to a scratch worktree copy at /tmp/stx and runs the quick checks there; needs that copy to exist)
# regression sweep: every stored seeded change against the current harnesses (in /tmp/stx)
rsync -a --exclude target --exclude .git --exclude replays --exclude evidence --exclude check --exclude 'zsim/shadow' /verif/ /tmp/stx/verif/
cd /tmp/stx/repo && git reset -q --hard HEAD && git checkout -q --detach $(git -C /repo rev-parse HEAD)
for d in /verif/seeded/*/; do
  s=$(basename $d); P=${s%%-*}
  patch=$d/patch.diff; [ -f $d/rebased-onto-hooks.diff ] && patch=$d/rebased-onto-hooks.diff
  cd /tmp/stx/repo; git reset -q --hard HEAD
  if ! git apply -3 $patch >/dev/null 2>&1; then git reset -q --hard HEAD; echo "$s: PATCH DOES NOT APPLY (code changed by a later fix)"; continue; fi
  if git diff --name-only --diff-filter=U | grep -q .; then git reset -q --hard HEAD; echo "$s: PATCH CONFLICTS"; continue; fi
  checks=$P; [ $s = C07-4 ] && checks=C08; [ $s = C15-4 ] && checks="C13 C15"
  res=""
  for C in $checks; do
    cd /tmp/stx/verif; out=$(./check $C quick 2>&1); ec=$?
    res="$res $C:exit=$ec,viol=$(echo "$out" | grep -c '^VIOLATION')"
  done
  echo "$s:$res"
done
cd /tmp/stx/repo && git reset -q --hard HEAD
