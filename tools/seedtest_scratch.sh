#!/bin/bash
# (helper: needs a scratch copy: git -C /repo worktree add --detach /tmp/sty/repo HEAD; rsync -a --exclude .git /verif/ /tmp/sty/verif/ ; never touches /repo)
# usage: seedtest4.sh <suffix e.g. c17-9> <PROP> [more PROPs]  -> apply to /tmp/sty/repo, run quick check(s) in /tmp/sty/verif, reset
w=$1; shift
rsync -a --exclude target --exclude .git --exclude replays --exclude evidence --exclude 'zsim/shadow' /verif/ /tmp/sty/verif/
cd /tmp/sty/repo && git reset -q --hard HEAD && git checkout -q --detach $(git -C /repo rev-parse HEAD)
git apply -3 /tmp/seed-$w/SEED/patch.diff 2>&1 | grep -v "^Applied" | head -3
git status --short | head -3
cd /tmp/sty/verif
for P in "$@"; do ZIPORA_REPO=/tmp/sty/repo ./check $P quick 2>&1 | grep -v "^KNOWN" | tail -4 | cut -c1-330; done
cd /tmp/sty/repo && git reset -q --hard HEAD
