#!/usr/bin/env python3
# (helper used while writing DESIGN.md: regenerates its number-bearing parts from evidence/*.json and evidence/thorough/*.json)
# regenerates the number-bearing parts of DESIGN.md from the evidence files
import json,re
ids=['C02','C03','C05','C06','C07','C08','C10','C13','C15','C16','C17','C18','C19']
s=open('/verif/DESIGN.md').read()
# section 5 lines
for ID in ids:
    e=json.load(open('/verif/evidence/%s.json'%ID))
    assert e['tier']=='quick', (ID,e['tier'])
    c=e['coverage']; n=len(c['per_scenario']); runs=c['evaluations']
    pat=re.compile(r"(\*After the harness audit \(section 12; `reports/audit-%s\.md`[^\n]*?:\*) \d+ scenarios, [\d ]+ quick runs\."%ID.lower())
    s,k=pat.subn(lambda m: "%s %d scenarios, %s quick runs."%(m.group(1),n,format(runs,',').replace(',',' ')), s)
    assert k==1,(ID,k)
# 7.1 determinism list
det=[]
for ID in ids:
    c=json.load(open('/verif/evidence/%s.json'%ID))['coverage']
    det.append("%d/%d (%s)"%(c['determinism_pairs_checked']-len(c['determinism_mismatches']),c['determinism_pairs_checked'],ID))
s=re.sub(r"On the final tree: [^\n]*\n[^\n]*\n", "On the final tree: "+", ".join(det[:7])+",\n  "+", ".join(det[7:])+".\n", s, count=1)
# 7.5 table
rows=["| check | runs | distinct non-trivial | known-finding identities seen | violations | wall s | determinism pairs |","|---|---|---|---|---|---|---|"]
tot=0; wall=0
for ID in ids:
    e=json.load(open('/verif/evidence/thorough/%s.json'%ID)); c=e['coverage']
    tot+=c['evaluations']; wall+=e['wall_s']
    rows.append("| %s | %s | %s | %d | %d | %d | %d/%d |%s"%(ID,format(c['evaluations'],',').replace(',',' '),format(c['distinct_nontrivial'],',').replace(',',' '),len(c['known_findings_seen']),(e['violations'] if isinstance(e['violations'],int) else len(e['violations'])),round(e['wall_s']),c['determinism_pairs_checked']-len(c['determinism_mismatches']),c['determinism_pairs_checked']," (cut by the wall-clock cap)" if c['truncated_by_wall_cap'] else ""))
a=s.index("| check | runs | distinct non-trivial |"); b=s.index("\n\n",a)
s=s[:a]+"\n".join(rows)+s[b:]
s=re.sub(r"Total: about \d+ M simulated runs in about \d+ minutes of wall clock","Total: about %d M simulated runs in about %d minutes of wall clock"%(round(tot/1e6),round(wall/60)),s)
open('/verif/DESIGN.md','w').write(s)
print("ok total runs",tot,"wall min",wall/60)
