#!/bin/bash
# (helper: needs a scratch copy: git -C /repo worktree add --detach /tmp/sty/repo HEAD; rsync -a --exclude .git /verif/ /tmp/sty/verif/ ; never touches /repo)
# usage: storedtest.sh <ID e.g. C15-8> <PROP> [extra check args]  -> apply stored seed to /tmp/sty/repo, run quick check, reset
id=$1; P=$2; shift; shift
rsync -a --exclude target --exclude .git --exclude replays --exclude evidence --exclude 'zsim/shadow' /verif/ /tmp/sty/verif/
cd /tmp/sty/repo && git reset -q --hard HEAD && git checkout -q --detach $(git -C /repo rev-parse HEAD)
git apply -3 /verif/seeded/$id/patch.diff 2>&1 | grep -v "^Applied" | head -3
git status --short | head -3
cd /tmp/sty/verif
ZIPORA_REPO=/tmp/sty/repo ./check $P quick "$@" 2>&1 | grep -v "^KNOWN" | tail -5 | cut -c1-330
cd /tmp/sty/repo && git reset -q --hard HEAD
