//! C05 — a trie is exactly the set of keys inserted and not removed.
//!
//! E5 only: one client, no faults, no threads.  A seeded history of insert / remove /
//! lookups over a small per-run palette of byte-string keys (empty key, 0x00 / 0xFF bytes,
//! keys that are prefixes of each other, keys longer than every path-compression limit) is
//! applied to the real trie and to a `BTreeSet<Vec<u8>>`; every observation the statement
//! names (contains, len, keys, keys_with_prefix, accepts, longest_prefix) is compared with
//! the model, after every mutation (contains(k) + len) and in a full audit at the end.
//!
//! One scenario per target type / configuration preset.  For `ZiporaTrie` every preset has
//! two families: `.grow` (insert + lookups only) and `.full` (insert + remove + lookups), so
//! that a `remove` that does nothing in one strategy cannot hide what the insert-only paths
//! of that strategy do.

use std::collections::BTreeSet;
use std::sync::Arc;
use zipora::fsa::traits::{FiniteStateAutomaton, Trie};
use zipora::fsa::{
    CompressedSparseTrie, CompressionStrategy, CritBitTrie, DoubleArrayTrie, DoubleArrayTrieConfig, NestedLoudsTrie, NestedTrieDawg, NestingConfig, PatriciaTrie, SimpleDawg, StorageStrategy,
    TrieStrategy, ZiporaTrie, ZiporaTrieConfig,
};
use zipora::memory::{SecureMemoryPool, SecurePoolConfig};
use zipora::ParallelLoudsTrie;
use zsim_core::{CheckSpec, Run, Scenario, Tier};

// ---------------------------------------------------------------------------------------
// keys

/// The global key table.  A run works on a palette of 4-8 of these.
fn key_table() -> Vec<Vec<u8>> {
    let rep = |b: u8, n: usize| vec![b; n];
    let cat = |a: &[u8], b: &[u8]| {
        let mut v = a.to_vec();
        v.extend_from_slice(b);
        v
    };
    vec![
        // index 0 is the plainest key: the shrinker moves choices towards 0
        b"a".to_vec(),                   // 0
        b"ab".to_vec(),                  // 1
        b"abc".to_vec(),                 // 2
        b"abd".to_vec(),                 // 3
        b"ac".to_vec(),                  // 4
        b"b".to_vec(),                   // 5
        b"ba".to_vec(),                  // 6
        vec![],                          // 7  the empty key
        vec![0x00],                      // 8
        vec![0x00, 0x00],                // 9
        vec![0x00, 0xFF],                // 10
        vec![0xFF],                      // 11
        vec![0xFF, 0xFF],                // 12
        vec![0xFF, 0x00],                // 13
        vec![0x01],                      // 14
        vec![0x80],                      // 15
        b"abc\0".to_vec(),               // 16
        b"\0a".to_vec(),                 // 17
        // ---- long keys (index >= LONG_FROM): past the 16/32/64 path-compression limits
        rep(b'a', 17),                   // 18
        rep(b'a', 33),                   // 19
        rep(b'a', 65),                   // 20
        cat(&rep(b'a', 65), b"b"),       // 21
        cat(b"ab", &rep(0x00, 70)),      // 22
        rep(0xFF, 70),                   // 23
        rep(b'a', 255),                  // 24  longest key the LOUDS strategy takes
        rep(b'a', 256),                  // 25  LOUDS refuses this one with Err (documented in the error text)
    ]
}
const LONG_FROM: usize = 18;

/// Stable, address-free rendering of a key: printable ASCII as is, the rest as \xNN, runs of
/// six or more equal bytes as {b*n}.
fn show(k: &[u8]) -> String {
    fn one(b: u8, out: &mut String) {
        if (0x21..0x7f).contains(&b) && b != b'\\' && b != b'"' && b != b'{' && b != b'}' {
            out.push(b as char);
        } else {
            out.push_str(&format!("\\x{:02x}", b));
        }
    }
    let mut s = String::from("\"");
    let mut i = 0;
    while i < k.len() {
        let mut j = i;
        while j < k.len() && k[j] == k[i] {
            j += 1;
        }
        if j - i >= 6 {
            s.push('{');
            one(k[i], &mut s);
            s.push_str(&format!("*{}}}", j - i));
        } else {
            for _ in i..j {
                one(k[i], &mut s);
            }
        }
        i = j;
    }
    s.push('"');
    s
}

fn show_set(ks: &[Vec<u8>]) -> String {
    let mut v: Vec<String> = ks.iter().take(8).map(|k| show(k)).collect();
    if ks.len() > 8 {
        v.push(format!("... {} more", ks.len() - 8));
    }
    format!("[{}]", v.join(", "))
}

// ---------------------------------------------------------------------------------------
// the adapter: what each target type offers.  `None` = the type has no such method.

trait Target {
    /// type name used in violation sites
    fn ty(&self) -> &'static str;
    fn insert(&mut self, k: &[u8], variant: u64) -> Result<(), String>;
    fn remove(&mut self, _k: &[u8]) -> Option<Result<bool, String>> {
        None
    }
    fn contains(&self, k: &[u8]) -> bool;
    fn len(&self) -> usize;
    fn keys(&self) -> Option<Vec<Vec<u8>>> {
        None
    }
    fn keys_with_prefix(&self, _p: &[u8]) -> Option<Vec<Vec<u8>>> {
        None
    }
    fn accepts(&self, _k: &[u8]) -> Option<bool> {
        None
    }
    fn longest_prefix(&self, _q: &[u8]) -> Option<Option<usize>> {
        None
    }
    /// rare internal branches this run reached, read off public inspection methods
    fn reached(&self) -> Vec<&'static str> {
        vec![]
    }
}

struct Zt {
    t: ZiporaTrie,
    ty: &'static str,
}
impl Target for Zt {
    fn ty(&self) -> &'static str {
        self.ty
    }
    fn insert(&mut self, k: &[u8], variant: u64) -> Result<(), String> {
        // both public spellings: the inherent method and the `Trie` trait method
        if variant % 4 == 0 {
            <ZiporaTrie as Trie>::insert(&mut self.t, k).map(|_| ()).map_err(|e| e.to_string())
        } else {
            self.t.insert(k).map_err(|e| e.to_string())
        }
    }
    fn remove(&mut self, k: &[u8]) -> Option<Result<bool, String>> {
        Some(self.t.remove(k).map_err(|e| e.to_string()))
    }
    fn contains(&self, k: &[u8]) -> bool {
        self.t.contains(k)
    }
    fn len(&self) -> usize {
        self.t.len()
    }
    fn keys(&self) -> Option<Vec<Vec<u8>>> {
        Some(self.t.keys())
    }
    fn keys_with_prefix(&self, p: &[u8]) -> Option<Vec<Vec<u8>>> {
        Some(self.t.keys_with_prefix(p))
    }
    fn accepts(&self, k: &[u8]) -> Option<bool> {
        Some(self.t.accepts(k))
    }
    fn longest_prefix(&self, q: &[u8]) -> Option<Option<usize>> {
        Some(self.t.longest_prefix(q))
    }
    fn reached(&self) -> Vec<&'static str> {
        let mut v = vec![];
        if let TrieStrategy::DoubleArray { .. } = self.t.config().trie_strategy {
            // a state whose base is not the first-choice base (state/4, at least 1) has been relocated
            if self.t.get_base_double_array(0) != 1 {
                v.push("double_array_root_relocated");
            }
            for s in 1..self.t.capacity() as u32 {
                if !self.t.is_free_double_array(s) {
                    let b = self.t.get_base_double_array(s);
                    if b != 0x7FFF_FFFF && b != (s / 4).max(1) {
                        v.push("double_array_inner_state_relocated");
                        break;
                    }
                }
            }
        }
        v
    }
}

/// The three legacy wrapper structs share one shape: insert / contains / len + the FSA view.
macro_rules! wrapper_target {
    ($name:ident, $inner:ty, $tyname:expr) => {
        struct $name($inner);
        impl Target for $name {
            fn ty(&self) -> &'static str {
                $tyname
            }
            fn insert(&mut self, k: &[u8], variant: u64) -> Result<(), String> {
                if variant % 4 == 0 {
                    <$inner as Trie>::insert(&mut self.0, k).map(|_| ()).map_err(|e| e.to_string())
                } else {
                    self.0.insert(k).map_err(|e| e.to_string())
                }
            }
            fn contains(&self, k: &[u8]) -> bool {
                self.0.contains(k)
            }
            fn len(&self) -> usize {
                self.0.len()
            }
            fn accepts(&self, k: &[u8]) -> Option<bool> {
                Some(self.0.accepts(k))
            }
            fn longest_prefix(&self, q: &[u8]) -> Option<Option<usize>> {
                Some(self.0.longest_prefix(q))
            }
            fn reached(&self) -> Vec<&'static str> {
                Reached::reached(&self.0)
            }
        }
    };
}

trait Reached {
    fn reached(&self) -> Vec<&'static str> {
        vec![]
    }
}
impl Reached for NestedLoudsTrie<()> {}
impl Reached for CompressedSparseTrie {}
impl Reached for DoubleArrayTrie {
    fn reached(&self) -> Vec<&'static str> {
        let mut v = vec![];
        if self.get_base(0) != 1 {
            v.push("double_array_root_relocated");
        }
        for s in 1..self.capacity() as u32 {
            if !self.is_free(s) {
                let b = self.get_base(s);
                if b != 0x7FFF_FFFF && b != (s / 4).max(1) {
                    v.push("double_array_inner_state_relocated");
                    break;
                }
            }
        }
        v
    }
}
wrapper_target!(Dat, DoubleArrayTrie, "DoubleArrayTrie");
wrapper_target!(Nlt, NestedLoudsTrie<()>, "NestedLoudsTrie");
wrapper_target!(Cst, CompressedSparseTrie, "CompressedSparseTrie");

struct Dawg(NestedTrieDawg);
impl Target for Dawg {
    fn ty(&self) -> &'static str {
        "NestedTrieDawg"
    }
    fn insert(&mut self, k: &[u8], _variant: u64) -> Result<(), String> {
        <NestedTrieDawg as Trie>::insert(&mut self.0, k).map(|_| ()).map_err(|e| e.to_string())
    }
    fn contains(&self, k: &[u8]) -> bool {
        <NestedTrieDawg as Trie>::contains(&self.0, k)
    }
    fn len(&self) -> usize {
        <NestedTrieDawg as Trie>::len(&self.0)
    }
    fn accepts(&self, k: &[u8]) -> Option<bool> {
        Some(self.0.accepts(k))
    }
    fn longest_prefix(&self, q: &[u8]) -> Option<Option<usize>> {
        Some(self.0.longest_prefix(q))
    }
}

struct SDawg(SimpleDawg);
impl Target for SDawg {
    fn ty(&self) -> &'static str {
        "SimpleDawg"
    }
    fn insert(&mut self, k: &[u8], _variant: u64) -> Result<(), String> {
        self.0.insert(k).map_err(|e| e.to_string())
    }
    fn contains(&self, k: &[u8]) -> bool {
        self.0.contains(k)
    }
    fn len(&self) -> usize {
        self.0.num_keys()
    }
}

/// `ParallelLoudsTrie`, sequential subset only (insert / contains / len): these three use a
/// tokio mutex and nothing else, so a current-thread runtime drives them deterministically.
/// The `parallel_*` queries run on rayon's pool, which no seam reaches: not driven.
struct Par {
    rt: tokio::runtime::Runtime,
    t: ParallelLoudsTrie,
}
impl Target for Par {
    fn ty(&self) -> &'static str {
        "ParallelLoudsTrie"
    }
    fn insert(&mut self, k: &[u8], _variant: u64) -> Result<(), String> {
        self.rt.block_on(self.t.insert(k)).map(|_| ()).map_err(|e| e.to_string())
    }
    fn contains(&self, k: &[u8]) -> bool {
        self.rt.block_on(self.t.contains(k))
    }
    fn len(&self) -> usize {
        self.rt.block_on(self.t.len())
    }
}

// ---------------------------------------------------------------------------------------
// which target a scenario builds

#[derive(Clone, Copy, PartialEq, Debug)]
enum Kind {
    PatriciaDefault,
    PatriciaCacheOptimized,
    PatriciaShortPaths,
    LoudsSpaceOptimized,
    SparseOptimized,
    CritBitStringSpecialized,
    DoubleArrayConcurrentPreset,
    DoubleArrayCap256,
    AliasPatriciaTrie,
    AliasCritBitTrie,
    WrapDoubleArrayTrie,
    WrapNestedLoudsTrie,
    WrapCompressedSparseTrie,
    DawgInsert,
    DawgBuildThenInsert,
    SimpleDawg,
    ParallelSequential,
}

impl Kind {
    fn is_zipora_trie(self) -> bool {
        use Kind::*;
        matches!(
            self,
            PatriciaDefault | PatriciaCacheOptimized | PatriciaShortPaths | LoudsSpaceOptimized | SparseOptimized | CritBitStringSpecialized | DoubleArrayConcurrentPreset | DoubleArrayCap256
        )
    }
    fn label(self) -> &'static str {
        use Kind::*;
        match self {
            PatriciaDefault => "ZiporaTrie/patricia_default",
            PatriciaCacheOptimized => "ZiporaTrie/patricia_cache_optimized",
            PatriciaShortPaths => "ZiporaTrie/patricia_short_paths",
            LoudsSpaceOptimized => "ZiporaTrie/louds_space_optimized",
            SparseOptimized => "ZiporaTrie/sparse_optimized",
            CritBitStringSpecialized => "ZiporaTrie/critbit_string_specialized",
            DoubleArrayConcurrentPreset => "ZiporaTrie/double_array_concurrent_preset",
            DoubleArrayCap256 => "ZiporaTrie/double_array_cap256",
            AliasPatriciaTrie => "PatriciaTrie/new",
            AliasCritBitTrie => "CritBitTrie/new",
            WrapDoubleArrayTrie => "DoubleArrayTrie/new_or_with_config",
            WrapNestedLoudsTrie => "NestedLoudsTrie/new_or_with_config",
            WrapCompressedSparseTrie => "CompressedSparseTrie/new",
            DawgInsert => "NestedTrieDawg/insert",
            DawgBuildThenInsert => "NestedTrieDawg/build_then_insert",
            SimpleDawg => "SimpleDawg/insert",
            ParallelSequential => "ParallelLoudsTrie/sequential",
        }
    }
    /// longest key (bytes) the palette may contain
    fn max_key_len(self) -> usize {
        match self {
            // every insert clones the whole trie once per CPU: keep its nodes few
            Kind::ParallelSequential => 40,
            // no path compression to get past, and every symbol of a key costs several debug eprintln!s
            Kind::DoubleArrayConcurrentPreset | Kind::DoubleArrayCap256 | Kind::WrapDoubleArrayTrie => 70,
            _ => 1000,
        }
    }
}

fn build(kind: Kind, cfg: &zsim_core::Chan, cx: &mut Run) -> Box<dyn Target> {
    use Kind::*;
    let zt = |c: ZiporaTrieConfig, ty: &'static str| -> Box<dyn Target> { Box::new(Zt { t: ZiporaTrie::with_config(c), ty }) };
    match kind {
        PatriciaDefault => zt(ZiporaTrieConfig::default(), "ZiporaTrie"),
        PatriciaCacheOptimized => zt(ZiporaTrieConfig::cache_optimized(), "ZiporaTrie"),
        PatriciaShortPaths => {
            let mut c = ZiporaTrieConfig::default();
            let mpl = *cfg.pick(&[1usize, 2, 4]);
            c.trie_strategy = TrieStrategy::Patricia { max_path_length: mpl, compression_threshold: 1, adaptive_compression: cfg.below(2) == 1 };
            c.compression_strategy = if cfg.below(2) == 0 { CompressionStrategy::None } else { CompressionStrategy::PathCompression { min_path_length: 1, max_path_length: mpl, adaptive_threshold: false } };
            c.storage_strategy = if cfg.below(2) == 0 { StorageStrategy::Standard { initial_capacity: 1, growth_factor: 1.5 } } else { StorageStrategy::CacheOptimized { cache_line_size: 64, numa_aware: false, prefetch_enabled: false } };
            cx.ev(format!("config: Patricia max_path_length={}", mpl));
            zt(c, "ZiporaTrie")
        }
        LoudsSpaceOptimized => zt(ZiporaTrieConfig::space_optimized(), "ZiporaTrie"),
        SparseOptimized => zt(ZiporaTrieConfig::sparse_optimized(), "ZiporaTrie"),
        CritBitStringSpecialized => zt(ZiporaTrieConfig::string_specialized(), "ZiporaTrie"),
        DoubleArrayConcurrentPreset => {
            let pool = SecureMemoryPool::new(SecurePoolConfig::small_secure()).expect("pool");
            zt(ZiporaTrieConfig::concurrent_high_performance(pool), "ZiporaTrie")
        }
        DoubleArrayCap256 => {
            let mut c = ZiporaTrieConfig::default();
            c.trie_strategy = TrieStrategy::DoubleArray { initial_capacity: 256, growth_factor: 1.5, free_list_management: true, auto_shrink: false };
            zt(c, "ZiporaTrie")
        }
        AliasPatriciaTrie => Box::new(Zt { t: PatriciaTrie::new(), ty: "PatriciaTrie" }),
        AliasCritBitTrie => Box::new(Zt { t: CritBitTrie::new(), ty: "CritBitTrie" }),
        WrapDoubleArrayTrie => {
            if cfg.below(2) == 0 {
                cx.ev("config: DoubleArrayTrie::new()");
                Box::new(Dat(DoubleArrayTrie::new()))
            } else {
                let cap = *cfg.pick(&[1usize, 2, 16]);
                cx.ev(format!("config: DoubleArrayTrie::with_config(initial_capacity={})", cap));
                Box::new(Dat(DoubleArrayTrie::with_config(DoubleArrayTrieConfig { initial_capacity: cap, ..Default::default() })))
            }
        }
        WrapNestedLoudsTrie => {
            if cfg.below(2) == 0 {
                cx.ev("config: NestedLoudsTrie::new()");
                Box::new(Nlt(NestedLoudsTrie::<()>::new().expect("NestedLoudsTrie::new")))
            } else {
                let lv = *cfg.pick(&[1usize, 2, 5]);
                cx.ev(format!("config: NestedLoudsTrie::with_config(max_levels={})", lv));
                Box::new(Nlt(NestedLoudsTrie::<()>::with_config(NestingConfig { max_levels: lv, ..Default::default() }).expect("NestedLoudsTrie::with_config")))
            }
        }
        WrapCompressedSparseTrie => Box::new(Cst(CompressedSparseTrie::new(zipora::fsa::ConcurrencyLevel::SingleThreadStrict).expect("CompressedSparseTrie::new"))),
        DawgInsert | DawgBuildThenInsert => Box::new(Dawg(NestedTrieDawg::new().expect("NestedTrieDawg::new"))),
        SimpleDawg => Box::new(SDawg(zipora::fsa::SimpleDawg::new())),
        ParallelSequential => {
            let rt = tokio::runtime::Builder::new_current_thread().build().expect("runtime");
            Box::new(Par { rt, t: ParallelLoudsTrie::new() })
        }
    }
}

// ---------------------------------------------------------------------------------------
// model + oracle

struct Model {
    set: BTreeSet<Vec<u8>>,
    /// keys that were members at some time and are not now
    removed: BTreeSet<Vec<u8>>,
    /// the last mutation was a re-insert of a key that was already a member
    last_was_reinsert: bool,
}

impl Model {
    fn longest_prefix(&self, q: &[u8]) -> Option<usize> {
        (0..=q.len()).rev().find(|&n| self.set.contains(&q[..n]))
    }
}

/// One observation compared with the model.  Returns false after recording a violation.
enum Obs<'a> {
    Contains(&'a [u8]),
    Len,
    Keys,
    Prefix(&'a [u8]),
    Accepts(&'a [u8]),
    Longest(&'a [u8]),
}

/// `quiet`: do not write an event line for a matching observation (used by the end audit).
fn observe(t: &dyn Target, m: &Model, o: Obs, cx: &mut Run, quiet: bool) -> bool {
    let ty = t.ty();
    match o {
        Obs::Contains(k) => {
            let got = t.contains(k);
            let want = m.set.contains(k);
            if !quiet {
                cx.ev(format!("contains({}) -> {}", show(k), got));
            }
            if got != want {
                let class = if want {
                    "missing_key"
                } else if m.removed.contains(k) {
                    "removed_key_present"
                } else {
                    "phantom_key"
                };
                cx.violate(class, &format!("{}.contains", ty), format!("contains({}) = {} but the key {} (members: {})", show(k), got, if want { "was inserted and not removed" } else if m.removed.contains(k) { "was removed" } else { "was never inserted" }, show_set(&m.set.iter().cloned().collect::<Vec<_>>())));
                return false;
            }
        }
        Obs::Len => {
            let got = t.len();
            if !quiet {
                cx.ev(format!("len() -> {}", got));
            }
            if got != m.set.len() {
                let class = if m.last_was_reinsert { "reinsert_changed_len" } else { "len_mismatch" };
                cx.violate(class, &format!("{}.len", ty), format!("len() = {} but {} keys are inserted and not removed: {}", got, m.set.len(), show_set(&m.set.iter().cloned().collect::<Vec<_>>())));
                return false;
            }
        }
        Obs::Keys | Obs::Prefix(_) => {
            let (got, want, what, site): (Vec<Vec<u8>>, Vec<Vec<u8>>, String, String) = match o {
                Obs::Keys => match t.keys() {
                    Some(g) => (g, m.set.iter().cloned().collect(), "keys()".into(), format!("{}.keys", ty)),
                    None => return true,
                },
                Obs::Prefix(p) => match t.keys_with_prefix(p) {
                    Some(g) => (g, m.set.iter().filter(|k| k.starts_with(p)).cloned().collect(), format!("keys_with_prefix({})", show(p)), format!("{}.keys_with_prefix", ty)),
                    None => return true,
                },
                _ => unreachable!(),
            };
            // compared as a set: order and multiplicity are not promised
            let gs: BTreeSet<Vec<u8>> = got.iter().cloned().collect();
            if gs.len() != got.len() {
                cx.probe("enumeration_had_duplicates");
            }
            let ws: BTreeSet<Vec<u8>> = want.iter().cloned().collect();
            if !quiet {
                cx.ev(format!("{} -> {}", what, show_set(&gs.iter().cloned().collect::<Vec<_>>())));
            }
            let missing: Vec<Vec<u8>> = ws.difference(&gs).cloned().collect();
            let extra: Vec<Vec<u8>> = gs.difference(&ws).cloned().collect();
            if !missing.is_empty() || !extra.is_empty() {
                let class = if !missing.is_empty() {
                    "enumeration_misses_member"
                } else if extra.iter().all(|k| m.set.contains(k)) {
                    // only possible for keys_with_prefix: a member that does not start with p
                    "enumeration_lists_member_without_prefix"
                } else if extra.iter().all(|k| m.removed.contains(k) || m.set.contains(k)) {
                    "enumeration_lists_removed_key"
                } else {
                    "enumeration_lists_phantom_key"
                };
                cx.violate(class, &site, format!("{} returned {} ; expected {} ; missing {} ; unexpected {}", what, show_set(&gs.iter().cloned().collect::<Vec<_>>()), show_set(&want), show_set(&missing), show_set(&extra)));
                return false;
            }
        }
        Obs::Accepts(k) => {
            let Some(got) = t.accepts(k) else { return true };
            let want = m.set.contains(k);
            if !quiet {
                cx.ev(format!("accepts({}) -> {}", show(k), got));
            }
            if got != want {
                let class = if want {
                    "accepts_rejects_member"
                } else if m.removed.contains(k) {
                    "accepts_removed_key"
                } else {
                    "accepts_phantom_key"
                };
                cx.violate(class, &format!("{}.accepts", ty), format!("accepts({}) = {} but contains must be {} (contains() says {})", show(k), got, want, t.contains(k)));
                return false;
            }
        }
        Obs::Longest(q) => {
            let Some(got) = t.longest_prefix(q) else { return true };
            let want = m.longest_prefix(q);
            if !quiet {
                cx.ev(format!("longest_prefix({}) -> {:?}", show(q), got));
            }
            if got != want {
                let class = match (got, want) {
                    (Some(g), _) if g > q.len() => "longest_prefix_out_of_range",
                    (Some(g), _) if !m.set.contains(&q[..g]) => {
                        if m.removed.contains(&q[..g]) {
                            "longest_prefix_is_removed_key"
                        } else {
                            "longest_prefix_not_a_member"
                        }
                    }
                    _ => "longest_prefix_too_short",
                };
                cx.violate(class, &format!("{}.longest_prefix", ty), format!("longest_prefix({}) = {:?} but the longest member that is a prefix has length {:?} (members: {})", show(q), got, want, show_set(&m.set.iter().cloned().collect::<Vec<_>>())));
                return false;
            }
        }
    }
    true
}

// ---------------------------------------------------------------------------------------
// the scenario

struct Sc {
    kind: Kind,
    /// remove is part of the workload
    full: bool,
}

impl Sc {
    /// Quick-tier budget.  Sized from measured CPU cost per run (Patricia 0.55 ms: 2 KiB nodes; double
    /// array 1.0-1.3 ms: its debug eprintln!s are compiled in under debug-assertions; ParallelLoudsTrie
    /// 2.1 ms: every insert clones the trie once per CPU) so that the whole check needs about
    /// 100 CPU-seconds.  Scenarios whose every run ends at the first lookup (stub strategies) are cheap.
    fn quick_budget(&self) -> u64 {
        use Kind::*;
        match self.kind {
            PatriciaDefault | PatriciaCacheOptimized | PatriciaShortPaths => 10_000,
            // the aliases are the very same type and constructor as patricia_default
            AliasPatriciaTrie | AliasCritBitTrie => 2_000,
            LoudsSpaceOptimized | CritBitStringSpecialized => 5_000,
            SparseOptimized => 10_000,
            DoubleArrayConcurrentPreset | DoubleArrayCap256 => {
                if self.full {
                    4_000
                } else {
                    10_000
                }
            }
            WrapDoubleArrayTrie => 10_000,
            WrapNestedLoudsTrie => 5_000,
            WrapCompressedSparseTrie => 10_000,
            DawgInsert | DawgBuildThenInsert => 8_000,
            SimpleDawg => 10_000,
            ParallelSequential => 2_000,
        }
    }
}

impl Scenario for Sc {
    fn name(&self) -> String {
        if self.kind.is_zipora_trie() || matches!(self.kind, Kind::AliasPatriciaTrie | Kind::AliasCritBitTrie) {
            format!("{}.{}", self.kind.label(), if self.full { "full" } else { "grow" })
        } else {
            self.kind.label().to_string()
        }
    }
    fn budget(&self, tier: Tier) -> u64 {
        match tier {
            Tier::Quick => self.quick_budget(),
            Tier::Thorough => self.quick_budget() * 50,
        }
    }
    fn run(&self, cx: &mut Run) {
        let cfg = cx.src.chan("cfg");
        let table = key_table();
        // ---- palette: 3-8 keys, mostly short, at most two long ones
        let npal = 3 + cfg.below(6) as usize;
        let mut palette: Vec<Vec<u8>> = vec![];
        let family = cfg.below(4);
        for _ in 0..npal {
            let synth: Vec<u8>;
            let k = if cfg.chance(1, 5) {
                &table[LONG_FROM + cfg.below((table.len() - LONG_FROM) as u64) as usize]
            } else if family == 3 {
                // synthesised: 1-4 bytes over a small alphabet, so that many different states want the
                // same slot (double array) / split the same node (everything else)
                const AB: [u8; 8] = [0x61, 0x62, 0x00, 0x01, 0x02, 0x79, 0x7a, 0xFF];
                let n = 1 + cfg.small(4) as usize;
                synth = (0..n).map(|_| AB[cfg.below(8) as usize]).collect();
                &synth
            } else {
                // families make shared prefixes likely: 0 = anything, 1 = the "a.." chain, 2 = 0x00/0xFF keys, 3 = synthesised (above)
                let pool: &[usize] = match family {
                    1 => &[0, 1, 2, 3, 4, 16, 5, 6, 7],
                    2 => &[8, 9, 10, 11, 12, 13, 14, 15, 17, 7],
                    _ => &[0, 1, 2, 3, 4, 5, 6, 7, 8, 9, 10, 11, 12, 13, 14, 15, 16, 17],
                };
                &table[pool[cfg.below(pool.len() as u64) as usize]]
            };
            if k.len() <= self.kind.max_key_len() && !palette.contains(k) {
                palette.push(k.clone());
            }
        }
        if palette.is_empty() {
            palette.push(b"a".to_vec());
        }
        let np = palette.len() as u64;
        // ---- swarm weights: [insert, remove, contains, len, keys, prefix, accepts, longest]
        let mut w: [u32; 8] = match cfg.below(3) {
            0 => [6, 3, 3, 1, 1, 1, 1, 1],
            1 => [4, 4, 1, 1, 2, 2, 2, 2],
            _ => [8, 1, 1, 0, 1, 1, 1, 1],
        };
        if !self.full {
            w[1] = 0;
        }
        let mut t = build(self.kind, &cfg, cx);
        let ty = t.ty();
        let mut m = Model { set: BTreeSet::new(), removed: BTreeSet::new(), last_was_reinsert: false };
        let mut ever: BTreeSet<Vec<u8>> = BTreeSet::new();
        let mut mutations = 0u64;

        // NestedTrieDawg: optionally start from build_from_keys (its documented construction path)
        if self.kind == Kind::DawgBuildThenInsert {
            let n0 = 1 + cfg.below(3) as usize;
            let mut init: Vec<Vec<u8>> = vec![];
            for _ in 0..n0 {
                let k = palette[cfg.below(np) as usize].clone();
                if !init.contains(&k) {
                    init.push(k);
                }
            }
            cx.ev(format!("build_from_keys({})", show_set(&init)));
            // reach the concrete type again: rebuild the box around a built DAWG
            let mut d = NestedTrieDawg::new().expect("NestedTrieDawg::new");
            if let Err(e) = d.build_from_keys(init.iter()) {
                cx.ev(format!("build_from_keys -> Err({})", e));
                return;
            }
            for k in &init {
                m.set.insert(k.clone());
                ever.insert(k.clone());
            }
            t = Box::new(Dawg(d));
            if !observe(t.as_ref(), &m, Obs::Len, cx, false) {
                return;
            }
            for k in &init {
                if !observe(t.as_ref(), &m, Obs::Contains(k), cx, false) {
                    return;
                }
            }
        }

        let planned = 3 + cfg.small(38);
        let mut ops = cx.src.ops("ops", planned);
        let wsum: u64 = w.iter().map(|&x| x as u64).sum();
        let mut prev_mut = "start";
        while let Some(o) = ops.next() {
            cx.steps += 1;
            // op kind by weight (a pure function of o[0], so that deleting an op shifts nothing)
            let mut x = o[0] % wsum;
            let mut kind = 0usize;
            for (i, &wi) in w.iter().enumerate() {
                if x < wi as u64 {
                    kind = i;
                    break;
                }
                x -= wi as u64;
            }
            let pk = &palette[(o[1] % np) as usize];
            // query keys: a palette key, or a near miss of one
            let q: Vec<u8> = match o[2] % 7 {
                0 | 1 | 2 => pk.clone(),
                3 => pk[..pk.len().saturating_sub(1)].to_vec(),
                4 => {
                    let mut v = pk.clone();
                    v.push(if o[3] % 2 == 0 { 0x00 } else { 0xFF });
                    v
                }
                5 => {
                    let mut v = pk.clone();
                    v.extend_from_slice(&palette[(o[3] % np) as usize]);
                    v
                }
                _ => pk[..pk.len() / 2].to_vec(),
            };
            match kind {
                0 => {
                    let was = m.set.contains(pk);
                    let r = t.insert(pk, o[2]);
                    mutations += 1;
                    match r {
                        Ok(()) => {
                            cx.ev(format!("insert({}) -> Ok{}", show(pk), if was { " (already a member)" } else { "" }));
                            if was {
                                cx.probe("reinsert_existing");
                            } else if m.removed.contains(pk) {
                                cx.probe("insert_after_remove");
                            }
                            m.removed.remove(pk);
                            m.set.insert(pk.clone());
                            ever.insert(pk.clone());
                            m.last_was_reinsert = was;
                            if pk.is_empty() {
                                cx.probe("empty_key_inserted");
                            }
                            if pk.len() > 64 {
                                cx.probe("key_longer_than_64_inserted");
                            }
                            if m.set.iter().any(|k| k != pk && (k.starts_with(pk) || pk.starts_with(k))) {
                                cx.probe("member_is_prefix_of_member");
                            }
                        }
                        Err(e) => {
                            // refusal: the model does not change, and the trie must not either
                            cx.ev(format!("insert({}) -> Err({})", show(pk), e));
                            cx.probe("insert_refused");
                            m.last_was_reinsert = false;
                        }
                    }
                    cx.cell(format!("{}/insert/{}>{}", ty, prev_mut, if was { "re" } else { "new" }));
                    prev_mut = if was { "reinsert" } else { "insert" };
                    if !observe(t.as_ref(), &m, Obs::Contains(pk), cx, false) || !observe(t.as_ref(), &m, Obs::Len, cx, false) {
                        return;
                    }
                }
                1 => {
                    let was = m.set.contains(pk);
                    let Some(r) = t.remove(pk) else { continue };
                    mutations += 1;
                    // the return value of remove is not part of the statement: recorded, not checked
                    match r {
                        Ok(b) => cx.ev(format!("remove({}) -> Ok({}){}", show(pk), b, if was { "" } else { " (not a member)" })),
                        Err(e) => {
                            cx.ev(format!("remove({}) -> Err({})", show(pk), e));
                            cx.probe("remove_err");
                        }
                    }
                    if was {
                        cx.probe("remove_present");
                        m.set.remove(pk);
                        m.removed.insert(pk.clone());
                        if m.set.iter().any(|k| k.starts_with(pk)) {
                            cx.probe("removed_key_is_prefix_of_member");
                        }
                        if m.set.iter().any(|k| pk.starts_with(k)) {
                            cx.probe("removed_key_extends_member");
                        }
                    } else {
                        cx.probe("remove_absent");
                    }
                    m.last_was_reinsert = false;
                    cx.cell(format!("{}/remove/{}>{}", ty, prev_mut, if was { "present" } else { "absent" }));
                    prev_mut = "remove";
                    if !observe(t.as_ref(), &m, Obs::Contains(pk), cx, false) || !observe(t.as_ref(), &m, Obs::Len, cx, false) {
                        return;
                    }
                }
                2 => {
                    if !observe(t.as_ref(), &m, Obs::Contains(&q), cx, false) {
                        return;
                    }
                }
                3 => {
                    if !observe(t.as_ref(), &m, Obs::Len, cx, false) {
                        return;
                    }
                }
                4 => {
                    if !observe(t.as_ref(), &m, Obs::Keys, cx, false) {
                        return;
                    }
                }
                5 => {
                    if !observe(t.as_ref(), &m, Obs::Prefix(&q), cx, false) {
                        return;
                    }
                }
                6 => {
                    if !observe(t.as_ref(), &m, Obs::Accepts(&q), cx, false) {
                        return;
                    }
                }
                _ => {
                    if !observe(t.as_ref(), &m, Obs::Longest(&q), cx, false) {
                        return;
                    }
                }
            }
        }

        // ---- end audit: every observable over the palette and its near misses, fixed order
        let mut universe: BTreeSet<Vec<u8>> = BTreeSet::new();
        for k in &palette {
            universe.insert(k.clone());
            universe.insert(k[..k.len().saturating_sub(1)].to_vec());
            universe.insert(k[..k.len() / 2].to_vec());
            for b in [0x00u8, 0xFF] {
                let mut v = k.clone();
                v.push(b);
                universe.insert(v);
            }
        }
        // concatenations of two members: what longest_prefix is for
        let members: Vec<Vec<u8>> = m.set.iter().take(4).cloned().collect();
        for a in &members {
            for b in &palette {
                if a.len() + b.len() <= 300 {
                    let mut v = a.clone();
                    v.extend_from_slice(b);
                    universe.insert(v);
                }
            }
        }
        let mut n_checks = 0u64;
        if !observe(t.as_ref(), &m, Obs::Len, cx, true) {
            return;
        }
        for k in &universe {
            n_checks += 1;
            if !observe(t.as_ref(), &m, Obs::Contains(k), cx, true) {
                return;
            }
        }
        if !observe(t.as_ref(), &m, Obs::Keys, cx, true) {
            return;
        }
        for k in &universe {
            if k.len() <= 70 {
                n_checks += 1;
                if !observe(t.as_ref(), &m, Obs::Prefix(k), cx, true) {
                    return;
                }
            }
        }
        for k in &universe {
            n_checks += 2;
            if !observe(t.as_ref(), &m, Obs::Accepts(k), cx, true) || !observe(t.as_ref(), &m, Obs::Longest(k), cx, true) {
                return;
            }
        }
        cx.ev(format!("audit: len, keys and {} lookups agree with the model ({} members)", n_checks, m.set.len()));
        for p in t.reached() {
            cx.probe(p);
        }
        cx.nontrivial = mutations >= 3 && ever.len() >= 2;
    }
}

fn main() {
    let mut spec = CheckSpec::new(
        "C05",
        "exploration",
        "seeded histories (E5: one client, no faults) of insert/remove/lookups over a per-run palette of 3-8 byte-string keys, compared step by step and in an end audit with a BTreeSet model; \
         non-trivial = at least 3 mutations and at least 2 distinct keys were members at some time; distinct = distinct hash of the (operation, observed result) trace plus mutation-bigram cells",
    );
    spec.assumptions = vec![
        "single client, no faults, no threads: the property has no schedule, clock or fault dimension".into(),
        "keys() and keys_with_prefix() are compared as sets (order and multiplicity are not promised)".into(),
        "an Err from insert is a refusal: the model is left unchanged and the trie must then not contain the key".into(),
        "the return value of remove() is not checked".into(),
        "ParallelLoudsTrie: only the sequential insert/contains/len are driven (tokio mutex on a current-thread runtime); its parallel_* queries run on rayon's pool, which no seam reaches".into(),
    ];
    spec.components = vec![
        ("fsa::ZiporaTrie (all five TrieStrategy storages, six presets + two custom configs)", "real"),
        ("fsa::{DoubleArrayTrie, NestedLoudsTrie, CompressedSparseTrie} wrappers, PatriciaTrie / CritBitTrie aliases", "real"),
        ("fsa::NestedTrieDawg, fsa::SimpleDawg", "real"),
        ("concurrency::ParallelLoudsTrie (sequential subset)", "real"),
        ("reference model", "BTreeSet<Vec<u8>>"),
    ];
    spec.init = zsim_props::install_hooks;
    // safety nets only (budgets end a run): generous, because the box is shared and a cap that bites drops whole scenarios
    spec.quick_wall_s = 300;
    spec.thorough_wall_s = 3600;
    use Kind::*;
    for kind in [PatriciaDefault, PatriciaCacheOptimized, PatriciaShortPaths, LoudsSpaceOptimized, SparseOptimized, CritBitStringSpecialized, DoubleArrayConcurrentPreset, DoubleArrayCap256, AliasPatriciaTrie, AliasCritBitTrie] {
        spec.scenarios.push(Box::new(Sc { kind, full: false }));
        spec.scenarios.push(Box::new(Sc { kind, full: true }));
    }
    for kind in [WrapDoubleArrayTrie, WrapNestedLoudsTrie, WrapCompressedSparseTrie, DawgInsert, DawgBuildThenInsert, SimpleDawg, ParallelSequential] {
        spec.scenarios.push(Box::new(Sc { kind, full: false }));
    }
    zsim_core::driver::main(spec);
}
