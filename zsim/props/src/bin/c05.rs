//! C05 — a trie is exactly the set of keys inserted and not removed.
//!
//! E5 only: one client, no faults, no threads.  A seeded history of insert / remove /
//! lookups over a small per-run palette of byte-string keys (empty key, 0x00 / 0xFF bytes,
//! keys that are prefixes of each other, keys longer than every path-compression limit) is
//! applied to the real trie and to a `BTreeSet<Vec<u8>>`; every observation the statement
//! names (contains, len, keys, keys_with_prefix, accepts, longest_prefix) is compared with
//! the model, after every mutation (contains(k) + len + a sweep over every key touched so far)
//! and in a full audit at the end.
//!
//! One scenario per target type / configuration preset.  For `ZiporaTrie` every preset has
//! the families `.grow` (insert + lookups only), `.full` (insert + remove + lookups) and `.ext`
//! (`.full` plus, behind per-run swarm switches, the rest of the public surface that must not
//! change the set: `clone` and continued use of both copies, `shrink_to_fit`,
//! `insert_and_get_node_id` as a third spelling of insert).  The wrapper types have one `/ext`
//! scenario each (builders, token spellings, `with_config` variants, `clear` + reuse,
//! `bulk_insert`, `from_trie`); `NestedTrieDawg/rebuild` re-runs `build_from_keys` on a structure in use.
//! A `remove` / automaton view that does nothing in one strategy
//! therefore cannot hide what the other paths of that strategy do.

use std::collections::BTreeSet;
use zipora::fsa::traits::{FiniteStateAutomaton, PrefixIterable, StatisticsProvider, Trie};
use zipora::fsa::{
    BitVectorType, CompressedSparseTrie, CompressionStrategy, ConcurrencyLevel, CritBitTrie, DawgConfig, DoubleArrayTrie, DoubleArrayTrieBuilder, DoubleArrayTrieConfig, FsaCacheConfig, NestedLoudsTrie,
    NestedTrieDawg, NestingConfig, PatriciaTrie, RankSelectType, SimpleDawg, StorageStrategy, TrieStrategy, VersionManager, ZiporaTrie, ZiporaTrieConfig,
};
use zipora::memory::{SecureMemoryPool, SecurePoolConfig};
use zipora::ParallelLoudsTrie;
use zsim_core::{CheckSpec, Run, Scenario, Tier};

// ---------------------------------------------------------------------------------------
// keys

/// The global key table.  A run works on a palette of these (or of synthesised keys).
fn key_table() -> Vec<Vec<u8>> {
    let rep = |b: u8, n: usize| vec![b; n];
    let cat = |a: &[u8], b: &[u8]| {
        let mut v = a.to_vec();
        v.extend_from_slice(b);
        v
    };
    vec![
        // index 0 is the plainest key: the shrinker moves choices towards 0
        b"a".to_vec(),                   // 0
        b"ab".to_vec(),                  // 1
        b"abc".to_vec(),                 // 2
        b"abd".to_vec(),                 // 3
        b"ac".to_vec(),                  // 4
        b"b".to_vec(),                   // 5
        b"ba".to_vec(),                  // 6
        vec![],                          // 7  the empty key
        vec![0x00],                      // 8
        vec![0x00, 0x00],                // 9
        vec![0x00, 0xFF],                // 10
        vec![0xFF],                      // 11
        vec![0xFF, 0xFF],                // 12
        vec![0xFF, 0x00],                // 13
        vec![0x01],                      // 14
        vec![0x80],                      // 15
        b"abc\0".to_vec(),               // 16
        b"\0a".to_vec(),                 // 17
        // ---- long keys (index >= LONG_FROM): past the 16/32/64 path-compression limits
        rep(b'a', 17),                   // 18
        rep(b'a', 33),                   // 19
        rep(b'a', 65),                   // 20
        cat(&rep(b'a', 65), b"b"),       // 21
        cat(b"ab", &rep(0x00, 70)),      // 22
        rep(0xFF, 70),                   // 23
        rep(b'a', 255),                  // 24  longest key the LOUDS strategy takes
        rep(b'a', 256),                  // 25  LOUDS refuses this one with Err (documented in the error text)
        // ---- exactly at the limits (16 / 32 / 64), and long keys that part in the middle with both tails going on
        rep(b'a', 16),                                     // 26
        rep(b'a', 32),                                     // 27
        rep(b'a', 64),                                     // 28
        rep(b'a', 40),                                     // 29  the branch point of the next two
        cat(&cat(&rep(b'a', 40), b"b"), &rep(b'a', 10)),   // 30
        cat(&cat(&rep(b'a', 40), b"c"), &rep(b'a', 10)),   // 31
        cat(&cat(&rep(b'a', 40), b"b"), &rep(b'z', 10)),   // 32
        cat(&rep(0xFF, 31), &[0x00]),                      // 33
    ]
}
const LONG_FROM: usize = 18;
/// the small byte alphabet of synthesised keys
const AB: [u8; 8] = [0x61, 0x62, 0x00, 0x01, 0x02, 0x79, 0x7a, 0xFF];

/// Stable, address-free rendering of a key: printable ASCII as is, the rest as \xNN, runs of
/// six or more equal bytes as {b*n}.
fn show(k: &[u8]) -> String {
    fn one(b: u8, out: &mut String) {
        if (0x21..0x7f).contains(&b) && b != b'\\' && b != b'"' && b != b'{' && b != b'}' {
            out.push(b as char);
        } else {
            out.push_str(&format!("\\x{:02x}", b));
        }
    }
    let mut s = String::from("\"");
    let mut i = 0;
    while i < k.len() {
        let mut j = i;
        while j < k.len() && k[j] == k[i] {
            j += 1;
        }
        if j - i >= 6 {
            s.push('{');
            one(k[i], &mut s);
            s.push_str(&format!("*{}}}", j - i));
        } else {
            for _ in i..j {
                one(k[i], &mut s);
            }
        }
        i = j;
    }
    s.push('"');
    s
}

fn show_set(ks: &[Vec<u8>]) -> String {
    let mut v: Vec<String> = ks.iter().take(8).map(|k| show(k)).collect();
    if ks.len() > 8 {
        v.push(format!("... {} more", ks.len() - 8));
    }
    format!("[{}]", v.join(", "))
}

// ---------------------------------------------------------------------------------------
// the adapter: what each target type offers.  `None` / `false` = the type has no such method.

/// what a second spelling of `len` returned
enum LenView {
    N(usize),
    Empty(bool),
}

trait Target {
    /// type name used in violation sites
    fn ty(&self) -> &'static str;
    fn insert(&mut self, k: &[u8], variant: u64) -> Result<(), String>;
    fn remove(&mut self, _k: &[u8]) -> Option<Result<bool, String>> {
        None
    }
    fn contains(&self, k: &[u8]) -> bool;
    fn len(&self) -> usize;
    fn keys(&self) -> Option<Vec<Vec<u8>>> {
        None
    }
    fn keys_with_prefix(&self, _p: &[u8]) -> Option<Vec<Vec<u8>>> {
        None
    }
    fn accepts(&self, _k: &[u8]) -> Option<bool> {
        None
    }
    fn longest_prefix(&self, _q: &[u8]) -> Option<Option<usize>> {
        None
    }
    // ---- other public spellings of the same observations (`v` selects one; None = use the primary)
    fn contains_alt(&self, _k: &[u8], _v: u64) -> Option<(&'static str, bool)> {
        None
    }
    fn len_alt(&self, _v: u64) -> Option<(&'static str, LenView)> {
        None
    }
    fn keys_alt(&self, _v: u64) -> Option<(&'static str, Vec<Vec<u8>>)> {
        None
    }
    fn prefix_alt(&self, _p: &[u8], _v: u64) -> Option<(&'static str, Vec<Vec<u8>>)> {
        None
    }
    // ---- the rest of the public surface that bears on the set (`.ext` scenarios only)
    /// `insert_and_get_node_id`
    fn insert_node_id(&mut self, _k: &[u8]) -> Option<Result<(), String>> {
        None
    }
    /// `Clone::clone`
    fn fork(&self) -> Option<Box<dyn Target>> {
        None
    }
    /// `shrink_to_fit`: must not change the set
    fn shrink(&mut self) -> bool {
        false
    }
    /// `clear`: the set becomes empty, the structure stays usable
    fn clear(&mut self) -> bool {
        false
    }
    /// `build_from_keys` on a structure in use: the set becomes exactly `keys`
    fn rebuild(&mut self, _keys: &[Vec<u8>]) -> Option<Result<(), String>> {
        None
    }
    /// `bulk_insert`
    fn bulk_insert(&mut self, _keys: &[Vec<u8>]) -> Option<Result<(), String>> {
        None
    }
    /// `refresh_replicas`: must not change the set
    fn refresh(&mut self) -> bool {
        false
    }
    /// rare internal branches this run reached, read off public inspection methods
    fn reached(&self) -> Vec<&'static str> {
        vec![]
    }
}

struct Zt {
    t: ZiporaTrie,
    ty: &'static str,
}
impl Target for Zt {
    fn ty(&self) -> &'static str {
        self.ty
    }
    fn insert(&mut self, k: &[u8], variant: u64) -> Result<(), String> {
        // both public spellings: the inherent method and the `Trie` trait method
        if variant % 4 == 0 {
            <ZiporaTrie as Trie>::insert(&mut self.t, k).map(|_| ()).map_err(|e| e.to_string())
        } else {
            self.t.insert(k).map_err(|e| e.to_string())
        }
    }
    fn remove(&mut self, k: &[u8]) -> Option<Result<bool, String>> {
        Some(self.t.remove(k).map_err(|e| e.to_string()))
    }
    fn contains(&self, k: &[u8]) -> bool {
        self.t.contains(k)
    }
    fn len(&self) -> usize {
        self.t.len()
    }
    fn keys(&self) -> Option<Vec<Vec<u8>>> {
        Some(self.t.keys())
    }
    fn keys_with_prefix(&self, p: &[u8]) -> Option<Vec<Vec<u8>>> {
        Some(self.t.keys_with_prefix(p))
    }
    fn accepts(&self, k: &[u8]) -> Option<bool> {
        Some(self.t.accepts(k))
    }
    fn longest_prefix(&self, q: &[u8]) -> Option<Option<usize>> {
        Some(self.t.longest_prefix(q))
    }
    fn contains_alt(&self, k: &[u8], v: u64) -> Option<(&'static str, bool)> {
        match v % 3 {
            1 => Some(("lookup", <ZiporaTrie as Trie>::lookup(&self.t, k).is_some())),
            2 => Some(("contains", <ZiporaTrie as Trie>::contains(&self.t, k))),
            _ => None,
        }
    }
    fn len_alt(&self, v: u64) -> Option<(&'static str, LenView)> {
        match v % 4 {
            1 => Some(("len", LenView::N(<ZiporaTrie as Trie>::len(&self.t)))),
            2 => Some(("is_empty", LenView::Empty(if v % 8 < 4 { self.t.is_empty() } else { <ZiporaTrie as Trie>::is_empty(&self.t) }))),
            3 => Some(("stats.num_keys", LenView::N(self.t.stats().num_keys))),
            _ => None,
        }
    }
    fn keys_alt(&self, v: u64) -> Option<(&'static str, Vec<Vec<u8>>)> {
        match v % 3 {
            1 => Some(("iter_all", self.t.iter_all().collect())),
            2 => Some(("iter_all", <ZiporaTrie as PrefixIterable>::iter_all(&self.t).collect())),
            _ => None,
        }
    }
    fn prefix_alt(&self, p: &[u8], v: u64) -> Option<(&'static str, Vec<Vec<u8>>)> {
        match v % 3 {
            1 => Some(("iter_prefix", self.t.iter_prefix(p).collect())),
            2 => Some(("iter_prefix", <ZiporaTrie as PrefixIterable>::iter_prefix(&self.t, p).collect())),
            _ => None,
        }
    }
    fn insert_node_id(&mut self, k: &[u8]) -> Option<Result<(), String>> {
        Some(self.t.insert_and_get_node_id(k).map(|_| ()).map_err(|e| e.to_string()))
    }
    fn fork(&self) -> Option<Box<dyn Target>> {
        Some(Box::new(Zt { t: self.t.clone(), ty: "ZiporaTrie(clone)" }))
    }
    fn shrink(&mut self) -> bool {
        self.t.shrink_to_fit();
        true
    }
    fn reached(&self) -> Vec<&'static str> {
        let mut v = vec![];
        if let TrieStrategy::DoubleArray { .. } = self.t.config().trie_strategy {
            // a state whose base is not the first-choice base (state/4, at least 1) has been relocated
            if self.t.get_base_double_array(0) != 1 {
                v.push("double_array_root_relocated");
            }
            for s in 1..self.t.capacity() as u32 {
                if !self.t.is_free_double_array(s) {
                    let b = self.t.get_base_double_array(s);
                    if b != 0x7FFF_FFFF && b != (s / 4).max(1) {
                        v.push("double_array_inner_state_relocated");
                        break;
                    }
                }
            }
        }
        v
    }
}

/// The three legacy wrapper structs share one shape: insert / contains / lookup / len / is_empty /
/// stats + the FSA view.
macro_rules! wrapper_target {
    ($name:ident, $inner:ty, $tyname:expr) => {
        impl Target for $name {
            fn ty(&self) -> &'static str {
                $tyname
            }
            fn insert(&mut self, k: &[u8], variant: u64) -> Result<(), String> {
                if variant % 4 == 0 {
                    <$inner as Trie>::insert(&mut self.0, k).map(|_| ()).map_err(|e| e.to_string())
                } else {
                    self.insert_inherent(k, variant)
                }
            }
            fn contains(&self, k: &[u8]) -> bool {
                self.0.contains(k)
            }
            fn len(&self) -> usize {
                self.0.len()
            }
            fn accepts(&self, k: &[u8]) -> Option<bool> {
                Some(self.0.accepts(k))
            }
            fn longest_prefix(&self, q: &[u8]) -> Option<Option<usize>> {
                Some(self.0.longest_prefix(q))
            }
            fn contains_alt(&self, k: &[u8], v: u64) -> Option<(&'static str, bool)> {
                match v % 4 {
                    1 => Some(("lookup", self.0.lookup(k).is_some())),
                    2 => Some(("lookup", <$inner as Trie>::lookup(&self.0, k).is_some())),
                    3 => Some(self.contains_extra(k).unwrap_or(("contains", <$inner as Trie>::contains(&self.0, k)))),
                    _ => None,
                }
            }
            fn len_alt(&self, v: u64) -> Option<(&'static str, LenView)> {
                match v % 4 {
                    1 => Some(("len", LenView::N(<$inner as Trie>::len(&self.0)))),
                    2 => Some(("is_empty", LenView::Empty(if v % 8 < 4 { self.0.is_empty() } else { <$inner as Trie>::is_empty(&self.0) }))),
                    3 => Some(("stats.num_keys", LenView::N(self.0.stats().num_keys))),
                    _ => None,
                }
            }
            fn shrink(&mut self) -> bool {
                self.shrink_inherent()
            }
            fn reached(&self) -> Vec<&'static str> {
                Reached::reached(&self.0)
            }
        }
    };
}

trait Reached {
    fn reached(&self) -> Vec<&'static str> {
        vec![]
    }
}
impl Reached for NestedLoudsTrie<()> {}
impl Reached for CompressedSparseTrie {}
impl Reached for DoubleArrayTrie {
    fn reached(&self) -> Vec<&'static str> {
        let mut v = vec![];
        if self.get_base(0) != 1 {
            v.push("double_array_root_relocated");
        }
        for s in 1..self.capacity() as u32 {
            if !self.is_free(s) {
                let b = self.get_base(s);
                if b != 0x7FFF_FFFF && b != (s / 4).max(1) {
                    v.push("double_array_inner_state_relocated");
                    break;
                }
            }
        }
        v
    }
}

struct Dat(DoubleArrayTrie);
impl Dat {
    fn insert_inherent(&mut self, k: &[u8], _v: u64) -> Result<(), String> {
        self.0.insert(k).map_err(|e| e.to_string())
    }
    fn contains_extra(&self, _k: &[u8]) -> Option<(&'static str, bool)> {
        None
    }
    fn shrink_inherent(&mut self) -> bool {
        self.0.shrink_to_fit();
        true
    }
}
struct Nlt(NestedLoudsTrie<()>);
impl Nlt {
    fn insert_inherent(&mut self, k: &[u8], _v: u64) -> Result<(), String> {
        self.0.insert(k).map_err(|e| e.to_string())
    }
    fn contains_extra(&self, _k: &[u8]) -> Option<(&'static str, bool)> {
        None
    }
    fn shrink_inherent(&mut self) -> bool {
        false
    }
}
/// `CompressedSparseTrie` with, optionally, the `*_with_token` spellings (tokens from a `VersionManager`
/// of the same concurrency level; where the manager refuses a token the plain spelling is used).
struct Cst(CompressedSparseTrie, Option<VersionManager>);
impl Cst {
    fn insert_inherent(&mut self, k: &[u8], v: u64) -> Result<(), String> {
        if let (Some(vm), true) = (&self.1, v % 4 == 1) {
            if let Ok(tok) = vm.acquire_writer_token() {
                return self.0.insert_with_token(k, &tok).map_err(|e| e.to_string());
            }
        }
        self.0.insert(k).map_err(|e| e.to_string())
    }
    fn contains_extra(&self, k: &[u8]) -> Option<(&'static str, bool)> {
        let vm = self.1.as_ref()?;
        let tok = vm.acquire_reader_token().ok()?;
        if k.len() % 2 == 0 {
            Some(("contains_with_token", self.0.contains_with_token(k, &tok)))
        } else {
            Some(("lookup_with_token", self.0.lookup_with_token(k, &tok).is_some()))
        }
    }
    fn shrink_inherent(&mut self) -> bool {
        false
    }
}
wrapper_target!(Dat, DoubleArrayTrie, "DoubleArrayTrie");
wrapper_target!(Nlt, NestedLoudsTrie<()>, "NestedLoudsTrie");
wrapper_target!(Cst, CompressedSparseTrie, "CompressedSparseTrie");

struct Dawg(NestedTrieDawg);
impl Target for Dawg {
    fn ty(&self) -> &'static str {
        "NestedTrieDawg"
    }
    fn insert(&mut self, k: &[u8], _variant: u64) -> Result<(), String> {
        <NestedTrieDawg as Trie>::insert(&mut self.0, k).map(|_| ()).map_err(|e| e.to_string())
    }
    fn contains(&self, k: &[u8]) -> bool {
        <NestedTrieDawg as Trie>::contains(&self.0, k)
    }
    fn len(&self) -> usize {
        <NestedTrieDawg as Trie>::len(&self.0)
    }
    fn accepts(&self, k: &[u8]) -> Option<bool> {
        Some(self.0.accepts(k))
    }
    fn longest_prefix(&self, q: &[u8]) -> Option<Option<usize>> {
        Some(self.0.longest_prefix(q))
    }
    fn contains_alt(&self, k: &[u8], v: u64) -> Option<(&'static str, bool)> {
        match v % 2 {
            1 => Some(("lookup", <NestedTrieDawg as Trie>::lookup(&self.0, k).is_some())),
            _ => None,
        }
    }
    fn len_alt(&self, v: u64) -> Option<(&'static str, LenView)> {
        match v % 4 {
            1 => Some(("statistics.num_keys", LenView::N(self.0.statistics().num_keys))),
            2 => Some(("is_empty", LenView::Empty(<NestedTrieDawg as Trie>::is_empty(&self.0)))),
            3 => Some(("stats.num_keys", LenView::N(<NestedTrieDawg as StatisticsProvider>::stats(&self.0).num_keys))),
            _ => None,
        }
    }
    fn clear(&mut self) -> bool {
        self.0.clear();
        true
    }
    fn rebuild(&mut self, keys: &[Vec<u8>]) -> Option<Result<(), String>> {
        Some(self.0.build_from_keys(keys.iter()).map_err(|e| e.to_string()))
    }
}

struct SDawg(SimpleDawg);
impl Target for SDawg {
    fn ty(&self) -> &'static str {
        "SimpleDawg"
    }
    fn insert(&mut self, k: &[u8], _variant: u64) -> Result<(), String> {
        self.0.insert(k).map_err(|e| e.to_string())
    }
    fn contains(&self, k: &[u8]) -> bool {
        self.0.contains(k)
    }
    fn len(&self) -> usize {
        self.0.num_keys()
    }
}

/// `ParallelLoudsTrie`, sequential subset only (insert / bulk_insert / contains / len / is_empty /
/// refresh_replicas / from_trie): these use a tokio mutex and nothing else, so a current-thread
/// runtime drives them deterministically.  The `parallel_*` queries run on rayon's pool, which no
/// seam reaches: not driven.
struct Par {
    rt: tokio::runtime::Runtime,
    t: ParallelLoudsTrie,
}
impl Target for Par {
    fn ty(&self) -> &'static str {
        "ParallelLoudsTrie"
    }
    fn insert(&mut self, k: &[u8], _variant: u64) -> Result<(), String> {
        self.rt.block_on(self.t.insert(k)).map(|_| ()).map_err(|e| e.to_string())
    }
    fn contains(&self, k: &[u8]) -> bool {
        self.rt.block_on(self.t.contains(k))
    }
    fn len(&self) -> usize {
        self.rt.block_on(self.t.len())
    }
    fn len_alt(&self, v: u64) -> Option<(&'static str, LenView)> {
        match v % 2 {
            1 => Some(("is_empty", LenView::Empty(self.rt.block_on(self.t.is_empty())))),
            _ => None,
        }
    }
    fn bulk_insert(&mut self, keys: &[Vec<u8>]) -> Option<Result<(), String>> {
        Some(self.rt.block_on(self.t.bulk_insert(keys.to_vec())).map(|_| ()).map_err(|e| e.to_string()))
    }
    fn refresh(&mut self) -> bool {
        let _ = self.rt.block_on(self.t.refresh_replicas());
        true
    }
}

// ---------------------------------------------------------------------------------------
// which target a scenario builds

#[derive(Clone, Copy, PartialEq, Debug)]
enum Kind {
    PatriciaDefault,
    PatriciaCacheOptimized,
    PatriciaShortPaths,
    LoudsSpaceOptimized,
    SparseOptimized,
    CritBitStringSpecialized,
    DoubleArrayConcurrentPreset,
    DoubleArrayCap256,
    /// `.ext` only: every field of `ZiporaTrieConfig` drawn per run (working strategies only)
    MixedConfig,
    AliasPatriciaTrie,
    AliasCritBitTrie,
    WrapDoubleArrayTrie,
    WrapNestedLoudsTrie,
    WrapCompressedSparseTrie,
    DawgInsert,
    DawgBuildThenInsert,
    /// build_from_keys on a structure in use, clear, and inserts only while the structure is not a built (merged) DAWG
    DawgRebuild,
    SimpleDawg,
    ParallelSequential,
}

#[derive(Clone, Copy, PartialEq, Debug)]
enum Fam {
    /// insert + lookups
    Grow,
    /// insert + remove + lookups
    Full,
    /// `Full` (without remove and the automaton view for the LOUDS targets, whose remove / automaton view are
    /// known stubs) + the extended public surface behind per-run switches
    Ext,
}

impl Kind {
    fn is_zipora_trie(self) -> bool {
        use Kind::*;
        matches!(
            self,
            PatriciaDefault | PatriciaCacheOptimized | PatriciaShortPaths | LoudsSpaceOptimized | SparseOptimized | CritBitStringSpecialized | DoubleArrayConcurrentPreset | DoubleArrayCap256 | MixedConfig
        )
    }
    fn is_louds(self) -> bool {
        matches!(self, Kind::LoudsSpaceOptimized | Kind::WrapNestedLoudsTrie)
    }
    fn label(self) -> &'static str {
        use Kind::*;
        match self {
            PatriciaDefault => "ZiporaTrie/patricia_default",
            PatriciaCacheOptimized => "ZiporaTrie/patricia_cache_optimized",
            PatriciaShortPaths => "ZiporaTrie/patricia_short_paths",
            LoudsSpaceOptimized => "ZiporaTrie/louds_space_optimized",
            SparseOptimized => "ZiporaTrie/sparse_optimized",
            CritBitStringSpecialized => "ZiporaTrie/critbit_string_specialized",
            DoubleArrayConcurrentPreset => "ZiporaTrie/double_array_concurrent_preset",
            DoubleArrayCap256 => "ZiporaTrie/double_array_cap256",
            MixedConfig => "ZiporaTrie/mixed_config",
            AliasPatriciaTrie => "PatriciaTrie/new",
            AliasCritBitTrie => "CritBitTrie/new",
            WrapDoubleArrayTrie => "DoubleArrayTrie/new_or_with_config",
            WrapNestedLoudsTrie => "NestedLoudsTrie/new_or_with_config",
            WrapCompressedSparseTrie => "CompressedSparseTrie/new",
            DawgInsert => "NestedTrieDawg/insert",
            DawgBuildThenInsert => "NestedTrieDawg/build_then_insert",
            DawgRebuild => "NestedTrieDawg/rebuild",
            SimpleDawg => "SimpleDawg/insert",
            ParallelSequential => "ParallelLoudsTrie/sequential",
        }
    }
    /// name of the `/ext` scenario of a non-ZiporaTrie kind
    fn ext_label(self) -> &'static str {
        use Kind::*;
        match self {
            WrapDoubleArrayTrie => "DoubleArrayTrie/ext",
            WrapNestedLoudsTrie => "NestedLoudsTrie/ext",
            WrapCompressedSparseTrie => "CompressedSparseTrie/ext",
            DawgInsert => "NestedTrieDawg/ext",
            ParallelSequential => "ParallelLoudsTrie/ext",
            _ => unreachable!(),
        }
    }
    /// longest key (bytes) the palette may contain
    fn max_key_len(self) -> usize {
        match self {
            // every insert clones the whole trie once per CPU: keep its nodes few
            Kind::ParallelSequential => 40,
            // no path compression to get past, and every symbol of a key costs several debug eprintln!s
            Kind::DoubleArrayConcurrentPreset | Kind::DoubleArrayCap256 | Kind::WrapDoubleArrayTrie | Kind::MixedConfig => 70,
            _ => 1000,
        }
    }
}

fn mixed_config(cfg: &zsim_core::Chan, cx: &mut Run) -> ZiporaTrieConfig {
    let b = |c: &zsim_core::Chan| c.below(2) == 1;
    let rs = |c: &zsim_core::Chan| match c.below(6) {
        0 => RankSelectType::Adaptive,
        1 => RankSelectType::Simple,
        2 => RankSelectType::Interleaved256,
        3 => RankSelectType::MixedIL256,
        4 => RankSelectType::MixedXL256,
        _ => RankSelectType::MixedXLBitPacked,
    };
    let storage = |c: &zsim_core::Chan, depth: u32| -> StorageStrategy {
        fn leaf(c: &zsim_core::Chan, k: u64, rs: RankSelectType) -> StorageStrategy {
            match k {
                0 => StorageStrategy::Standard { initial_capacity: *c.pick(&[64usize, 0, 1, 1000]), growth_factor: *c.pick(&[2.0f64, 1.0, 1.5]) },
                1 => StorageStrategy::Succinct {
                    bit_vector_type: match c.below(4) {
                        0 => BitVectorType::Standard,
                        1 => BitVectorType::RankSelectOptimized,
                        2 => BitVectorType::CacheAligned,
                        _ => BitVectorType::Compressed,
                    },
                    rank_select_type: rs,
                    interleaved_layout: c.below(2) == 1,
                },
                2 => StorageStrategy::CacheOptimized { cache_line_size: *c.pick(&[64usize, 0, 128]), numa_aware: c.below(2) == 1, prefetch_enabled: c.below(2) == 1 },
                _ => StorageStrategy::PoolAllocated { pool: SecureMemoryPool::new(SecurePoolConfig::small_secure()).expect("pool"), size_class: *c.pick(&[1024usize, 0, 8]), chunk_size: *c.pick(&[4096usize, 0, 64]) },
            }
        }
        let k = c.below(if depth == 0 { 5 } else { 4 });
        if k == 4 {
            StorageStrategy::Hybrid { primary: Box::new(leaf(c, c.below(4), RankSelectType::Simple)), secondary: Box::new(leaf(c, c.below(4), RankSelectType::Adaptive)), switch_threshold: *c.pick(&[0usize, 1, 4]) }
        } else {
            leaf(c, k, RankSelectType::Simple)
        }
    };
    let trie_strategy = match cfg.below(3) {
        0 => TrieStrategy::Patricia { max_path_length: *cfg.pick(&[64usize, 0, 1, 2, 16]), compression_threshold: *cfg.pick(&[4usize, 0, 1]), adaptive_compression: b(cfg) },
        1 => TrieStrategy::DoubleArray { initial_capacity: *cfg.pick(&[256usize, 0, 1, 2, 3, 16]), growth_factor: *cfg.pick(&[1.5f64, 1.0, 2.0]), free_list_management: b(cfg), auto_shrink: b(cfg) },
        _ => TrieStrategy::CompressedSparse { sparse_threshold: *cfg.pick(&[0.3f64, 0.0, 1.0]), compression_level: *cfg.pick(&[6u8, 0, 255]), adaptive_sparse: b(cfg) },
    };
    let compression_strategy = match cfg.below(5) {
        0 => CompressionStrategy::None,
        1 => CompressionStrategy::PathCompression { min_path_length: *cfg.pick(&[2usize, 0, 1]), max_path_length: *cfg.pick(&[32usize, 1, 2]), adaptive_threshold: b(cfg) },
        2 => CompressionStrategy::FragmentCompression { fragment_size: *cfg.pick(&[8usize, 0, 1]), frequency_threshold: 0.1, dictionary_size: *cfg.pick(&[4096usize, 0, 1]) },
        3 => CompressionStrategy::Hierarchical { levels: *cfg.pick(&[3usize, 0, 1]), compression_ratio: 0.7, adaptive_levels: b(cfg) },
        _ => CompressionStrategy::Adaptive { strategies: vec![CompressionStrategy::None, CompressionStrategy::PathCompression { min_path_length: 1, max_path_length: 2, adaptive_threshold: false }], decision_threshold: *cfg.pick(&[0usize, 1, 8]) },
    };
    let c = ZiporaTrieConfig { trie_strategy, storage_strategy: storage(cfg, 0), compression_strategy, rank_select_type: rs(cfg), enable_simd: b(cfg), enable_concurrency: b(cfg), cache_optimization: b(cfg) };
    let strat = match &c.trie_strategy {
        TrieStrategy::Patricia { max_path_length, .. } => format!("Patricia(max_path_length={})", max_path_length),
        TrieStrategy::DoubleArray { initial_capacity, .. } => format!("DoubleArray(initial_capacity={})", initial_capacity),
        TrieStrategy::CompressedSparse { .. } => "CompressedSparse".to_string(),
        _ => unreachable!(),
    };
    cx.ev(format!("config: mixed {} simd={} concurrency={} cache_optimization={}", strat, c.enable_simd, c.enable_concurrency, c.cache_optimization));
    c
}

/// What `build` hands back: the target and the keys that are members from the start (builder paths).
struct Built {
    t: Box<dyn Target>,
    preloaded: Vec<Vec<u8>>,
}

/// `init`: the keys a builder / `from_trie` start may be given (may contain duplicates, any order).
fn build(kind: Kind, fam: Fam, cfg: &zsim_core::Chan, cx: &mut Run, init: &[Vec<u8>]) -> Option<Built> {
    use Kind::*;
    let ext = fam == Fam::Ext;
    let plain = |t: Box<dyn Target>| Some(Built { t, preloaded: vec![] });
    let zt = |c: ZiporaTrieConfig, ty: &'static str| -> Option<Built> { Some(Built { t: Box::new(Zt { t: ZiporaTrie::with_config(c), ty }), preloaded: vec![] }) };
    match kind {
        PatriciaDefault => {
            if ext && cfg.below(3) != 0 {
                // the two other public constructors of the same configuration
                let t: ZiporaTrie = if cfg.below(2) == 0 { ZiporaTrie::new() } else { Default::default() };
                plain(Box::new(Zt { t, ty: "ZiporaTrie" }))
            } else {
                zt(ZiporaTrieConfig::default(), "ZiporaTrie")
            }
        }
        PatriciaCacheOptimized => zt(ZiporaTrieConfig::cache_optimized(), "ZiporaTrie"),
        PatriciaShortPaths => {
            let mut c = ZiporaTrieConfig::default();
            let mpl = *cfg.pick(&[1usize, 2, 4]);
            c.trie_strategy = TrieStrategy::Patricia { max_path_length: mpl, compression_threshold: 1, adaptive_compression: cfg.below(2) == 1 };
            c.compression_strategy = if cfg.below(2) == 0 { CompressionStrategy::None } else { CompressionStrategy::PathCompression { min_path_length: 1, max_path_length: mpl, adaptive_threshold: false } };
            c.storage_strategy = if cfg.below(2) == 0 { StorageStrategy::Standard { initial_capacity: 1, growth_factor: 1.5 } } else { StorageStrategy::CacheOptimized { cache_line_size: 64, numa_aware: false, prefetch_enabled: false } };
            cx.ev(format!("config: Patricia max_path_length={}", mpl));
            zt(c, "ZiporaTrie")
        }
        LoudsSpaceOptimized => zt(ZiporaTrieConfig::space_optimized(), "ZiporaTrie"),
        SparseOptimized => zt(ZiporaTrieConfig::sparse_optimized(), "ZiporaTrie"),
        CritBitStringSpecialized => zt(ZiporaTrieConfig::string_specialized(), "ZiporaTrie"),
        DoubleArrayConcurrentPreset => {
            let pool = SecureMemoryPool::new(SecurePoolConfig::small_secure()).expect("pool");
            zt(ZiporaTrieConfig::concurrent_high_performance(pool), "ZiporaTrie")
        }
        DoubleArrayCap256 => {
            let mut c = ZiporaTrieConfig::default();
            c.trie_strategy = TrieStrategy::DoubleArray { initial_capacity: 256, growth_factor: 1.5, free_list_management: true, auto_shrink: false };
            zt(c, "ZiporaTrie")
        }
        MixedConfig => {
            let c = mixed_config(cfg, cx);
            zt(c, "ZiporaTrie")
        }
        AliasPatriciaTrie => plain(Box::new(Zt { t: PatriciaTrie::new(), ty: "PatriciaTrie" })),
        AliasCritBitTrie => plain(Box::new(Zt { t: CritBitTrie::new(), ty: "CritBitTrie" })),
        WrapDoubleArrayTrie => {
            let how = cfg.below(if ext { 4 } else { 2 });
            let dcfg = |c: &zsim_core::Chan| {
                let cap = *c.pick(&[1usize, 2, 16]);
                (cap, DoubleArrayTrieConfig { initial_capacity: cap, ..Default::default() })
            };
            match how {
                0 => {
                    cx.ev("config: DoubleArrayTrie::new()");
                    plain(Box::new(Dat(DoubleArrayTrie::new())))
                }
                1 => {
                    let (cap, c) = dcfg(cfg);
                    cx.ev(format!("config: DoubleArrayTrie::with_config(initial_capacity={})", cap));
                    plain(Box::new(Dat(DoubleArrayTrie::with_config(c))))
                }
                2 => {
                    // the documented precondition of build_from_sorted: sorted input (made distinct as well)
                    let mut keys = init.to_vec();
                    keys.sort();
                    keys.dedup();
                    let b = if cfg.below(2) == 0 { DoubleArrayTrieBuilder::new() } else { DoubleArrayTrieBuilder::new_compact() };
                    cx.ev(format!("DoubleArrayTrieBuilder::build_from_sorted({})", show_set(&keys)));
                    match b.build_from_sorted(keys.clone()) {
                        Ok(t) => Some(Built { t: Box::new(Dat(t)), preloaded: keys }),
                        Err(e) => {
                            cx.ev(format!("build_from_sorted -> Err({})", e));
                            None
                        }
                    }
                }
                _ => {
                    let (cap, c) = dcfg(cfg);
                    cx.ev(format!("DoubleArrayTrieBuilder::with_config(initial_capacity={}).build_from_unsorted({})", cap, show_set(init)));
                    match DoubleArrayTrieBuilder::with_config(c).build_from_unsorted(init.to_vec()) {
                        Ok(t) => Some(Built { t: Box::new(Dat(t)), preloaded: init.to_vec() }),
                        Err(e) => {
                            cx.ev(format!("build_from_unsorted -> Err({})", e));
                            None
                        }
                    }
                }
            }
        }
        WrapNestedLoudsTrie => {
            let how = cfg.below(if ext { 4 } else { 2 });
            let ncfg = |c: &zsim_core::Chan| {
                let lv = *c.pick(&[1usize, 2, 5]);
                (lv, NestingConfig { max_levels: lv, ..Default::default() })
            };
            match how {
                0 => {
                    cx.ev("config: NestedLoudsTrie::new()");
                    plain(Box::new(Nlt(NestedLoudsTrie::<()>::new().expect("NestedLoudsTrie::new"))))
                }
                1 => {
                    let (lv, c) = ncfg(cfg);
                    cx.ev(format!("config: NestedLoudsTrie::with_config(max_levels={})", lv));
                    plain(Box::new(Nlt(NestedLoudsTrie::<()>::with_config(c).expect("NestedLoudsTrie::with_config"))))
                }
                _ => {
                    // keys the LOUDS strategy documents it refuses (> 255 bytes) are not given to the builder
                    let keys: Vec<Vec<u8>> = init.iter().filter(|k| k.len() <= 255).cloned().collect();
                    let r = if how == 2 {
                        cx.ev(format!("NestedLoudsTrie::builder().build_from_iter({})", show_set(&keys)));
                        NestedLoudsTrie::<()>::builder().build_from_iter(keys.clone())
                    } else {
                        let lv = *cfg.pick(&[1usize, 2, 5]);
                        let c = NestingConfig::builder().max_levels(lv).cache_optimization(cfg.below(2) == 1).build().expect("NestingConfigBuilder::build");
                        cx.ev(format!("NestedLoudsTrieBuilder::with_config(max_levels={}).build_from_iter({})", lv, show_set(&keys)));
                        zipora::fsa::nested_louds_trie::NestedLoudsTrieBuilder::<()>::with_config(c).build_from_iter(keys.clone())
                    };
                    match r {
                        Ok(t) => Some(Built { t: Box::new(Nlt(t)), preloaded: keys }),
                        Err(e) => {
                            cx.ev(format!("build_from_iter -> Err({})", e));
                            None
                        }
                    }
                }
            }
        }
        WrapCompressedSparseTrie => {
            if !ext {
                return plain(Box::new(Cst(CompressedSparseTrie::new(ConcurrencyLevel::SingleThreadStrict).expect("CompressedSparseTrie::new"), None)));
            }
            let level = *cfg.pick(&[ConcurrencyLevel::SingleThreadStrict, ConcurrencyLevel::SingleThreadShared, ConcurrencyLevel::OneWriteMultiRead, ConcurrencyLevel::MultiWriteMultiRead, ConcurrencyLevel::NoWriteReadOnly]);
            let pooled = cfg.below(2) == 1;
            let tokens = cfg.below(3) != 0;
            cx.ev(format!("config: CompressedSparseTrie::{}({}) tokens={}", if pooled { "with_memory_pool" } else { "new" }, level, tokens));
            let t = if pooled { CompressedSparseTrie::with_memory_pool(level, SecureMemoryPool::new(SecurePoolConfig::small_secure()).expect("pool")) } else { CompressedSparseTrie::new(level) }.expect("CompressedSparseTrie");
            plain(Box::new(Cst(t, if tokens { Some(VersionManager::new(level)) } else { None })))
        }
        DawgInsert | DawgBuildThenInsert | DawgRebuild => {
            if !(ext && kind == DawgInsert) {
                return plain(Box::new(Dawg(NestedTrieDawg::new().expect("NestedTrieDawg::new"))));
            }
            // every field of DawgConfig; the dense table needs max_states * 1 KiB, so it only comes with few states
            let dense = cfg.below(3) == 0;
            let max_states = if dense { *cfg.pick(&[64usize, 4, 16]) } else { *cfg.pick(&[1_000_000usize, 4, 16, 300]) };
            let cache = cfg.below(3);
            let c = DawgConfig {
                use_rank_select: cfg.below(2) == 0,
                enable_cache: cache != 0,
                cache_config: if cache == 2 { FsaCacheConfig { max_states: *cfg.pick(&[2usize, 3, 8]), ..if cfg.below(2) == 0 { FsaCacheConfig::memory_efficient() } else { FsaCacheConfig::small() } } } else { FsaCacheConfig::default() },
                max_states,
                compressed_storage: !dense,
            };
            cx.ev(format!("config: NestedTrieDawg::with_config(max_states={} dense={} cache={} cache_max_states={} rank_select={})", max_states, dense, c.enable_cache, c.cache_config.max_states, c.use_rank_select));
            plain(Box::new(Dawg(NestedTrieDawg::with_config(c).expect("NestedTrieDawg::with_config"))))
        }
        SimpleDawg => plain(Box::new(SDawg(zipora::fsa::SimpleDawg::new()))),
        ParallelSequential => {
            let rt = tokio::runtime::Builder::new_current_thread().build().expect("runtime");
            let how = if ext { cfg.below(4) } else { 0 };
            match how {
                0 => plain(Box::new(Par { rt, t: ParallelLoudsTrie::new() })),
                3 => {
                    // built by ParallelTrieBuilder in chunks of 1-3 keys (partial tries on the blocking
                    // pool, awaited one after the other, then merged)
                    let chunk = 1 + cfg.below(3) as usize;
                    let mut members: Vec<Vec<u8>> = vec![];
                    for k in init {
                        if !members.contains(k) {
                            members.push(k.clone());
                        }
                    }
                    cx.ev(format!("ParallelTrieBuilder::new().chunk_size({}).build_louds_trie({})", chunk, show_set(init)));
                    match rt.block_on(zipora::concurrency::parallel_trie::ParallelTrieBuilder::new().chunk_size(chunk).build_louds_trie(init.to_vec())) {
                        Ok(t) => Some(Built { t: Box::new(Par { rt, t }), preloaded: members }),
                        Err(e) => {
                            cx.ev(format!("  -> refused: {}", e));
                            None
                        }
                    }
                }
                1 => plain(Box::new(Par { rt, t: Default::default() })),
                _ => {
                    // from_trie: a Patricia ZiporaTrie (what ParallelLoudsTrie::new() uses) that already has a history
                    let mut z: ZiporaTrie = if cfg.below(2) == 0 { ZiporaTrie::new() } else { ZiporaTrie::with_config(ZiporaTrieConfig::cache_optimized()) };
                    let mut members: Vec<Vec<u8>> = vec![];
                    for k in init {
                        if z.insert(k).is_ok() && !members.contains(k) {
                            members.push(k.clone());
                        }
                    }
                    let mut gone: Option<Vec<u8>> = None;
                    if !members.is_empty() && cfg.below(2) == 1 {
                        let k = members.remove(cfg.below(members.len() as u64) as usize);
                        let _ = z.remove(&k);
                        gone = Some(k);
                    }
                    cx.ev(format!("ParallelLoudsTrie::from_trie(ZiporaTrie with insert {} remove {})", show_set(init), gone.as_deref().map(show).unwrap_or_else(|| "-".into())));
                    Some(Built { t: Box::new(Par { rt, t: ParallelLoudsTrie::from_trie(z) }), preloaded: members })
                }
            }
        }
    }
}

// ---------------------------------------------------------------------------------------
// model + oracle

#[derive(Clone)]
struct Model {
    set: BTreeSet<Vec<u8>>,
    /// keys that were members at some time and are not now
    removed: BTreeSet<Vec<u8>>,
    /// the last mutation was a re-insert of a key that was already a member
    last_was_reinsert: bool,
    /// the automaton view (accepts / longest_prefix / the transition-walking `lookup`) is not observed
    noauto: bool,
}

impl Model {
    fn longest_prefix(&self, q: &[u8]) -> Option<usize> {
        (0..=q.len()).rev().find(|&n| self.set.contains(&q[..n]))
    }
    fn members(&self) -> String {
        show_set(&self.set.iter().cloned().collect::<Vec<_>>())
    }
}

/// One observation compared with the model.  Returns false after recording a violation.
enum Obs<'a> {
    Contains(&'a [u8]),
    Len,
    Keys,
    Prefix(&'a [u8]),
    Accepts(&'a [u8]),
    Longest(&'a [u8]),
}

/// How an observation is made and reported.
#[derive(Clone, Copy)]
struct How<'a> {
    /// do not write an event line for a matching observation (sweeps, audits)
    quiet: bool,
    /// which public spelling of the observation (0 = the primary one)
    spelling: u64,
    /// appended to the detail text: what happened just before ("after shrink_to_fit", "snapshot", ...)
    ctx: &'a str,
    /// appended to the violation site: the extended operation this check follows directly ("" = none), so that
    /// a finding about that operation is a different (class, site) from one about plain insert / remove
    sfx: &'static str,
}
const LOUD: How<'static> = How { quiet: false, spelling: 0, ctx: "", sfx: "" };
const QUIET: How<'static> = How { quiet: true, spelling: 0, ctx: "", sfx: "" };

fn observe(t: &dyn Target, m: &Model, o: Obs, cx: &mut Run, how: How) -> bool {
    let ty = t.ty();
    let quiet = how.quiet;
    let ctx = if how.ctx.is_empty() { String::new() } else { format!(" [{}]", how.ctx) };
    let sfx = how.sfx;
    match o {
        Obs::Contains(k) => {
            let alt = if how.spelling == 0 { None } else { t.contains_alt(k, how.spelling) };
            let (name, got) = match alt {
                Some((n, _)) if n == "lookup" && m.noauto => ("contains", t.contains(k)),
                Some(x) => x,
                None => ("contains", t.contains(k)),
            };
            let want = m.set.contains(k);
            if !quiet {
                cx.ev(format!("{}({}) -> {}", name, show(k), got));
            }
            if got != want {
                let class = if want {
                    "missing_key"
                } else if m.removed.contains(k) {
                    "removed_key_present"
                } else {
                    "phantom_key"
                };
                cx.violate(class, &format!("{}.{}{}", ty, name, sfx), format!("{}({}) = {} but the key {} (members: {}){}", name, show(k), got, if want { "was inserted and not removed" } else if m.removed.contains(k) { "was removed" } else { "was never inserted" }, m.members(), ctx));
                return false;
            }
        }
        Obs::Len => {
            let alt = if how.spelling == 0 { None } else { t.len_alt(how.spelling) };
            let (name, view) = alt.unwrap_or_else(|| ("len", LenView::N(t.len())));
            let (ok, shown) = match view {
                LenView::N(n) => (n == m.set.len(), n.to_string()),
                LenView::Empty(b) => (b == m.set.is_empty(), b.to_string()),
            };
            if !quiet {
                cx.ev(format!("{}() -> {}", name, shown));
            }
            if !ok {
                let class = if m.last_was_reinsert { "reinsert_changed_len" } else { "len_mismatch" };
                cx.violate(class, &format!("{}.{}{}", ty, name, sfx), format!("{}() = {} but {} keys are inserted and not removed: {}{}", name, shown, m.set.len(), m.members(), ctx));
                return false;
            }
        }
        Obs::Keys | Obs::Prefix(_) => {
            let (got, want, what, site): (Vec<Vec<u8>>, Vec<Vec<u8>>, String, String) = match o {
                Obs::Keys => {
                    let alt = if how.spelling == 0 { None } else { t.keys_alt(how.spelling) };
                    match alt.or_else(|| t.keys().map(|g| ("keys", g))) {
                        Some((n, g)) => (g, m.set.iter().cloned().collect(), format!("{}()", n), format!("{}.{}{}", ty, n, sfx)),
                        None => return true,
                    }
                }
                Obs::Prefix(p) => {
                    let alt = if how.spelling == 0 { None } else { t.prefix_alt(p, how.spelling) };
                    match alt.or_else(|| t.keys_with_prefix(p).map(|g| ("keys_with_prefix", g))) {
                        Some((n, g)) => (g, m.set.iter().filter(|k| k.starts_with(p)).cloned().collect(), format!("{}({})", n, show(p)), format!("{}.{}{}", ty, n, sfx)),
                        None => return true,
                    }
                }
                _ => unreachable!(),
            };
            // compared as a set: order and multiplicity are not promised
            let gs: BTreeSet<Vec<u8>> = got.iter().cloned().collect();
            if gs.len() != got.len() {
                cx.probe("enumeration_had_duplicates");
            }
            let ws: BTreeSet<Vec<u8>> = want.iter().cloned().collect();
            if !quiet {
                cx.ev(format!("{} -> {}", what, show_set(&gs.iter().cloned().collect::<Vec<_>>())));
            }
            let missing: Vec<Vec<u8>> = ws.difference(&gs).cloned().collect();
            let extra: Vec<Vec<u8>> = gs.difference(&ws).cloned().collect();
            if !missing.is_empty() || !extra.is_empty() {
                let class = if !missing.is_empty() {
                    "enumeration_misses_member"
                } else if extra.iter().all(|k| m.set.contains(k)) {
                    // only possible for keys_with_prefix: a member that does not start with p
                    "enumeration_lists_member_without_prefix"
                } else if extra.iter().all(|k| m.removed.contains(k) || m.set.contains(k)) {
                    "enumeration_lists_removed_key"
                } else {
                    "enumeration_lists_phantom_key"
                };
                cx.violate(class, &site, format!("{} returned {} ; expected {} ; missing {} ; unexpected {}{}", what, show_set(&gs.iter().cloned().collect::<Vec<_>>()), show_set(&want), show_set(&missing), show_set(&extra), ctx));
                return false;
            }
        }
        Obs::Accepts(k) => {
            if m.noauto {
                return true;
            }
            let Some(got) = t.accepts(k) else { return true };
            let want = m.set.contains(k);
            if !quiet {
                cx.ev(format!("accepts({}) -> {}", show(k), got));
            }
            if got != want {
                let class = if want {
                    "accepts_rejects_member"
                } else if m.removed.contains(k) {
                    "accepts_removed_key"
                } else {
                    "accepts_phantom_key"
                };
                cx.violate(class, &format!("{}.accepts{}", ty, sfx), format!("accepts({}) = {} but contains must be {} (contains() says {}){}", show(k), got, want, t.contains(k), ctx));
                return false;
            }
        }
        Obs::Longest(q) => {
            if m.noauto {
                return true;
            }
            let Some(got) = t.longest_prefix(q) else { return true };
            let want = m.longest_prefix(q);
            if !quiet {
                cx.ev(format!("longest_prefix({}) -> {:?}", show(q), got));
            }
            if got != want {
                let class = match (got, want) {
                    (Some(g), _) if g > q.len() => "longest_prefix_out_of_range",
                    (Some(g), _) if !m.set.contains(&q[..g]) => {
                        if m.removed.contains(&q[..g]) {
                            "longest_prefix_is_removed_key"
                        } else {
                            "longest_prefix_not_a_member"
                        }
                    }
                    _ => "longest_prefix_too_short",
                };
                cx.violate(class, &format!("{}.longest_prefix{}", ty, sfx), format!("longest_prefix({}) = {:?} but the longest member that is a prefix has length {:?} (members: {}){}", show(q), got, want, m.members(), ctx));
                return false;
            }
        }
    }
    true
}

/// After a mutation: the key itself and len (with event lines), then every key touched so far, quietly.
fn check_after(t: &dyn Target, m: &Model, k: Option<&[u8]>, touched: &[Vec<u8>], cx: &mut Run, ctx: &str, sfx: &'static str) -> bool {
    let loud = How { quiet: false, spelling: 0, ctx, sfx };
    if let Some(k) = k {
        if !observe(t, m, Obs::Contains(k), cx, loud) {
            return false;
        }
    }
    if !observe(t, m, Obs::Len, cx, loud) {
        return false;
    }
    let quiet = How { quiet: true, spelling: 0, ctx, sfx };
    for x in touched {
        if !observe(t, m, Obs::Contains(x), cx, quiet) {
            return false;
        }
    }
    true
}

/// The full audit: every observable over the touched keys and their near misses, fixed order.
fn audit(t: &dyn Target, m: &Model, touched: &[Vec<u8>], cx: &mut Run, tag: &str) -> bool {
    let sfx = if tag.is_empty() { "" } else { "/set_aside_copy" };
    let mut universe: BTreeSet<Vec<u8>> = BTreeSet::new();
    for k in touched {
        universe.insert(k.clone());
        universe.insert(k[..k.len().saturating_sub(1)].to_vec());
        universe.insert(k[..k.len() / 2].to_vec());
        for b in [0x00u8, 0xFF] {
            let mut v = k.clone();
            v.push(b);
            universe.insert(v);
        }
        if let Some(&last) = k.last() {
            // the two siblings next to the last byte
            for b in [last.wrapping_add(1), last.wrapping_sub(1)] {
                let mut v = k.clone();
                *v.last_mut().unwrap() = b;
                universe.insert(v);
            }
        }
    }
    // concatenations of two members: what longest_prefix is for
    let members: Vec<Vec<u8>> = m.set.iter().take(4).cloned().collect();
    for a in &members {
        for b in touched.iter().take(12) {
            if a.len() + b.len() <= 300 {
                let mut v = a.clone();
                v.extend_from_slice(b);
                universe.insert(v);
            }
        }
    }
    let q = How { quiet: true, spelling: 0, ctx: tag, sfx };
    let mut n_checks = 0u64;
    if !observe(t, m, Obs::Len, cx, q) {
        return false;
    }
    for k in &universe {
        n_checks += 1;
        if !observe(t, m, Obs::Contains(k), cx, q) {
            return false;
        }
    }
    if !observe(t, m, Obs::Keys, cx, q) {
        return false;
    }
    for k in &universe {
        if k.len() <= 70 {
            n_checks += 1;
            if !observe(t, m, Obs::Prefix(k), cx, q) {
                return false;
            }
        }
    }
    for k in &universe {
        n_checks += 2;
        if !observe(t, m, Obs::Accepts(k), cx, q) || !observe(t, m, Obs::Longest(k), cx, q) {
            return false;
        }
    }
    // the other public spellings, over the touched keys
    for s in 1..=7u64 {
        if !observe(t, m, Obs::Len, cx, How { spelling: s, ..q }) {
            return false;
        }
    }
    for s in 1..=2u64 {
        if !observe(t, m, Obs::Keys, cx, How { spelling: s, ..q }) {
            return false;
        }
    }
    for (i, k) in touched.iter().enumerate() {
        for s in 1..=3u64 {
            n_checks += 1;
            if !observe(t, m, Obs::Contains(k), cx, How { spelling: s, ..q }) {
                return false;
            }
        }
        if k.len() <= 70 {
            n_checks += 1;
            if !observe(t, m, Obs::Prefix(k), cx, How { spelling: 1 + (i as u64 % 2), ..q }) {
                return false;
            }
        }
    }
    cx.ev(format!("audit{}: len, keys and {} lookups agree with the model ({} members)", if tag.is_empty() { String::new() } else { format!(" ({})", tag) }, n_checks, m.set.len()));
    true
}

// ---------------------------------------------------------------------------------------
// the scenario

struct Sc {
    kind: Kind,
    fam: Fam,
}

impl Sc {
    /// Quick-tier budget.  Sized from measured CPU cost per run (Patricia 0.55 ms: 2 KiB nodes; double
    /// array 1.0-1.3 ms: its debug eprintln!s are compiled in under debug-assertions; ParallelLoudsTrie
    /// 2.1 ms: every insert clones the trie once per CPU) so that the whole check needs about
    /// 100 CPU-seconds.  Scenarios whose every run ends at the first lookup (stub strategies) are cheap.
    fn quick_budget(&self) -> u64 {
        use Kind::*;
        if self.fam == Fam::Ext {
            return match self.kind {
                ParallelSequential => 1_000,
                DoubleArrayConcurrentPreset | DoubleArrayCap256 | WrapDoubleArrayTrie => 2_500,
                MixedConfig => 5_000,
                _ => 3_000,
            };
        }
        let full = self.fam == Fam::Full;
        match self.kind {
            PatriciaDefault | PatriciaCacheOptimized | PatriciaShortPaths => 10_000,
            // the aliases are the very same type and constructor as patricia_default
            AliasPatriciaTrie | AliasCritBitTrie => 2_000,
            LoudsSpaceOptimized | CritBitStringSpecialized => 5_000,
            SparseOptimized => 10_000,
            DoubleArrayConcurrentPreset | DoubleArrayCap256 => {
                if full {
                    4_000
                } else {
                    10_000
                }
            }
            MixedConfig => 0,
            WrapDoubleArrayTrie => 10_000,
            WrapNestedLoudsTrie => 5_000,
            WrapCompressedSparseTrie => 10_000,
            DawgInsert | DawgBuildThenInsert => 8_000,
            DawgRebuild => 5_000,
            SimpleDawg => 10_000,
            ParallelSequential => 2_000,
        }
    }
}

/// Per-run palette of keys.  Families: 0 = anything from the table, 1 = the "a.." chain, 2 = 0x00/0xFF keys,
/// 3 = synthesised 1-4 bytes over a small alphabet, 4 = wide (many children of one parent, any byte value),
/// 5 = derived (every key is a small edit of an earlier one: one byte longer / shorter / changed, or doubled).
fn make_palette(cfg: &zsim_core::Chan, table: &[Vec<u8>], maxlen: usize) -> (Vec<Vec<u8>>, u64) {
    let family = cfg.below(6);
    let npal = if family == 4 { 6 + cfg.below(15) as usize } else { 3 + cfg.below(6) as usize };
    let mut palette: Vec<Vec<u8>> = vec![];
    let parent: Vec<u8> = if family == 4 { cfg.pick(&[vec![], b"a".to_vec(), vec![0xFF], b"ab".to_vec(), vec![0x00]]).clone() } else { vec![] };
    for _ in 0..npal {
        let k: Vec<u8> = if cfg.chance(1, if family == 4 { 10 } else { 5 }) {
            table[LONG_FROM + cfg.below((table.len() - LONG_FROM) as u64) as usize].clone()
        } else {
            match family {
                3 => {
                    // many different states want the same slot (double array) / split the same node (everything else)
                    let n = 1 + cfg.small(4) as usize;
                    (0..n).map(|_| AB[cfg.below(8) as usize]).collect()
                }
                4 => {
                    let mut v = parent.clone();
                    match cfg.below(8) {
                        0 => {}
                        1 => {
                            v.push(cfg.below(256) as u8);
                            v.push(cfg.below(256) as u8);
                        }
                        _ => v.push(cfg.below(256) as u8),
                    }
                    v
                }
                5 if !palette.is_empty() => {
                    let mut v = palette[cfg.below(palette.len() as u64) as usize].clone();
                    let byte = if cfg.below(2) == 0 { AB[cfg.below(8) as usize] } else { cfg.below(256) as u8 };
                    match cfg.below(5) {
                        0 => v.push(byte),
                        1 => {
                            v.pop();
                        }
                        2 => {
                            if let Some(l) = v.last_mut() {
                                *l = byte;
                            } else {
                                v.push(byte);
                            }
                        }
                        3 => {
                            if v.is_empty() {
                                v.push(byte);
                            } else {
                                let i = cfg.below(v.len() as u64) as usize;
                                v[i] = byte;
                            }
                        }
                        _ => {
                            // doubling: lengths 2, 4, 8, 16, 32, 64 come up
                            let w = v.clone();
                            v.extend_from_slice(&w);
                            if v.is_empty() {
                                v.push(byte);
                            }
                        }
                    }
                    v
                }
                _ => {
                    let pool: &[usize] = match family {
                        1 => &[0, 1, 2, 3, 4, 16, 5, 6, 7],
                        2 => &[8, 9, 10, 11, 12, 13, 14, 15, 17, 7],
                        _ => &[0, 1, 2, 3, 4, 5, 6, 7, 8, 9, 10, 11, 12, 13, 14, 15, 16, 17],
                    };
                    table[pool[cfg.below(pool.len() as u64) as usize]].clone()
                }
            }
        };
        if k.len() <= maxlen && !palette.contains(&k) {
            palette.push(k);
        }
    }
    if palette.is_empty() {
        palette.push(b"a".to_vec());
    }
    (palette, family)
}

impl Scenario for Sc {
    fn name(&self) -> String {
        let zt = self.kind.is_zipora_trie() || matches!(self.kind, Kind::AliasPatriciaTrie | Kind::AliasCritBitTrie);
        match (zt, self.fam) {
            (true, Fam::Grow) => format!("{}.grow", self.kind.label()),
            (true, Fam::Full) => format!("{}.full", self.kind.label()),
            (true, Fam::Ext) => format!("{}.ext", self.kind.label()),
            (false, Fam::Ext) => self.kind.ext_label().to_string(),
            (false, _) => self.kind.label().to_string(),
        }
    }
    fn budget(&self, tier: Tier) -> u64 {
        match tier {
            Tier::Quick => self.quick_budget(),
            Tier::Thorough => self.quick_budget() * 50,
        }
    }
    fn run(&self, cx: &mut Run) {
        let cfg = cx.src.chan("cfg");
        let table = key_table();
        let ext = self.fam == Fam::Ext;
        let noauto = ext && self.kind.is_louds();
        let with_remove = self.fam == Fam::Full || (ext && !self.kind.is_louds());
        let maxlen = self.kind.max_key_len();
        let (palette, family) = make_palette(&cfg, &table, maxlen);
        let np = palette.len() as u64;
        // ---- swarm weights: [insert, remove, contains, len, keys, prefix, accepts, longest,
        //                      clone, shrink_to_fit, clear, rebuild, bulk_insert, refresh_replicas]
        let base: [u32; 8] = match cfg.below(3) {
            0 => [6, 3, 3, 1, 1, 1, 1, 1],
            1 => [4, 4, 1, 1, 2, 2, 2, 2],
            _ => [8, 1, 1, 0, 1, 1, 1, 1],
        };
        let mut w = [0u32; 14];
        w[..8].copy_from_slice(&base);
        if !with_remove {
            w[1] = 0;
        }
        if noauto {
            w[6] = 0;
            w[7] = 0;
        }
        // per-run switches of the extended surface (each on in half of the runs)
        let mut x_nodeid = false;
        if ext {
            x_nodeid = cfg.below(2) == 1;
            // [clone, shrink_to_fit, clear, -, bulk_insert, refresh_replicas]: only what the target type has
            let zt = self.kind.is_zipora_trie();
            let has = [zt, zt || self.kind == Kind::WrapDoubleArrayTrie, self.kind == Kind::DawgInsert, false, self.kind == Kind::ParallelSequential, self.kind == Kind::ParallelSequential];
            for (i, &h) in has.iter().enumerate() {
                if h && cfg.below(2) == 1 {
                    w[8 + i] = 1;
                }
            }
        }
        if self.kind == Kind::DawgBuildThenInsert {
            // this scenario already starts from build_from_keys: it also clears in mid-history (and goes on as a plain trie)
            if cfg.below(2) == 1 {
                w[10] = 1;
            }
        }
        if self.kind == Kind::DawgRebuild {
            w[10] = 1 + cfg.below(2) as u32;
            w[11] = 2 + cfg.below(3) as u32;
        }
        // NestedTrieDawg/rebuild: the structure is a built (suffix-merged) DAWG; inserts wait until it is cleared
        let mut built = false;
        // what a builder / from_trie start is given: 0-4 palette keys, duplicates allowed
        let mut init: Vec<Vec<u8>> = vec![];
        if ext {
            for _ in 0..cfg.below(if self.kind == Kind::ParallelSequential { 8 } else { 5 }) {
                init.push(palette[cfg.below(np) as usize].clone());
            }
        }
        let Some(Built { mut t, preloaded }) = build(self.kind, self.fam, &cfg, cx, &init) else { return };
        let ty = t.ty();
        let mut m = Model { set: BTreeSet::new(), removed: BTreeSet::new(), last_was_reinsert: false, noauto };
        let mut ever: BTreeSet<Vec<u8>> = BTreeSet::new();
        let mut mutations = 0u64;
        // every key a mutation was applied to, palette first (the sweep after each mutation and the audits go over these)
        let mut touched: Vec<Vec<u8>> = palette.clone();
        if ext {
            for k in &preloaded {
                m.set.insert(k.clone());
                ever.insert(k.clone());
            }
            if !check_after(t.as_ref(), &m, None, &touched, cx, "a fresh structure", "/fresh") {
                return;
            }
        }

        // NestedTrieDawg: optionally start from build_from_keys (its documented construction path)
        if self.kind == Kind::DawgBuildThenInsert {
            let n0 = 1 + cfg.below(3) as usize;
            let dups = cfg.chance(1, 3);
            let mut init: Vec<Vec<u8>> = vec![];
            for _ in 0..n0 {
                let k = palette[cfg.below(np) as usize].clone();
                if dups || !init.contains(&k) {
                    init.push(k);
                }
            }
            cx.ev(format!("build_from_keys({})", show_set(&init)));
            // reach the concrete type again: rebuild the box around a built DAWG
            let mut d = NestedTrieDawg::new().expect("NestedTrieDawg::new");
            if let Err(e) = d.build_from_keys(init.iter()) {
                cx.ev(format!("build_from_keys -> Err({})", e));
                return;
            }
            for k in &init {
                m.set.insert(k.clone());
                ever.insert(k.clone());
            }
            t = Box::new(Dawg(d));
            if !observe(t.as_ref(), &m, Obs::Len, cx, LOUD) {
                return;
            }
            for k in &init {
                if !observe(t.as_ref(), &m, Obs::Contains(k), cx, LOUD) {
                    return;
                }
            }
        }

        let planned = if family == 4 { 8 + cfg.small(60) } else { 3 + cfg.small(38) };
        let mut ops = cx.src.ops("ops", planned);
        let wsum: u64 = w.iter().map(|&x| x as u64).sum();
        let mut prev_mut = "start";
        // clones kept aside with the model of the moment they were taken (at most two)
        let mut snaps: Vec<(Box<dyn Target>, Model, String)> = vec![];
        while let Some(o) = ops.next() {
            cx.steps += 1;
            // op kind by weight (a pure function of o[0], so that deleting an op shifts nothing)
            let mut x = o[0] % wsum;
            let mut kind = 0usize;
            for (i, &wi) in w.iter().enumerate() {
                if x < wi as u64 {
                    kind = i;
                    break;
                }
                x -= wi as u64;
            }
            let pk = &palette[(o[1] % np) as usize];
            // query keys: a palette key, or a near miss of one
            let q: Vec<u8> = match o[2] % 9 {
                0 | 1 | 2 => pk.clone(),
                3 => pk[..pk.len().saturating_sub(1)].to_vec(),
                4 => {
                    let mut v = pk.clone();
                    v.push(if o[3] % 2 == 0 { 0x00 } else { 0xFF });
                    v
                }
                5 => {
                    let mut v = pk.clone();
                    v.extend_from_slice(&palette[(o[3] % np) as usize]);
                    v
                }
                6 => pk[..pk.len() / 2].to_vec(),
                7 => {
                    // a sibling: same length, last byte off by one bit
                    let mut v = pk.clone();
                    match v.last_mut() {
                        Some(l) => *l ^= 1u8 << (o[3] % 8),
                        None => v.push(o[3] as u8),
                    }
                    v
                }
                _ => {
                    // same length, one byte somewhere off by one bit
                    let mut v = pk.clone();
                    if v.is_empty() {
                        v.push(o[3] as u8);
                    } else {
                        let i = ((o[3] / 8) % v.len() as u64) as usize;
                        v[i] ^= 1u8 << (o[3] % 8);
                    }
                    v
                }
            };
            // the key a mutation goes to: a palette key, one time in eight a near miss of one
            let mk: Vec<u8> = if o[3] % 8 == 7 && q.len() <= maxlen { q.clone() } else { pk.clone() };
            // which public spelling an observation uses (0 = the primary one, a third of the time)
            let spelling = o[3] / 8;
            match kind {
                0 => {
                    if built && self.kind == Kind::DawgRebuild {
                        continue;
                    }
                    let was = m.set.contains(&mk);
                    let mut name = "insert";
                    let r = match if x_nodeid && o[2] % 4 == 1 { t.insert_node_id(&mk) } else { None } {
                        Some(r) => {
                            name = "insert_and_get_node_id";
                            r
                        }
                        None => t.insert(&mk, o[2]),
                    };
                    mutations += 1;
                    if !touched.contains(&mk) && touched.len() < 40 {
                        touched.push(mk.clone());
                        cx.probe("mutated_a_near_miss_key");
                    }
                    match r {
                        Ok(()) => {
                            cx.ev(format!("{}({}) -> Ok{}", name, show(&mk), if was { " (already a member)" } else { "" }));
                            if was {
                                cx.probe("reinsert_existing");
                            } else if m.removed.contains(&mk) {
                                cx.probe("insert_after_remove");
                            }
                            m.removed.remove(&mk);
                            m.set.insert(mk.clone());
                            ever.insert(mk.clone());
                            m.last_was_reinsert = was;
                            if mk.is_empty() {
                                cx.probe("empty_key_inserted");
                            }
                            if mk.len() > 64 {
                                cx.probe("key_longer_than_64_inserted");
                            }
                            if matches!(mk.len(), 16 | 32 | 64) {
                                cx.probe("key_of_length_16_32_64_inserted");
                            }
                            if m.set.iter().any(|k| k != &mk && (k.starts_with(&mk) || mk.starts_with(k))) {
                                cx.probe("member_is_prefix_of_member");
                            }
                            if m.set.len() > 8 {
                                cx.probe("more_than_8_members");
                            }
                        }
                        Err(e) => {
                            // refusal: the model does not change, and the trie must not either
                            cx.ev(format!("{}({}) -> Err({})", name, show(&mk), e));
                            cx.probe("insert_refused");
                            m.last_was_reinsert = false;
                        }
                    }
                    cx.cell(format!("{}/insert/{}>{}", ty, prev_mut, if was { "re" } else { "new" }));
                    prev_mut = if was { "reinsert" } else { "insert" };
                    if !check_after(t.as_ref(), &m, Some(&mk), &touched, cx, if name == "insert" { "" } else { "after insert_and_get_node_id" }, if name == "insert" { "" } else { "/after_insert_and_get_node_id" }) {
                        return;
                    }
                }
                1 => {
                    let was = m.set.contains(&mk);
                    let Some(r) = t.remove(&mk) else { continue };
                    mutations += 1;
                    if !touched.contains(&mk) && touched.len() < 40 {
                        touched.push(mk.clone());
                        cx.probe("mutated_a_near_miss_key");
                    }
                    // the return value of remove is not part of the statement: recorded, not checked
                    match r {
                        Ok(b) => cx.ev(format!("remove({}) -> Ok({}){}", show(&mk), b, if was { "" } else { " (not a member)" })),
                        Err(e) => {
                            cx.ev(format!("remove({}) -> Err({})", show(&mk), e));
                            cx.probe("remove_err");
                        }
                    }
                    if was {
                        cx.probe("remove_present");
                        m.set.remove(&mk);
                        m.removed.insert(mk.clone());
                        if m.set.iter().any(|k| k.starts_with(&mk)) {
                            cx.probe("removed_key_is_prefix_of_member");
                        }
                        if m.set.iter().any(|k| mk.starts_with(k)) {
                            cx.probe("removed_key_extends_member");
                        }
                        if m.set.is_empty() {
                            cx.probe("became_empty_again");
                        }
                    } else {
                        cx.probe("remove_absent");
                    }
                    m.last_was_reinsert = false;
                    cx.cell(format!("{}/remove/{}>{}", ty, prev_mut, if was { "present" } else { "absent" }));
                    prev_mut = "remove";
                    if !check_after(t.as_ref(), &m, Some(&mk), &touched, cx, "", "") {
                        return;
                    }
                }
                2 => {
                    if !observe(t.as_ref(), &m, Obs::Contains(&q), cx, How { spelling, ..LOUD }) {
                        return;
                    }
                }
                3 => {
                    if !observe(t.as_ref(), &m, Obs::Len, cx, How { spelling, ..LOUD }) {
                        return;
                    }
                }
                4 => {
                    if !observe(t.as_ref(), &m, Obs::Keys, cx, How { spelling, ..LOUD }) {
                        return;
                    }
                }
                5 => {
                    if !observe(t.as_ref(), &m, Obs::Prefix(&q), cx, How { spelling, ..LOUD }) {
                        return;
                    }
                }
                6 => {
                    if !observe(t.as_ref(), &m, Obs::Accepts(&q), cx, LOUD) {
                        return;
                    }
                }
                7 => {
                    if !observe(t.as_ref(), &m, Obs::Longest(&q), cx, LOUD) {
                        return;
                    }
                }
                8 => {
                    // clone: both copies hold the set of this moment and are independent from now on
                    let Some(mut c) = t.fork() else { continue };
                    cx.probe("cloned");
                    let keep_original = o[3] % 2 == 1;
                    cx.ev(format!("clone() ; the history goes on with the {}", if keep_original { "original" } else { "clone" }));
                    if !check_after(c.as_ref(), &m, None, &touched, cx, "a fresh clone", "/fresh_clone") || !observe(c.as_ref(), &m, Obs::Keys, cx, How { ctx: "a fresh clone", sfx: "/fresh_clone", ..QUIET }) {
                        return;
                    }
                    if !keep_original {
                        std::mem::swap(&mut t, &mut c);
                    }
                    let tag = format!("{} set aside at step {}", if keep_original { "clone" } else { "original" }, cx.steps);
                    if snaps.len() == 2 {
                        // make room: audit the oldest now
                        let (st, sm, stag) = snaps.remove(0);
                        if !audit(st.as_ref(), &sm, &touched, cx, &stag) {
                            return;
                        }
                    }
                    snaps.push((c, m.clone(), tag));
                }
                9 => {
                    if !t.shrink() {
                        continue;
                    }
                    cx.probe("shrunk");
                    cx.ev("shrink_to_fit()");
                    if !check_after(t.as_ref(), &m, None, &touched, cx, "after shrink_to_fit", "/after_shrink_to_fit") {
                        return;
                    }
                }
                10 => {
                    if !t.clear() {
                        continue;
                    }
                    cx.probe("cleared");
                    built = false;
                    cx.ev("clear()");
                    mutations += 1;
                    let old: Vec<Vec<u8>> = m.set.iter().cloned().collect();
                    for k in old {
                        m.removed.insert(k);
                    }
                    m.set.clear();
                    m.last_was_reinsert = false;
                    prev_mut = "clear";
                    if !check_after(t.as_ref(), &m, None, &touched, cx, "after clear", "/after_clear") {
                        return;
                    }
                }
                11 | 12 => {
                    // a batch of 1-4 palette keys, duplicates allowed (o[3] % np == 0 gives one key n times)
                    let n = 1 + (o[0] / wsum) % 4;
                    let mut batch: Vec<Vec<u8>> = (0..n).map(|i| palette[((o[1] + i * (o[3] % np)) % np) as usize].clone()).collect();
                    if kind == 11 && o[2] % 2 == 1 {
                        // rebuild from the present members plus the batch
                        batch.extend(m.set.iter().cloned());
                    }
                    let r = if kind == 11 { t.rebuild(&batch) } else { t.bulk_insert(&batch) };
                    let Some(r) = r else { continue };
                    let name = if kind == 11 { "build_from_keys" } else { "bulk_insert" };
                    mutations += 1;
                    match r {
                        Ok(()) => {
                            cx.ev(format!("{}({}) -> Ok", name, show_set(&batch)));
                            cx.probe(if kind == 11 { "rebuilt" } else { "bulk_inserted" });
                            if kind == 11 {
                                built = true;
                                let old: Vec<Vec<u8>> = m.set.iter().cloned().collect();
                                for k in old {
                                    m.removed.insert(k);
                                }
                                m.set.clear();
                            }
                            for k in &batch {
                                m.removed.remove(k);
                                m.set.insert(k.clone());
                                ever.insert(k.clone());
                            }
                        }
                        Err(e) => {
                            // a batch that fails half way leaves a state the statement says nothing about: stop here
                            cx.ev(format!("{}({}) -> Err({})", name, show_set(&batch), e));
                            cx.probe("batch_refused");
                            return;
                        }
                    }
                    m.last_was_reinsert = false;
                    prev_mut = name;
                    if !check_after(t.as_ref(), &m, None, &touched, cx, if kind == 11 { "after build_from_keys on a used structure" } else { "after bulk_insert" }, if kind == 11 { "/after_build_from_keys" } else { "/after_bulk_insert" }) {
                        return;
                    }
                }
                _ => {
                    if !t.refresh() {
                        continue;
                    }
                    cx.ev("refresh_replicas()");
                    if !check_after(t.as_ref(), &m, None, &touched, cx, "after refresh_replicas", "/after_refresh_replicas") {
                        return;
                    }
                }
            }
        }

        // ---- end audit: every observable over the touched keys and their near misses, fixed order
        if !audit(t.as_ref(), &m, &touched, cx, "") {
            return;
        }
        for (st, sm, tag) in &snaps {
            if !audit(st.as_ref(), sm, &touched, cx, tag) {
                return;
            }
        }
        for p in t.reached() {
            cx.probe(p);
        }
        cx.nontrivial = mutations >= 3 && ever.len() >= 2;
    }
}

fn main() {
    let mut spec = CheckSpec::new(
        "C05",
        "exploration",
        "seeded histories (E5: one client, no faults) of insert/remove/lookups over a per-run palette of 3-20 byte-string keys, compared step by step and in an end audit with a BTreeSet model; \
         non-trivial = at least 3 mutations and at least 2 distinct keys were members at some time; distinct = distinct hash of the (operation, observed result) trace plus mutation-bigram cells",
    );
    spec.assumptions = vec![
        "single client, no faults, no threads: the property has no schedule, clock or fault dimension".into(),
        "keys() and keys_with_prefix() are compared as sets (order and multiplicity are not promised)".into(),
        "an Err from insert is a refusal: the model is left unchanged and the trie must then not contain the key".into(),
        "the return value of remove() is not checked".into(),
        "ParallelLoudsTrie: only the sequential insert/bulk_insert/contains/len/is_empty/refresh_replicas/from_trie are driven (tokio mutex on a current-thread runtime); its parallel_* queries run on rayon's pool, which no seam reaches".into(),
        "other public spellings of an observation the statement names are held to the same model: Trie::lookup(k).is_some() and the *_with_token spellings as contains, is_empty / stats().num_keys / statistics().num_keys as len, iter_all / iter_prefix as keys / keys_with_prefix".into(),
        ".ext scenarios only: clone() yields a trie holding the same set, independent of the original; shrink_to_fit() and refresh_replicas() leave the set unchanged; clear() empties it; build_from_keys() on a used NestedTrieDawg replaces it; insert_and_get_node_id() and bulk_insert() are insert calls; a builder yields the set of the keys it was given".into(),
    ];
    spec.components = vec![
        ("fsa::ZiporaTrie (all five TrieStrategy storages, six presets + two custom configs + per-run drawn configs)", "real"),
        ("fsa::{DoubleArrayTrie, NestedLoudsTrie, CompressedSparseTrie} wrappers and their builders, PatriciaTrie / CritBitTrie aliases", "real"),
        ("fsa::NestedTrieDawg, fsa::SimpleDawg", "real"),
        ("concurrency::ParallelLoudsTrie (sequential subset)", "real"),
        ("reference model", "BTreeSet<Vec<u8>>"),
    ];
    spec.init = zsim_props::install_hooks;
    // safety nets only (budgets end a run): generous, because the box is shared and a cap that bites drops whole scenarios
    spec.quick_wall_s = 300;
    spec.thorough_wall_s = 3600;
    use Kind::*;
    for kind in [PatriciaDefault, PatriciaCacheOptimized, PatriciaShortPaths, LoudsSpaceOptimized, SparseOptimized, CritBitStringSpecialized, DoubleArrayConcurrentPreset, DoubleArrayCap256, AliasPatriciaTrie, AliasCritBitTrie] {
        spec.scenarios.push(Box::new(Sc { kind, fam: Fam::Grow }));
        spec.scenarios.push(Box::new(Sc { kind, fam: Fam::Full }));
    }
    for kind in [WrapDoubleArrayTrie, WrapNestedLoudsTrie, WrapCompressedSparseTrie, DawgInsert, DawgBuildThenInsert, DawgRebuild, SimpleDawg, ParallelSequential] {
        spec.scenarios.push(Box::new(Sc { kind, fam: Fam::Grow }));
    }
    // the extended public surface
    for kind in [PatriciaDefault, PatriciaCacheOptimized, LoudsSpaceOptimized, SparseOptimized, DoubleArrayConcurrentPreset, DoubleArrayCap256, MixedConfig, WrapDoubleArrayTrie, WrapNestedLoudsTrie, WrapCompressedSparseTrie, DawgInsert, ParallelSequential] {
        spec.scenarios.push(Box::new(Sc { kind, fam: Fam::Ext }));
    }
    zsim_core::driver::main(spec);
}
