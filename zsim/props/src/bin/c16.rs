//! C16 — version tokens: one writer at a time, nothing reclaimed while still visible.
//!
//! Workload A: 2-3 simulated threads against one VersionManager / TokenManager under the
//! E1 scheduler, invariants evaluated at every scheduling point with all threads parked.
//! Workload B: sequential histories over several managers on one (fresh) thread, token
//! cache included, managers dropped in any order.

use std::sync::{Arc, Mutex};
use zipora::fsa::token::TokenManager;
use zipora::fsa::version_sync::{ConcurrencyLevel, LazyFreeItem, LazyFreeList, ReaderToken, VersionManager, WriterToken};
use zsim_core::e1::{self, E1Cfg};
use zsim_core::{CheckSpec, Run, Scenario, Tier, Violation};

enum Tok {
    R(ReaderToken),
    W(WriterToken),
}

impl Tok {
    fn kind(&self) -> usize {
        match self {
            Tok::R(_) => 0,
            Tok::W(_) => 1,
        }
    }
    fn version(&self) -> u64 {
        match self {
            Tok::R(t) => t.version(),
            Tok::W(t) => t.version(),
        }
    }
}

const KIND: [&str; 2] = ["R", "W"];

#[derive(Clone, Debug)]
struct LTok {
    kind: usize,
    version: u64,
    thread: usize,
    cached: bool,
    mgr: usize,
}

#[derive(Default)]
struct Ledger {
    toks: Vec<LTok>,
    /// per thread, per kind: how many tokens of that kind the thread may be acquiring or releasing right now
    inflight: Vec<[u64; 2]>,
    events: Vec<String>,
    pending: Option<Violation>,
    reclaimed: u64,
    refused_writers: u64,
    cache_hits: u64,
    handed_over: u64,
}

impl Ledger {
    fn count(&self, mgr: usize, kind: usize) -> u64 {
        self.toks.iter().filter(|t| t.mgr == mgr && t.kind == kind).count() as u64
    }
    fn inflight(&self, kind: usize) -> u64 {
        self.inflight.iter().map(|a| a[kind]).sum()
    }
    fn remove(&mut self, mgr: usize, kind: usize, version: u64, thread: usize, cached: bool) {
        if let Some(p) = self.toks.iter().position(|t| t.mgr == mgr && t.kind == kind && t.version == version && t.thread == thread && t.cached == cached) {
            self.toks.remove(p);
        }
    }
}

#[derive(Clone, Copy, PartialEq)]
enum Mode {
    /// VersionManager used directly
    Vm,
    /// through TokenManager and its per-thread cache
    Tm,
}

struct Conc {
    mode: Mode,
    level: ConcurrencyLevel,
}

fn level_name(l: ConcurrencyLevel) -> &'static str {
    match l {
        ConcurrencyLevel::NoWriteReadOnly => "NoWriteReadOnly",
        ConcurrencyLevel::SingleThreadStrict => "SingleThreadStrict",
        ConcurrencyLevel::SingleThreadShared => "SingleThreadShared",
        ConcurrencyLevel::OneWriteMultiRead => "OneWriteMultiRead",
        ConcurrencyLevel::MultiWriteMultiRead => "MultiWriteMultiRead",
    }
}

/// Invariants (1), (2), (4) for one manager, evaluated with all threads parked.
fn check_manager(vm: &VersionManager, mgr: usize, l: &Ledger, check_upper: bool) -> Option<Violation> {
    let level = vm.concurrency_level();
    let cw = l.count(mgr, 1);
    let cr = l.count(mgr, 0);
    if level == ConcurrencyLevel::OneWriteMultiRead && cw > 1 {
        let vs: Vec<u64> = l.toks.iter().filter(|t| t.mgr == mgr && t.kind == 1).map(|t| t.version).collect();
        return Some(Violation::new("two_writers_live", "inv.one_writer", format!("writer tokens live at once: versions {:?}", vs)));
    }
    if level.requires_synchronization() {
        let mv = vm.min_version();
        for t in l.toks.iter().filter(|t| t.mgr == mgr) {
            if mv > t.version {
                return Some(Violation::new("min_version_exceeds_live_token", "inv.min_version", format!("min_version()={} but a live {} token has version {}", mv, KIND[t.kind], t.version)));
            }
        }
    }
    let ar = vm.active_readers();
    let aw = vm.active_writers();
    let (ir, iw) = if check_upper { (l.inflight(0), l.inflight(1)) } else { (u64::MAX / 2, u64::MAX / 2) };
    if ar < cr || ar > cr.saturating_add(ir) {
        return Some(Violation::new("counter_mismatch", "inv.active_readers", format!("active_readers()={} live reader tokens={} in-flight={}", ar, cr, ir)));
    }
    if aw < cw || aw > cw.saturating_add(iw) {
        return Some(Violation::new("counter_mismatch", "inv.active_writers", format!("active_writers()={} live writer tokens={} in-flight={}", aw, cw, iw)));
    }
    None
}

impl Scenario for Conc {
    fn name(&self) -> String {
        format!("{}/{}", if self.mode == Mode::Vm { "vm" } else { "tm" }, level_name(self.level))
    }
    fn budget(&self, tier: Tier) -> u64 {
        match tier {
            Tier::Quick => 6000,
            Tier::Thorough => 400_000,
        }
    }
    fn run(&self, cx: &mut Run) {
        let cfg = cx.src.chan("cfg");
        let nthreads = 2 + cfg.biased_zero(2, 1, 3) as usize;
        let e1cfg = e1::draw_cfg(&cfg, 8000);
        let tm = Arc::new(TokenManager::new(self.level));
        let vm: Arc<VersionManager> = tm.version_manager().clone();
        let ledger = Arc::new(Mutex::new(Ledger { inflight: vec![[0, 0]; nthreads], ..Default::default() }));
        let mode = self.mode;
        // one retire list shared by all threads (stamp first, take the list lock later: arrival
        // order need not be age order) or one per thread; the bulk limit is a per-run knob
        let shared_list = cfg.below(2) == 1;
        let bulk = cfg.biased_zero(4, 1, 2) as usize;
        let mk_list = move || if bulk == 0 { LazyFreeList::new() } else { LazyFreeList::with_bulk_threshold(bulk) };
        let shared: Arc<Mutex<LazyFreeList>> = Arc::new(Mutex::new(mk_list()));
        let mailbox: Arc<Mutex<Vec<Tok>>> = Arc::new(Mutex::new(vec![]));
        let mut bodies: Vec<e1::Body> = vec![];
        for t in 0..nthreads {
            let planned = 2 + cfg.below(7);
            let mut ops = cx.src.ops(&format!("ops.t{}", t), planned);
            let mut list: Vec<[u64; 4]> = vec![];
            while let Some(o) = ops.next() {
                list.push(o);
            }
            let end_mode = cfg.below(2);
            let tm = tm.clone();
            let vm = vm.clone();
            let ledger = ledger.clone();
            let shared = shared.clone();
            let mailbox = mailbox.clone();
            bodies.push(Box::new(move |me: usize| {
                let mut held: Vec<Tok> = vec![];
                // (no scheduling point is ever reached while the list lock is held: the list is plain data)
                let own: Arc<Mutex<LazyFreeList>> = if shared_list { shared.clone() } else { Arc::new(Mutex::new(mk_list())) };
                // items stamped with their retire version but not queued yet (queued before the next reclaim)
                let mut deferred: Vec<LazyFreeItem> = vec![];
                let lg = |f: &mut dyn FnMut(&mut Ledger)| {
                    let mut l = ledger.lock().unwrap();
                    f(&mut l);
                };
                for o in &list {
                    const VM_OPS: [u64; 7] = [0, 1, 2, 3, 4, 8, 9];
                    const TM_OPS: [u64; 12] = [0, 1, 2, 3, 4, 5, 6, 7, 8, 9, 10, 11];
                    let k = if mode == Mode::Vm { VM_OPS[(o[0] % 7) as usize] } else { TM_OPS[(o[0] % 12) as usize] };
                    match k {
                        // acquire reader / writer straight from the version manager
                        0 | 1 => {
                            let kind = k as usize;
                            lg(&mut |l| l.inflight[me][kind] = 1);
                            let r = if kind == 0 { vm.acquire_reader_token().map(Tok::R) } else { vm.acquire_writer_token().map(Tok::W) };
                            lg(&mut |l| {
                                l.inflight[me][kind] = 0;
                                match &r {
                                    Ok(t) => {
                                        l.toks.push(LTok { kind, version: t.version(), thread: me, cached: false, mgr: 0 });
                                        l.events.push(format!("t{} acquire_{} -> v{}", me, KIND[kind], t.version()));
                                    }
                                    Err(_) => {
                                        if kind == 1 {
                                            l.refused_writers += 1;
                                        }
                                        l.events.push(format!("t{} acquire_{} -> refused", me, KIND[kind]));
                                    }
                                }
                            });
                            if let Ok(t) = r {
                                held.push(t);
                            }
                        }
                        // drop a held token
                        2 => {
                            if !held.is_empty() {
                                let t = held.remove((o[1] as usize) % held.len());
                                let (kind, v) = (t.kind(), t.version());
                                lg(&mut |l| {
                                    l.remove(0, kind, v, me, false);
                                    l.inflight[me][kind] = 1;
                                    l.events.push(format!("t{} drop_{} v{}", me, KIND[kind], v));
                                });
                                drop(t);
                                lg(&mut |l| l.inflight[me][kind] = 0);
                            }
                        }
                        // retire an item at the current version
                        3 => {
                            let age = vm.current_version();
                            let item = LazyFreeItem::new(age, o[1] as u32, 8);
                            if o[2] % 3 == 0 {
                                deferred.push(item);
                                lg(&mut |l| l.events.push(format!("t{} retire age={} (queued later)", me, age)));
                            } else {
                                own.lock().unwrap().push(item);
                                lg(&mut |l| l.events.push(format!("t{} retire age={}", me, age)));
                            }
                        }
                        // reclaim what the manager says is safe
                        4 => {
                            if !deferred.is_empty() {
                                let mut q = own.lock().unwrap();
                                for item in deferred.drain(..) {
                                    q.push(item);
                                }
                                drop(q);
                                lg(&mut |l| l.events.push(format!("t{} queue deferred items", me)));
                            }
                            let mv = vm.min_version();
                            let ledger2 = ledger.clone();
                            let mut lazy = own.lock().unwrap();
                            lazy.process_safe_items(mv, |item| {
                                let mut l = ledger2.lock().unwrap();
                                l.reclaimed += 1;
                                if let Some(t) = l.toks.iter().find(|t| t.version <= item.age).cloned() {
                                    if l.pending.is_none() {
                                        l.pending = Some(Violation::new(
                                            "reclaimed_while_visible",
                                            "inv.reclaim",
                                            format!("item retired at version {} freed (threshold {}) while a {} token of version {} is live", item.age, mv, KIND[t.kind], t.version),
                                        ));
                                    }
                                }
                                l.events.push(format!("t{} free age={} (threshold {})", me, item.age, mv));
                            });
                        }
                        // TokenManager: acquire through the per-thread cache
                        5 | 6 => {
                            let kind = (k - 5) as usize;
                            lg(&mut |l| l.inflight[me][kind] = 1);
                            let r = if kind == 0 { tm.acquire_reader_token().map(Tok::R) } else { tm.acquire_writer_token().map(Tok::W) };
                            lg(&mut |l| {
                                l.inflight[me][kind] = 0;
                                match &r {
                                    Ok(t) => {
                                        let v = t.version();
                                        if let Some(p) = l.toks.iter().position(|x| x.cached && x.thread == me && x.kind == kind && x.version == v) {
                                            l.toks[p].cached = false;
                                            l.cache_hits += 1;
                                            l.events.push(format!("t{} tm.acquire_{} -> v{} (from cache)", me, KIND[kind], v));
                                        } else {
                                            l.toks.push(LTok { kind, version: v, thread: me, cached: false, mgr: 0 });
                                            l.events.push(format!("t{} tm.acquire_{} -> v{}", me, KIND[kind], v));
                                        }
                                    }
                                    Err(_) => {
                                        if kind == 1 {
                                            l.refused_writers += 1;
                                        }
                                        l.events.push(format!("t{} tm.acquire_{} -> refused", me, KIND[kind]));
                                    }
                                }
                            });
                            if let Ok(t) = r {
                                held.push(t);
                            }
                        }
                        // hand a held token to whichever thread takes it (tokens are Send)
                        8 => {
                            if !held.is_empty() {
                                let t = held.remove((o[1] as usize) % held.len());
                                let (kind, v) = (t.kind(), t.version());
                                lg(&mut |l| {
                                    if let Some(p) = l.toks.iter().position(|x| x.mgr == 0 && x.kind == kind && x.version == v && x.thread == me && !x.cached) {
                                        l.toks[p].thread = usize::MAX;
                                    }
                                    l.events.push(format!("t{} hands over {} v{}", me, KIND[kind], v));
                                });
                                mailbox.lock().unwrap().push(t);
                            }
                        }
                        9 => {
                            let got = mailbox.lock().unwrap().pop();
                            if let Some(t) = got {
                                let (kind, v) = (t.kind(), t.version());
                                lg(&mut |l| {
                                    if let Some(p) = l.toks.iter().position(|x| x.mgr == 0 && x.kind == kind && x.version == v && x.thread == usize::MAX) {
                                        l.toks[p].thread = me;
                                    }
                                    l.handed_over += 1;
                                    l.events.push(format!("t{} takes over {} v{}", me, KIND[kind], v));
                                });
                                held.push(t);
                            }
                        }
                        // with_reader_token / with_writer_token: acquire (cache first), run the closure,
                        // return the token to the cache - or drop it when the closure fails
                        10 | 11 => {
                            let kind = (k - 10) as usize;
                            let fail = o[2] % 3 == 0;
                            lg(&mut |l| l.inflight[me][kind] = 1);
                            let ledger3 = ledger.clone();
                            let vm3 = vm.clone();
                            let mut body = |v: u64| -> zipora::error::Result<u64> {
                                {
                                    let mut l = ledger3.lock().unwrap();
                                    l.inflight[me][kind] = 0;
                                    if let Some(p) = l.toks.iter().position(|x| x.cached && x.thread == me && x.kind == kind && x.version == v) {
                                        l.toks[p].cached = false;
                                        l.cache_hits += 1;
                                    } else {
                                        l.toks.push(LTok { kind, version: v, thread: me, cached: false, mgr: 0 });
                                    }
                                    l.events.push(format!("t{} with_{}_token: closure runs with v{}{}", me, KIND[kind], v, if fail { ", fails" } else { "" }));
                                }
                                // a scheduling point while the token is in use
                                let _ = vm3.current_version();
                                let mut l = ledger3.lock().unwrap();
                                l.inflight[me][kind] = 1;
                                if let Some(p) = l.toks.iter().position(|x| !x.cached && x.thread == me && x.kind == kind && x.version == v) {
                                    if fail {
                                        l.toks.remove(p);
                                    } else {
                                        l.toks[p].cached = true;
                                    }
                                }
                                if fail { Err(zipora::error::ZiporaError::invalid_data("closure failed")) } else { Ok(v) }
                            };
                            let r = if kind == 0 { zipora::fsa::token::with_reader_token(&tm, |t| body(t.version())) } else { zipora::fsa::token::with_writer_token(&tm, |t| body(t.version())) };
                            lg(&mut |l| {
                                l.inflight[me][kind] = 0;
                                if r.is_err() && !fail {
                                    if kind == 1 {
                                        l.refused_writers += 1;
                                    }
                                    l.events.push(format!("t{} with_{}_token -> refused", me, KIND[kind]));
                                }
                            });
                        }
                        // TokenManager: return a held token to the cache (replaces, i.e. releases, a cached one)
                        _ => {
                            if !held.is_empty() && o[2] % 4 != 0 {
                                let t = held.remove((o[1] as usize) % held.len());
                                let (kind, v) = (t.kind(), t.version());
                                lg(&mut |l| {
                                    // the previously cached token of this kind is released inside the call
                                    if let Some(p) = l.toks.iter().position(|x| x.cached && x.thread == me && x.kind == kind) {
                                        l.toks.remove(p);
                                    }
                                    l.inflight[me][kind] = 1;
                                    if let Some(p) = l.toks.iter().position(|x| !x.cached && x.thread == me && x.kind == kind && x.version == v) {
                                        l.toks[p].cached = true;
                                    }
                                    l.events.push(format!("t{} tm.return_{} v{}", me, KIND[kind], v));
                                });
                                match t {
                                    Tok::R(t) => tm.return_reader_token(t),
                                    Tok::W(t) => tm.return_writer_token(t),
                                }
                                lg(&mut |l| l.inflight[me][kind] = 0);
                            } else {
                                lg(&mut |l| {
                                    l.toks.retain(|x| !(x.cached && x.thread == me));
                                    l.inflight[me] = [1, 1];
                                    l.events.push(format!("t{} tm.clear_thread_cache", me));
                                });
                                tm.clear_thread_cache();
                                lg(&mut |l| l.inflight[me] = [0, 0]);
                            }
                        }
                    }
                }
                // wind down: release what is still held
                while let Some(t) = held.pop() {
                    let (kind, v) = (t.kind(), t.version());
                    lg(&mut |l| {
                        l.remove(0, kind, v, me, false);
                        l.inflight[me][kind] = 1;
                        l.events.push(format!("t{} drop_{} v{} (end)", me, KIND[kind], v));
                    });
                    drop(t);
                    lg(&mut |l| l.inflight[me][kind] = 0);
                }
                // cached tokens: cleared explicitly, or left for the thread-local destructor
                lg(&mut |l| {
                    l.toks.retain(|x| !(x.cached && x.thread == me));
                    l.inflight[me] = [1, 1];
                });
                if end_mode == 0 {
                    tm.clear_thread_cache();
                    lg(&mut |l| l.inflight[me] = [0, 0]);
                }
            }));
        }
        let inv_ledger = ledger.clone();
        let inv_vm = vm.clone();
        let inv: e1::Invariant = Box::new(move || {
            let mut l = inv_ledger.lock().unwrap();
            if let Some(v) = l.pending.take() {
                return Some(v);
            }
            check_manager(&inv_vm, 0, &l, true)
        });
        let sched = cx.src.chan("sched");
        let res = e1::run_threads(&sched, &e1cfg, bodies, Some(inv));
        let l = ledger.lock().unwrap();
        for e in &l.events {
            cx.ev(e);
        }
        cx.trace.feed(res.hash);
        cx.steps = res.steps;
        cx.abandoned = res.abandoned;
        cx.probe_n("context_switches", res.switches);
        cx.probe_n("preempt_between_load_and_rmw", res.window_preempts);
        cx.probe_n("lock_waits", res.lock_waits);
        cx.probe_n("items_reclaimed", l.reclaimed);
        cx.probe_n("writer_refused", l.refused_writers);
        cx.probe_n("token_cache_hits", l.cache_hits);
        cx.nontrivial = res.switches >= 1;
        if let Some(v) = res.violation {
            for s in e1::render_log(&res.log, 400).iter().rev().take(40).rev() {
                cx.ev(format!("  sched {}", s));
            }
            cx.violate(&v.class, &v.site, v.detail);
            return;
        }
        cx.probe_n("tokens_handed_to_another_thread", l.handed_over);
        drop(l);
        if !res.abandoned {
            // tokens nobody took over are released here, by the driver thread
            mailbox.lock().unwrap().clear();
            let (ar, aw) = (vm.active_readers(), vm.active_writers());
            if ar != 0 || aw != 0 {
                cx.violate("counters_nonzero_at_quiescence", "inv.quiescence", format!("all tokens released but active_readers()={} active_writers()={}", ar, aw));
                return;
            }
            // the statistics view of the same numbers (acquired - released)
            if let Ok(st) = vm.stats() {
                if st.active_readers() != 0 || st.active_writers() != 0 {
                    cx.violate("counters_nonzero_at_quiescence", "inv.quiescence.stats", format!("all tokens released but stats().active_readers()={} stats().active_writers()={}", st.active_readers(), st.active_writers()));
                }
            }
        }
    }
}

/// Workload B: one thread, several managers, tokens cached and managers dropped in any order.
struct Seq;

impl Scenario for Seq {
    fn name(&self) -> String {
        "seq/managers".into()
    }
    fn budget(&self, tier: Tier) -> u64 {
        match tier {
            Tier::Quick => 6000,
            Tier::Thorough => 300_000,
        }
    }
    fn run(&self, cx: &mut Run) {
        let cfg = cx.src.chan("cfg");
        let planned = 3 + cfg.below(8);
        let mut ops = cx.src.ops("ops", planned);
        let mut list: Vec<[u64; 4]> = vec![];
        while let Some(o) = ops.next() {
            list.push(o);
        }
        let n_ops = list.len();
        let out: Arc<Mutex<(Vec<String>, Option<Violation>, u64)>> = Arc::new(Mutex::new((vec![], None, 0)));
        let out2 = out.clone();
        let body: e1::Body = Box::new(move |_me| {
            const LEVELS: [ConcurrencyLevel; 5] = [
                ConcurrencyLevel::OneWriteMultiRead,
                ConcurrencyLevel::MultiWriteMultiRead,
                ConcurrencyLevel::SingleThreadShared,
                ConcurrencyLevel::SingleThreadStrict,
                ConcurrencyLevel::NoWriteReadOnly,
            ];
            let mut mgrs: Vec<Option<TokenManager>> = vec![];
            let mut held: Vec<(Tok, usize)> = vec![];
            let mut held_ro: Vec<ReaderToken> = vec![];
            let mut l = Ledger { inflight: vec![[0, 0]], ..Default::default() };
            let mut ev: Vec<String> = vec![];
            let mut viol: Option<Violation> = None;
            let mut dropped_with_tokens = 0u64;
            let live = |m: &Vec<Option<TokenManager>>| -> Vec<usize> { (0..m.len()).filter(|&i| m[i].is_some()).collect() };
            for o in &list {
                let alive = live(&mgrs);
                let k = if alive.is_empty() { 0 } else { o[0] % 8 };
                match k {
                    0 => {
                        if mgrs.len() < 3 {
                            let lv = LEVELS[(o[1] % 5) as usize];
                            mgrs.push(Some(TokenManager::new(lv)));
                            ev.push(format!("new manager m{} {}", mgrs.len() - 1, level_name(lv)));
                        }
                    }
                    1 | 2 | 3 => {
                        // acquire through manager m (cache first, so the token may belong to another manager)
                        let m = alive[(o[1] as usize) % alive.len()];
                        let kind = (o[2] % 2) as usize;
                        let tm = mgrs[m].as_ref().unwrap();
                        let direct = k == 3;
                        let r = match (direct, kind) {
                            (true, 0) => tm.version_manager().acquire_reader_token().map(Tok::R),
                            (true, _) => tm.version_manager().acquire_writer_token().map(Tok::W),
                            (false, 0) => tm.acquire_reader_token().map(Tok::R),
                            (false, _) => tm.acquire_writer_token().map(Tok::W),
                        };
                        match r {
                            // NoWriteReadOnly hands out untracked read-only tokens (documented:
                            // "unlimited readers without version tracking"); they are not counted
                            // by design, so they are not entered into the ledger either.
                            Ok(Tok::R(t)) if t.is_readonly() => {
                                ev.push(format!("m{}.acquire_R -> read-only token (untracked by design)", m));
                                held_ro.push(t);
                            }
                            Ok(t) => {
                                let v = t.version();
                                // whose token is it?  A cached one keeps its original manager.
                                let owner = if !direct {
                                    match l.toks.iter().position(|x| x.cached && x.kind == kind) {
                                        Some(p) => {
                                            let own = l.toks[p].mgr;
                                            l.toks[p].cached = false;
                                            l.cache_hits += 1;
                                            own
                                        }
                                        None => {
                                            l.toks.push(LTok { kind, version: v, thread: 0, cached: false, mgr: m });
                                            m
                                        }
                                    }
                                } else {
                                    l.toks.push(LTok { kind, version: v, thread: 0, cached: false, mgr: m });
                                    m
                                };
                                ev.push(format!("m{}.{}acquire_{} -> v{} (issued by m{})", m, if direct { "vm." } else { "" }, KIND[kind], v, owner));
                                held.push((t, owner));
                            }
                            Err(_) => ev.push(format!("m{}.acquire_{} -> refused", m, KIND[kind])),
                        }
                    }
                    4 => {
                        if !held.is_empty() {
                            let (t, owner) = held.remove((o[1] as usize) % held.len());
                            let (kind, v) = (t.kind(), t.version());
                            if let Some(p) = l.toks.iter().position(|x| !x.cached && x.kind == kind && x.version == v && x.mgr == owner) {
                                l.toks.remove(p);
                            }
                            ev.push(format!("drop_{} v{} (issued by m{}{})", KIND[kind], v, owner, if mgrs[owner].is_none() { ", which is gone" } else { "" }));
                            drop(t);
                        }
                    }
                    5 => {
                        if !held.is_empty() {
                            let (t, owner) = held.remove((o[1] as usize) % held.len());
                            let (kind, v) = (t.kind(), t.version());
                            let m = alive[(o[2] as usize) % alive.len()];
                            if let Some(p) = l.toks.iter().position(|x| x.cached && x.kind == kind) {
                                l.toks.remove(p);
                            }
                            if let Some(p) = l.toks.iter().position(|x| !x.cached && x.kind == kind && x.version == v && x.mgr == owner) {
                                l.toks[p].cached = true;
                            }
                            ev.push(format!("m{}.return_{} v{} (issued by m{})", m, KIND[kind], v, owner));
                            let tm = mgrs[m].as_ref().unwrap();
                            match t {
                                Tok::R(t) => tm.return_reader_token(t),
                                Tok::W(t) => tm.return_writer_token(t),
                            }
                        }
                    }
                    6 => {
                        let m = alive[(o[1] as usize) % alive.len()];
                        l.toks.retain(|x| !x.cached);
                        ev.push(format!("m{}.clear_thread_cache", m));
                        mgrs[m].as_ref().unwrap().clear_thread_cache();
                    }
                    _ => {
                        let m = alive[(o[1] as usize) % alive.len()];
                        let outstanding = l.toks.iter().filter(|x| x.mgr == m).count();
                        if outstanding > 0 {
                            dropped_with_tokens += 1;
                        }
                        ev.push(format!("drop manager m{} ({} of its tokens still out)", m, outstanding));
                        mgrs[m] = None;
                    }
                }
                // counters of every live manager agree with the ledger
                for m in live(&mgrs) {
                    if let Some(v) = check_manager(mgrs[m].as_ref().unwrap().version_manager(), m, &l, true) {
                        viol = Some(v);
                        break;
                    }
                }
                if viol.is_some() {
                    break;
                }
            }
            if viol.is_none() {
                ev.push("wind down: drop held tokens, clear cache".into());
                while let Some((t, owner)) = held.pop() {
                    let (kind, v) = (t.kind(), t.version());
                    if let Some(p) = l.toks.iter().position(|x| !x.cached && x.kind == kind && x.version == v && x.mgr == owner) {
                        l.toks.remove(p);
                    }
                    drop(t);
                }
                held_ro.clear();
                l.toks.retain(|x| !x.cached);
                if let Some(m) = live(&mgrs).first() {
                    mgrs[*m].as_ref().unwrap().clear_thread_cache();
                } else {
                    TokenManager::new(ConcurrencyLevel::SingleThreadStrict).clear_thread_cache();
                }
                for m in live(&mgrs) {
                    let vm = mgrs[m].as_ref().unwrap().version_manager();
                    if vm.active_readers() != 0 || vm.active_writers() != 0 {
                        viol = Some(Violation::new("counters_nonzero_at_quiescence", "inv.quiescence", format!("m{}: active_readers()={} active_writers()={}", m, vm.active_readers(), vm.active_writers())));
                    }
                }
            }
            let mut g = out2.lock().unwrap();
            g.0 = ev;
            g.1 = viol;
            g.2 = dropped_with_tokens;
        });
        let sched = cx.src.chan("sched");
        let res = e1::run_threads(&sched, &E1Cfg { max_steps: 20_000, switch_num: 0, switch_den: 1, ..Default::default() }, vec![body], None);
        let g = out.lock().unwrap();
        for e in &g.0 {
            cx.ev(e);
        }
        cx.steps = n_ops as u64;
        cx.probe_n("manager_dropped_with_tokens_out", g.2);
        cx.nontrivial = n_ops >= 3;
        if let Some(v) = res.violation.or(g.1.clone()) {
            cx.violate(&v.class, &v.site, v.detail);
        }
    }
}

/// Sequential retire/reclaim histories on one manager: tokens of several versions stay live while
/// items are stamped, queued (possibly later than they were stamped, so not in age order) and reclaimed.
struct Reclaim;

impl Scenario for Reclaim {
    fn name(&self) -> String {
        "seq/reclaim".into()
    }
    fn budget(&self, tier: Tier) -> u64 {
        match tier {
            Tier::Quick => 6000,
            Tier::Thorough => 300_000,
        }
    }
    fn run(&self, cx: &mut Run) {
        let cfg = cx.src.chan("cfg");
        let level = if cfg.below(2) == 0 { ConcurrencyLevel::OneWriteMultiRead } else { ConcurrencyLevel::MultiWriteMultiRead };
        let bulk = cfg.biased_zero(4, 1, 2) as usize;
        let planned = 4 + cfg.below(12);
        let mut ops = cx.src.ops("ops", planned);
        let vm = VersionManager::new(level);
        let mut lazy = if bulk == 0 { LazyFreeList::new() } else { LazyFreeList::with_bulk_threshold(bulk) };
        let mut held: Vec<Tok> = vec![];
        let mut deferred: Vec<LazyFreeItem> = vec![];
        let mut next_off = 0u32;
        let mut retired: Vec<(u32, u32, u64)> = vec![];
        let mut n = 0u64;
        let mut freed = 0u64;
        let mut out_of_order = 0u64;
        let mut last_queued_age: Option<u64> = None;
        let mut viol: Option<Violation> = None;
        cx.ev(&format!("level={} bulk_threshold={}", level_name(level), if bulk == 0 { 32 } else { bulk }));
        while let Some(o) = ops.next() {
            n += 1;
            match o[0] % 6 {
                0 => match vm.acquire_reader_token() {
                    Ok(t) => {
                        cx.ev(&format!("acquire_R -> v{}", t.version()));
                        held.push(Tok::R(t));
                    }
                    Err(_) => cx.ev("acquire_R -> refused"),
                },
                1 => match vm.acquire_writer_token() {
                    Ok(t) => {
                        cx.ev(&format!("acquire_W -> v{}", t.version()));
                        held.push(Tok::W(t));
                    }
                    Err(_) => cx.ev("acquire_W -> refused"),
                },
                2 => {
                    if !held.is_empty() {
                        let t = held.remove((o[1] as usize) % held.len());
                        cx.ev(&format!("drop_{} v{}", KIND[t.kind()], t.version()));
                        drop(t);
                    }
                }
                3 | 4 => {
                    let age = vm.current_version();
                    // retired blocks are disjoint ranges of one address space, laid out upwards; half of
                    // them start exactly where the previous one ended (neighbours in memory)
                    let size = [8u32, 16, 64][(o[3] % 3) as usize];
                    let off = if o[1] % 2 == 0 { next_off } else { next_off + 64 };
                    next_off = off + size;
                    retired.push((off, size, age));
                    let item = LazyFreeItem::new(age, off, size);
                    if o[2] % 2 == 0 {
                        deferred.push(item);
                        cx.ev(&format!("retire [{}..{}) age={} (queued later)", off, off + size, age));
                    } else {
                        if last_queued_age.map_or(false, |a| a > age) {
                            out_of_order += 1;
                        }
                        last_queued_age = Some(age);
                        lazy.push(item);
                        cx.ev(&format!("retire [{}..{}) age={}", off, off + size, age));
                    }
                }
                _ => {
                    for item in deferred.drain(..) {
                        if last_queued_age.map_or(false, |a| a > item.age) {
                            out_of_order += 1;
                        }
                        last_queued_age = Some(item.age);
                        lazy.push(item);
                    }
                    let mv = vm.min_version();
                    let live: Vec<(usize, u64)> = held.iter().map(|t| (t.kind(), t.version())).collect();
                    let mut evs: Vec<String> = vec![];
                    lazy.process_safe_items(mv, |item| {
                        freed += 1;
                        if let Some((k, v)) = live.iter().find(|(_, v)| *v <= item.age) {
                            if viol.is_none() {
                                viol = Some(Violation::new(
                                    "reclaimed_while_visible",
                                    "inv.reclaim",
                                    format!("item retired at version {} freed (threshold {}) while a {} token of version {} is live", item.age, mv, KIND[*k], v),
                                ));
                            }
                        }
                        // what is handed to the callback is memory: every retired block inside the freed
                        // range is freed now, whatever age the item claims for it
                        let (a, b) = (item.memory_offset, item.memory_offset + item.size);
                        let mut covered = 0u32;
                        retired.retain(|&(off, size, age)| {
                            if off >= a && off + size <= b {
                                covered += size;
                                if let Some((k, v)) = live.iter().find(|(_, v)| *v <= age) {
                                    if viol.is_none() {
                                        viol = Some(Violation::new(
                                            "reclaimed_while_visible",
                                            "inv.reclaim.range",
                                            format!("the callback was handed [{}..{}) (as age {}, threshold {}), which contains the block [{}..{}) retired at version {}, while a {} token of version {} is live", a, b, item.age, mv, off, off + size, age, KIND[*k], v),
                                        ));
                                    }
                                }
                                false
                            } else {
                                true
                            }
                        });
                        if covered != item.size && viol.is_none() {
                            viol = Some(Violation::new("freed_range_not_retired", "inv.reclaim.range", format!("the callback was handed [{}..{}) but only {} of its {} bytes belong to retired blocks that were not freed yet", a, b, covered, item.size)));
                        }
                        evs.push(format!("free [{}..{}) age={} (threshold {})", a, b, item.age, mv));
                    });
                    cx.ev(&format!("reclaim threshold={} live={:?}", mv, live));
                    for e in &evs {
                        cx.ev(e);
                    }
                    if level.requires_synchronization() {
                        if let Some((k, v)) = live.iter().find(|(_, v)| mv > *v) {
                            if viol.is_none() {
                                viol = Some(Violation::new("min_version_exceeds_live_token", "inv.min_version", format!("min_version()={} but a live {} token has version {}", mv, KIND[*k], v)));
                            }
                        }
                    }
                }
            }
            // sequential: the reported numbers equal the live tokens exactly, in both views
            if viol.is_none() {
                let cr = held.iter().filter(|t| t.kind() == 0).count() as u64;
                let cw = held.iter().filter(|t| t.kind() == 1).count() as u64;
                let (ar, aw) = (vm.active_readers(), vm.active_writers());
                if ar != cr || aw != cw {
                    viol = Some(Violation::new("counter_mismatch", "inv.active_counters.seq", format!("active_readers()={} active_writers()={} but {} reader and {} writer tokens are live", ar, aw, cr, cw)));
                } else if let Ok(st) = vm.stats() {
                    if st.active_readers() != cr as i64 || st.active_writers() != cw as i64 {
                        viol = Some(Violation::new("counter_mismatch", "inv.stats_counters.seq", format!("stats(): active_readers()={} active_writers()={} but {} reader and {} writer tokens are live", st.active_readers(), st.active_writers(), cr, cw)));
                    }
                }
                if level == ConcurrencyLevel::OneWriteMultiRead && cw > 1 {
                    viol = Some(Violation::new("two_writers_live", "inv.one_writer", format!("{} writer tokens live at once", cw)));
                }
            }
            if viol.is_some() {
                break;
            }
        }
        drop(held);
        if viol.is_none() && (vm.active_readers() != 0 || vm.active_writers() != 0) {
            viol = Some(Violation::new("counters_nonzero_at_quiescence", "inv.quiescence", format!("all tokens released but active_readers()={} active_writers()={}", vm.active_readers(), vm.active_writers())));
        }
        cx.steps = n;
        cx.probe_n("items_freed", freed);
        cx.probe_n("queued_out_of_age_order", out_of_order);
        cx.nontrivial = n >= 4;
        if let Some(v) = viol {
            cx.violate(&v.class, &v.site, v.detail);
        }
    }
}

fn main() {
    let mut spec = CheckSpec::new(
        "C16",
        "exploration",
        "seeded schedules (E1 baton scheduler over real threads, scheduling point at every shimmed atomic/lock of version_sync.rs) x seeded per-thread token operations; \
         non-trivial = at least one context switch inside the run (seq/managers: >= 3 operations); distinct = distinct hash of (operation results, schedule trace)",
    );
    spec.assumptions = vec![
        "sequentially consistent interleavings only (no weak-memory reorderings)".into(),
        "scheduling points exist at the shimmed atomics and mutexes of fsa/version_sync.rs; fsa/token.rs uses thread_local! and a std Mutex for statistics, which are not scheduling points".into(),
        "a token counts as live from the return of acquire until just before its drop is called (conservative both ways)".into(),
    ];
    spec.components = vec![("fsa::version_sync::VersionManager", "real"), ("fsa::token::TokenManager + TOKEN_CACHE", "real"), ("fsa::version_sync::LazyFreeList", "real"), ("OS threads", "real, one at a time under the baton scheduler"), ("free callback", "stub (records the item)")];
    spec.init = zsim_props::install_hooks;
    for mode in [Mode::Vm, Mode::Tm] {
        for level in [ConcurrencyLevel::OneWriteMultiRead, ConcurrencyLevel::MultiWriteMultiRead] {
            spec.scenarios.push(Box::new(Conc { mode, level }));
        }
    }
    spec.scenarios.push(Box::new(Seq));
    spec.scenarios.push(Box::new(Reclaim));
    zsim_core::driver::main(spec);
}
