//! C02 — compressor layer round trip, for the clock/history-dependent front ends.
//!
//! `RealtimeCompressor` decides per call, from reads of the (simulated) clock, whether the
//! output is produced by its configured algorithm, by the unframed `<64 B` pass-through or by
//! the no-op timeout fallback; `RealtimeCompressor::set_mode` and
//! `AdaptiveCompressor::set_algorithm` change the algorithm between calls.  The property
//! demands `decompress(compress(x)) == x` whatever was chosen.
//!
//! Engine: E2 (tokio current_thread runtime, paused clock, `zipora::verif::time::Instant`
//! skew jumps at seeded clock reads) + E5 (seeded histories against a trivial model: the
//! payload that went in).  Payloads are workload, not search space.

use std::cell::RefCell;
use std::sync::atomic::{AtomicBool, AtomicU64, Ordering};
use std::sync::{Arc, Mutex};
use std::time::Duration;
use zipora::compression::{AdaptiveCompressor, AdaptiveConfig, Algorithm, CompressionMode, CompressorFactory, PerformanceRequirements, RealtimeCompressor, RealtimeConfig};
use zipora::verif::time::Instant as VInstant;
use zsim_core::{CheckSpec, Run, Scenario, Tier};

/// Is the optional `lz4` cargo feature compiled into this build of zipora?  Without it every
/// Lz4 call answers "not enabled" (an honest refusal).  `set_mode` / `set_algorithm` then do
/// not *switch to* Lz4 in the histories: a decode that fails only because the current
/// algorithm is not compiled in would say nothing about framing.  (A front end that starts on
/// Lz4 by construction is still exercised as it is.)
fn lz4_available() -> bool {
    static A: std::sync::OnceLock<bool> = std::sync::OnceLock::new();
    *A.get_or_init(|| CompressorFactory::create(Algorithm::Lz4, None).map(|c| c.compress(b"x").is_ok()).unwrap_or(false))
}

// ---------------------------------------------------------------------------------------
// payloads

const KIND_TABLE: [u64; 16] = [0, 1, 2, 3, 4, 5, 5, 6, 6, 7, 7, 7, 8, 3, 2, 6];
const KIND_NAME: [&str; 9] = ["empty", "one", "n63", "n64", "n65", "zeros", "text", "random", "few"];

/// Payload number `id` of a run.  Unique within the run (the id is in the first bytes) except
/// for the empty payload.  Bytes 2..4 are zero whenever they exist: a front end that hands
/// *unframed* bytes to an LZ4/zstd decoder makes that decoder read the first four bytes as a
/// length, and the harness wants that mis-decode to stay cheap (at most 64 KiB), not to
/// explore the decoder's allocation behaviour (that is C15's subject).
fn payload(id: u64, sel: u64, x: u64) -> (Vec<u8>, &'static str) {
    let kind = KIND_TABLE[(sel % 16) as usize] as usize;
    let len = match kind {
        0 => 0,
        1 => 1,
        2 => 63,
        3 => 64,
        4 => 65,
        5 => 100 + (x % 900) as usize,
        6 => 200 + (x % 400) as usize,
        7 => 70 + (x % 2000) as usize,
        _ => 2 + (x % 7) as usize,
    };
    let mut v = Vec::with_capacity(len);
    let text = b"the quick brown fox jumps over the lazy dog; ";
    let mut s = x.wrapping_mul(0x9E37_79B9_7F4A_7C15) | 1;
    for i in 0..len {
        let b = match kind {
            5 => 0u8,
            7 => {
                s ^= s << 13;
                s ^= s >> 7;
                s ^= s << 17;
                (s >> 24) as u8
            }
            _ => text[i % text.len()],
        };
        v.push(b);
    }
    if len >= 4 {
        v[0] = id as u8;
        v[1] = (id >> 8) as u8;
        v[2] = 0;
        v[3] = 0;
    } else if len >= 1 {
        v[0] = id as u8;
    }
    (v, KIND_NAME[kind])
}

/// A payload derived from one submitted earlier in the run (duplicated records, retries,
/// fixed-layout records that differ in a trailing counter): the same bytes again, or the same
/// length with one byte changed.  Bytes 2..4 stay zero (see `payload`).
fn variant(prev: &[u8], sel: u64, x: u64) -> (Vec<u8>, &'static str) {
    let mut v = prev.to_vec();
    let n = v.len();
    match (sel % 3, n) {
        (0, _) | (_, 0) => (v, "same-again"),
        (1, _) => {
            v[n - 1] ^= 0xff;
            (v, "last-byte-changed")
        }
        _ => {
            let mut pos = (x as usize) % n;
            if pos == 2 || pos == 3 {
                pos = n - 1;
            }
            v[pos] ^= 1 + ((x >> 20) % 255) as u8;
            (v, "one-byte-changed")
        }
    }
}

fn head(b: &[u8]) -> String {
    let n = b.len().min(12);
    let mut s = String::new();
    for x in &b[..n] {
        s.push_str(&format!("{:02x}", x));
    }
    if b.len() > n {
        s.push_str("..");
    }
    s
}

/// One stored output of a compress call.
struct Out {
    id: u64,
    payload: Vec<u8>,
    bytes: Vec<u8>,
    /// number of algorithm switches that had happened when it was produced
    epoch: u64,
    /// how the front end says it produced it (see `RtScenario::run`)
    path: &'static str,
    /// algorithm configured in the front end when it was produced
    algo: String,
}

/// Compare one decode against the model.  Returns (class, site suffix, detail) on mismatch.
fn judge(front: &str, o: &Out, epoch_now: u64, algo_now: &str, got: &Result<Vec<u8>, String>) -> Option<(String, String, String)> {
    let class = if o.epoch == epoch_now { "roundtrip" } else { "roundtrip_after_switch" };
    match got {
        Ok(b) if *b == o.payload => None,
        Ok(b) => Some((
            class.to_string(),
            format!("{}.{}.wrong_bytes", front, o.path),
            format!(
                "payload p{} ({} B, {}) compressed under {} via {} to {} B ({}); decompress under {} returned Ok with {} different bytes ({})",
                o.id,
                o.payload.len(),
                head(&o.payload),
                o.algo,
                o.path,
                o.bytes.len(),
                head(&o.bytes),
                algo_now,
                b.len(),
                head(b)
            ),
        )),
        Err(e) => Some((
            class.to_string(),
            format!("{}.{}.err", front, o.path),
            format!(
                "payload p{} ({} B, {}) compressed under {} via {} to {} B ({}); decompress under {} failed: {}",
                o.id,
                o.payload.len(),
                head(&o.payload),
                o.algo,
                o.path,
                o.bytes.len(),
                head(&o.bytes),
                algo_now,
                e
            ),
        )),
    }
}

// ---------------------------------------------------------------------------------------
// RealtimeCompressor

const MODES: [CompressionMode; 4] = [CompressionMode::UltraLowLatency, CompressionMode::LowLatency, CompressionMode::Balanced, CompressionMode::HighCompression];

/// Order in which `set_mode` targets are drawn: the shrinker minimises towards index 0, and the
/// zstd-backed modes come before LowLatency so that minimal examples do not depend on whether
/// the optional `lz4` feature is compiled in.
const SWITCH_TARGETS: [CompressionMode; 4] = [CompressionMode::UltraLowLatency, CompressionMode::Balanced, CompressionMode::HighCompression, CompressionMode::LowLatency];

fn mode_name(m: CompressionMode) -> &'static str {
    match m {
        CompressionMode::UltraLowLatency => "UltraLowLatency",
        CompressionMode::LowLatency => "LowLatency",
        CompressionMode::Balanced => "Balanced",
        CompressionMode::HighCompression => "HighCompression",
    }
}

#[derive(Clone, Copy, PartialEq)]
enum Family {
    /// no clock jumps, deadlines in the future, no mode switch
    Clean,
    /// clock jumps at seeded clock reads and deadlines that may already have passed
    ClockJump,
    /// set_mode between calls, no clock jumps
    Switch,
}

struct RtScenario {
    mode: CompressionMode,
    family: Family,
}

/// State shared with the clock hook.
struct Clock {
    armed: AtomicBool,
    reads: AtomicU64,
    jumps: Mutex<Vec<(u64, u64)>>,
}

const JUMP_NS: [u64; 6] = [1_000, 1_000_000, 10_000_000, 100_000_000, 1_000_000_000, 10_000_000_000];
const DELTA_NS: [u64; 5] = [0, 1_000, 1_000_000, 100_000_000, 10_000_000_000];

struct RtState<'a> {
    cx: &'a mut Run,
    outs: Vec<Out>,
    next_id: u64,
    epoch: u64,
    /// mode whose algorithm is configured now (set_mode changes it; `RealtimeConfig::mode` stays)
    cur: CompressionMode,
    checked: u64,
    stop: bool,
}

impl Scenario for RtScenario {
    fn name(&self) -> String {
        format!(
            "realtime/{}/{}",
            mode_name(self.mode),
            match self.family {
                Family::Clean => "clean",
                Family::ClockJump => "clockjump",
                Family::Switch => "switch",
            }
        )
    }
    fn budget(&self, tier: Tier) -> u64 {
        match tier {
            Tier::Quick => 3000,
            Tier::Thorough => 180_000,
        }
    }
    fn run(&self, cx: &mut Run) {
        zsim_core::hooks::reset();
        let cfg = cx.src.chan("cfg");
        let max_concurrent = 1 + cfg.below(2) as usize;
        let nclients = 1 + cfg.biased_zero(3, 1, 2) as usize;
        let no_fallback = cfg.chance(1, 3);
        let deadlines_off = cfg.chance(1, 4);
        let jump_den = *cfg.pick(&[2u64, 4, 8]);
        let planned = 3 + cfg.below(8);
        let mut ops = cx.src.ops("ops", planned);
        let mut per_client: Vec<Vec<[u64; 4]>> = vec![vec![]; nclients];
        let mut n_ops = 0u64;
        while let Some(o) = ops.next() {
            per_client[(o[3] % nclients as u64) as usize].push(o);
            n_ops += 1;
        }
        let family = self.family;
        let base_mode = self.mode;
        let config = RealtimeConfig { mode: base_mode, max_concurrent, enable_deadlines: !deadlines_off, fallback_on_timeout: !no_fallback, batch_size: 10, batch_timeout: Duration::from_millis(1) };
        cx.ev(format!("RealtimeCompressor mode={} max_concurrent={} enable_deadlines={} fallback_on_timeout={} clients={}", mode_name(base_mode), max_concurrent, !deadlines_off, !no_fallback, nclients));

        let clock = Arc::new(Clock { armed: AtomicBool::new(false), reads: AtomicU64::new(0), jumps: Mutex::new(vec![]) });
        if family == Family::ClockJump {
            let fault = cx.src.chan("fault");
            let c = clock.clone();
            zsim_core::hooks::set_skew_fn(Some(Box::new(move || {
                if !c.armed.load(Ordering::SeqCst) {
                    return 0;
                }
                let k = c.reads.fetch_add(1, Ordering::SeqCst) + 1;
                if fault.chance(1, jump_den) {
                    let ns = JUMP_NS[fault.below(JUMP_NS.len() as u64) as usize];
                    c.jumps.lock().unwrap().push((k, ns));
                    ns
                } else {
                    0
                }
            })));
        }

        let rt = tokio::runtime::Builder::new_current_thread().enable_all().start_paused(true).build().expect("tokio runtime");
        let rc = match RealtimeCompressor::new(config) {
            Ok(r) => r,
            Err(e) => {
                cx.ev(format!("RealtimeCompressor::new refused: {}", e));
                zsim_core::hooks::reset();
                return;
            }
        };
        let st = RefCell::new(RtState { cx, outs: vec![], next_id: 0, epoch: 0, cur: base_mode, checked: 0, stop: false });
        let st = &st;
        let rc = &rc;
        let clock_ref = &clock;

        // clock bookkeeping around one zipora call
        let arm = || {
            clock_ref.reads.store(0, Ordering::SeqCst);
            clock_ref.armed.store(true, Ordering::SeqCst);
        };
        let disarm = || -> String {
            clock_ref.armed.store(false, Ordering::SeqCst);
            let reads = clock_ref.reads.load(Ordering::SeqCst);
            let jumps: Vec<(u64, u64)> = clock_ref.jumps.lock().unwrap().drain(..).collect();
            let mut s = st.borrow_mut();
            for _ in &jumps {
                s.cx.fault("clock_jump");
            }
            if family != Family::ClockJump {
                return String::new();
            }
            let js: Vec<String> = jumps.iter().map(|(k, ns)| format!("read#{} +{}us", k, ns / 1000)).collect();
            format!(" [clock reads={} jumps: {}]", reads, if js.is_empty() { "none".to_string() } else { js.join(", ") })
        };

        // decode one stored output now and compare with the model
        let check = |idx: usize, when: &'static str| {
            let (bytes, id) = {
                let s = st.borrow();
                (s.outs[idx].bytes.clone(), s.outs[idx].id)
            };
            async move {
                let r = rc.decompress(&bytes).await.map_err(|e| e.to_string());
                let mut s = st.borrow_mut();
                let algo_now = format!("{:?}", s.cur.preferred_algorithm());
                let epoch = s.epoch;
                s.checked += 1;
                let verdict = judge("RealtimeCompressor", &s.outs[idx], epoch, &algo_now, &r);
                let txt = match (&r, &verdict) {
                    (_, None) => "Ok, equals payload".to_string(),
                    (Ok(b), Some(_)) => format!("Ok but {} B differ from payload", b.len()),
                    (Err(e), _) => format!("Err({})", e),
                };
                s.cx.ev(format!("  decompress out(p{}) {} under {} -> {}", id, when, algo_now, txt));
                if let Some((class, site, detail)) = verdict {
                    let switched = s.outs[idx].epoch != epoch;
                    s.cx.probe(if switched { "decode_failed_after_switch" } else { "decode_failed_same_config" });
                    s.cx.violate(&class, &site, detail);
                    s.stop = true;
                }
            }
        };

        let client = |me: usize, list: Vec<[u64; 4]>| async move {
            for o in list {
                if st.borrow().stop {
                    return;
                }
                // seeded virtual delay before the call (tokio timers have 1 ms granularity)
                let delay = (o[3] / 8) % 3;
                if delay > 0 {
                    tokio::time::sleep(Duration::from_millis(delay)).await;
                }
                if st.borrow().stop {
                    return;
                }
                let nkinds = if family == Family::Switch { 6 } else { 5 };
                let k = o[0] % nkinds;
                match k {
                    // compress / compress_with_deadline
                    0 | 1 | 2 => {
                        let (p, kind, id) = {
                            let mut s = st.borrow_mut();
                            let id = s.next_id;
                            s.next_id += 1;
                            let (p, kind) = match s.outs.last() {
                                Some(prev) if o[3] % 4 == 0 => variant(&prev.payload, o[3] / 4, o[2]),
                                _ => payload(id, o[1], o[2]),
                            };
                            (p, kind, id)
                        };
                        let fb0 = rc.stats().fallback_operations;
                        let lo = if family == Family::ClockJump { 0 } else { 1 };
                        let d = DELTA_NS[lo + ((o[2] / 4096) as usize) % (DELTA_NS.len() - lo)];
                        let call = if k == 0 { "compress".to_string() } else { format!("compress_with_deadline(now+{}us)", d / 1000) };
                        let (cur, algo) = {
                            let mut s = st.borrow_mut();
                            let cur = s.cur;
                            let algo = format!("{:?}", cur.preferred_algorithm());
                            if k != 0 && d == 0 {
                                s.cx.probe("deadline_already_passed_at_call");
                            }
                            s.cx.ev(format!("c{} {} p{}({} B, {}) under {}", me, call, id, p.len(), kind, algo));
                            (cur, algo)
                        };
                        let (r, clk) = if k == 0 {
                            arm();
                            let r = rc.compress(&p).await;
                            (r, disarm())
                        } else {
                            let deadline = VInstant::now() + Duration::from_nanos(d);
                            arm();
                            let r = rc.compress_with_deadline(&p, deadline).await;
                            (r, disarm())
                        };
                        let fb = rc.stats().fallback_operations - fb0;
                        let mut s = st.borrow_mut();
                        match r {
                            Ok(bytes) => {
                                let path = if fb > 0 && no_fallback {
                                    // the configuration says a missed deadline is an error, never a fallback
                                    "timeout_fallback_although_disabled"
                                } else if fb > 0 {
                                    "timeout_fallback"
                                } else if p.len() < 64 && base_mode == CompressionMode::UltraLowLatency {
                                    "tiny_passthrough"
                                } else {
                                    "configured"
                                };
                                s.cx.probe(&format!("path_{}", path));
                                s.cx.cell(format!("realtime/{}/{}/{}", mode_name(cur), kind, path));
                                s.cx.ev(format!("  -> Ok {} B ({}) via {}{}", bytes.len(), head(&bytes), path, clk));
                                let epoch = s.epoch;
                                s.outs.push(Out { id, payload: p, bytes, epoch, path, algo });
                                let idx = s.outs.len() - 1;
                                drop(s);
                                check(idx, "right away").await;
                            }
                            Err(e) => {
                                s.cx.probe(if fb > 0 { "compress_refused_deadline" } else { "compress_refused_other" });
                                s.cx.ev(format!("  -> refused: {}{}", e, clk));
                            }
                        }
                    }
                    // compress_batch of 1..3 payloads
                    3 => {
                        let n = 1 + (o[1] % 3) as usize;
                        let mut ps: Vec<(Vec<u8>, &'static str, u64)> = vec![];
                        {
                            let mut s = st.borrow_mut();
                            for j in 0..n {
                                let id = s.next_id;
                                s.next_id += 1;
                                let (p, kind) = payload(id, o[2] >> (4 * j), o[2].wrapping_mul(31).wrapping_add(j as u64));
                                ps.push((p, kind, id));
                            }
                        }
                        let fb0 = rc.stats().fallback_operations;
                        let (cur, algo) = {
                            let mut s = st.borrow_mut();
                            let cur = s.cur;
                            let algo = format!("{:?}", cur.preferred_algorithm());
                            let desc: Vec<String> = ps.iter().map(|(p, kind, id)| format!("p{}({} B, {})", id, p.len(), kind)).collect();
                            s.cx.ev(format!("c{} compress_batch [{}] under {}", me, desc.join(", "), algo));
                            (cur, algo)
                        };
                        arm();
                        let r = rc.compress_batch(ps.iter().map(|x| x.0.as_slice()).collect()).await;
                        let clk = disarm();
                        let fb = rc.stats().fallback_operations - fb0;
                        let mut s = st.borrow_mut();
                        match r {
                            Ok(results) => {
                                if results.len() > ps.len() {
                                    s.cx.violate("roundtrip", "RealtimeCompressor.compress_batch.extra_outputs", format!("{} items in, {} outputs", ps.len(), results.len()));
                                    s.stop = true;
                                    return;
                                }
                                if results.len() < ps.len() {
                                    s.cx.probe("batch_truncated_at_deadline");
                                }
                                s.cx.ev(format!("  -> Ok {} outputs, {} by timeout fallback{}", results.len(), fb, clk));
                                let nres = results.len();
                                let mut idxs = vec![];
                                for (j, bytes) in results.into_iter().enumerate() {
                                    let (p, kind, id) = ps[j].clone();
                                    // the clock is monotone and the batch stops at the first missed
                                    // deadline, so only the last output can come from the fallback
                                    let path = if fb > 0 && j + 1 == nres && no_fallback {
                                        "timeout_fallback_although_disabled"
                                    } else if fb > 0 && j + 1 == nres {
                                        "timeout_fallback"
                                    } else if fb > 1 {
                                        "unknown_path"
                                    } else if p.len() < 64 && base_mode == CompressionMode::UltraLowLatency {
                                        "tiny_passthrough"
                                    } else {
                                        "configured"
                                    };
                                    s.cx.probe(&format!("path_{}", path));
                                    s.cx.cell(format!("realtime/{}/batch-{}/{}", mode_name(cur), kind, path));
                                    let epoch = s.epoch;
                                    s.outs.push(Out { id, payload: p, bytes, epoch, path, algo: algo.clone() });
                                    idxs.push(s.outs.len() - 1);
                                }
                                drop(s);
                                for idx in idxs {
                                    if st.borrow().stop {
                                        return;
                                    }
                                    check(idx, "right away").await;
                                }
                            }
                            Err(e) => {
                                s.cx.probe(if fb > 0 { "compress_refused_deadline" } else { "compress_refused_other" });
                                s.cx.ev(format!("  -> refused: {}{}", e, clk));
                            }
                        }
                    }
                    // decompress an earlier output
                    4 => {
                        let n = st.borrow().outs.len();
                        if n > 0 {
                            let idx = (o[1] as usize) % n;
                            check(idx, "later").await;
                        }
                    }
                    // set_mode (switch family only)
                    _ => {
                        let m = SWITCH_TARGETS[(o[1] % if lz4_available() { 4 } else { 3 }) as usize];
                        let r = rc.set_mode(m);
                        let mut s = st.borrow_mut();
                        match r {
                            Ok(()) => {
                                s.epoch += 1;
                                s.cur = m;
                                s.cx.probe("set_mode");
                                s.cx.ev(format!("c{} set_mode({}) -> Ok, algorithm now {:?}", me, mode_name(m), m.preferred_algorithm()));
                            }
                            Err(e) => s.cx.ev(format!("c{} set_mode({}) -> refused: {}", me, mode_name(m), e)),
                        }
                    }
                }
            }
        };

        let t0 = tokio::time::Instant::now();
        let sim_ms = rt.block_on(async {
            let futs: Vec<_> = per_client.into_iter().enumerate().map(|(me, list)| client(me, list)).collect();
            futures::future::join_all(futs).await;
            t0.elapsed().as_millis() as u64
        });
        zsim_core::hooks::reset();
        let mut s = st.borrow_mut();
        let checked = s.checked;
        s.cx.steps = n_ops;
        s.cx.sim_ms = sim_ms;
        s.cx.nontrivial = checked >= 1;
    }
}

// ---------------------------------------------------------------------------------------
// AdaptiveCompressor

struct AdScenario {
    switch: bool,
}

const AD_ALGOS: [Algorithm; 10] = [
    Algorithm::None,
    Algorithm::Zstd(1),
    Algorithm::Zstd(3),
    Algorithm::Zstd(9),
    Algorithm::SimdLz77,
    Algorithm::Lz4,
    Algorithm::Huffman,
    Algorithm::Rans,
    Algorithm::Dictionary,
    Algorithm::Hybrid,
];

impl Scenario for AdScenario {
    fn name(&self) -> String {
        format!("adaptive/{}", if self.switch { "switch" } else { "clean" })
    }
    fn budget(&self, tier: Tier) -> u64 {
        match tier {
            Tier::Quick => 2000,
            Tier::Thorough => 80_000,
        }
    }
    fn run(&self, cx: &mut Run) {
        zsim_core::hooks::reset();
        let cfg = cx.src.chan("cfg");
        let config = AdaptiveConfig {
            learning_window: *cfg.pick(&[1000usize, 1, 2, 5]),
            min_operations: *cfg.pick(&[50usize, 0, 1, 3]),
            evaluation_interval: *cfg.pick(&[100usize, 1, 2]),
            switch_threshold: *cfg.pick(&[0.1f64, 0.0, -1.0]),
            aggressive_learning: cfg.chance(1, 2),
            test_sample_size: 10,
        };
        let planned = 3 + cfg.below(10);
        let mut ops = cx.src.ops("ops", planned);
        cx.ev(format!(
            "AdaptiveCompressor learning_window={} min_operations={} evaluation_interval={} switch_threshold={} aggressive_learning={}",
            config.learning_window, config.min_operations, config.evaluation_interval, config.switch_threshold, config.aggressive_learning
        ));
        let mut ac = match AdaptiveCompressor::new(config, PerformanceRequirements::default()) {
            Ok(a) => a,
            Err(e) => {
                cx.ev(format!("AdaptiveCompressor::new refused: {}", e));
                return;
            }
        };
        // The compressor starts on Lz4 (an optional cargo feature).  Part of the configuration of
        // a run is the algorithm it is put on *before* any payload is compressed; that is not a
        // switch in the sense of the oracle (no output exists yet).
        let initial = cfg.biased_zero(7, 2, 3) as usize;
        if initial > 0 {
            let a = AD_ALGOS[initial - 1];
            match ac.set_algorithm(a) {
                Ok(()) => cx.ev(format!("initial set_algorithm({:?}) -> Ok", a)),
                Err(e) => cx.ev(format!("initial set_algorithm({:?}) -> refused: {}", a, e)),
            }
        }
        let mut outs: Vec<Out> = vec![];
        let mut next_id = 0u64;
        let mut epoch = 0u64;
        let mut checked = 0u64;
        let mut n_ops = 0u64;
        while let Some(o) = ops.next() {
            n_ops += 1;
            let nkinds = if self.switch { 7 } else { 6 };
            let k = o[0] % nkinds;
            let algo_now = format!("{:?}", ac.current_algorithm());
            let mut to_check: Option<(usize, &str)> = None;
            match k {
                0 | 1 | 2 => {
                    let id = next_id;
                    next_id += 1;
                    let (p, kind) = match outs.last() {
                        Some(prev) if o[3] % 4 == 0 => variant(&prev.payload, o[3] / 4, o[2]),
                        _ => payload(id, o[1], o[2]),
                    };
                    if kind.ends_with("changed") || kind == "same-again" {
                        cx.probe("payload_derived_from_previous");
                    }
                    cx.ev(format!("compress p{}({} B, {}) under {}", id, p.len(), kind, algo_now));
                    match ac.compress(&p) {
                        Ok(bytes) => {
                            cx.ev(format!("  -> Ok {} B ({})", bytes.len(), head(&bytes)));
                            cx.cell(format!("adaptive/{}/{}", algo_now, kind));
                            outs.push(Out { id, payload: p, bytes, epoch, path: "configured", algo: algo_now.clone() });
                            to_check = Some((outs.len() - 1, "right away"));
                        }
                        Err(e) => {
                            cx.probe("compress_refused");
                            cx.ev(format!("  -> refused: {}", e));
                        }
                    }
                }
                3 | 4 => {
                    if !outs.is_empty() {
                        to_check = Some(((o[1] as usize) % outs.len(), "later"));
                    }
                }
                5 => {
                    // train on one or two payloads that need not resemble anything compressed so far
                    let n = 1 + (o[1] % 2) as usize;
                    let mut samples: Vec<(Vec<u8>, &'static str)> = vec![];
                    for j in 0..n {
                        // non-empty samples (every trained codec documents "must not be empty");
                        // short or non-repetitive ones: the dictionary builder that train() runs
                        // is cubic on long repetitive samples, which would only cost time here
                        let sel = [2u64, 3, 4, 12, 9][((o[2] >> (3 * j)) % 5) as usize];
                        let (p, _) = payload(1000 + next_id + j as u64, sel, o[2].wrapping_add(j as u64));
                        samples.push((p, if j == 0 { "text" } else { "binary" }));
                    }
                    let refs: Vec<(&[u8], &str)> = samples.iter().map(|(p, t)| (p.as_slice(), *t)).collect();
                    let r = ac.train(&refs);
                    cx.probe("train");
                    cx.ev(format!("train on {} samples ({:?} B) -> {}", n, samples.iter().map(|s| s.0.len()).collect::<Vec<_>>(), if r.is_ok() { "Ok" } else { "Err" }));
                }
                _ => {
                    let mut a = AD_ALGOS[(o[1] % AD_ALGOS.len() as u64) as usize];
                    if a == Algorithm::Lz4 && !lz4_available() {
                        a = Algorithm::None;
                    }
                    match ac.set_algorithm(a) {
                        Ok(()) => {
                            epoch += 1;
                            cx.probe("set_algorithm");
                            cx.ev(format!("set_algorithm({:?}) -> Ok", a));
                        }
                        Err(e) => {
                            cx.probe("set_algorithm_refused");
                            cx.ev(format!("set_algorithm({:?}) -> refused: {}", a, e));
                        }
                    }
                }
            }
            if let Some((idx, when)) = to_check {
                let algo_now = format!("{:?}", ac.current_algorithm());
                let r = ac.decompress(&outs[idx].bytes).map_err(|e| e.to_string());
                checked += 1;
                let verdict = judge("AdaptiveCompressor", &outs[idx], epoch, &algo_now, &r);
                let txt = match (&r, &verdict) {
                    (_, None) => "Ok, equals payload".to_string(),
                    (Ok(b), Some(_)) => format!("Ok but {} B differ from payload", b.len()),
                    (Err(e), _) => format!("Err({})", e),
                };
                cx.ev(format!("  decompress out(p{}) {} under {} -> {}", outs[idx].id, when, algo_now, txt));
                if let Some((class, site, detail)) = verdict {
                    cx.probe(if outs[idx].epoch != epoch { "decode_failed_after_switch" } else { "decode_failed_same_config" });
                    cx.violate(&class, &site, detail);
                    break;
                }
            }
        }
        cx.steps = n_ops;
        cx.nontrivial = checked >= 1;
    }
}

fn main() {
    let mut spec = CheckSpec::new(
        "C02",
        "exploration",
        "seeded client histories (compress, compress_with_deadline, compress_batch, decompress of any earlier output, set_mode / set_algorithm, train) against \
         RealtimeCompressor (tokio paused clock; clock jumps at seeded reads of the shimmed Instant) and AdaptiveCompressor; payloads are workload, not search space; \
         non-trivial = at least one compress call returned Ok and its output was decoded and compared; distinct = distinct hash of (operations, observed results, clock jumps)",
    );
    spec.assumptions = vec![
        "only the front ends whose output depends on clock reads or on call history are decided here (RealtimeCompressor, AdaptiveCompressor); the per-algorithm codecs, HybridCompressor's raw fallback and PA-Zip are functions of the payload alone and are not searched".into(),
        "payload bytes 2..4 are zero so that an unframed payload handed to an LZ4/zstd decoder claims at most 64 KiB".into(),
        "the semaphore of RealtimeCompressor is never contended on a current_thread runtime: no await happens while a permit is held".into(),
        "AdaptiveCompressor reads std::time::Instant (not shimmed); its measurements only feed a log line, never the output".into(),
    ];
    spec.components = vec![
        ("compression::realtime::RealtimeCompressor", "real"),
        ("compression::adaptive::AdaptiveCompressor", "real"),
        ("compression::{NoCompressor,Lz4Compressor,ZstdCompressor,SimdLz77Compressor (Compressor impl)}", "real"),
        ("clock (zipora::verif::time::Instant)", "simulated: tokio paused clock + seeded monotone skew"),
        ("tokio runtime", "real, current_thread, start_paused"),
    ];
    spec.init = zsim_props::install_hooks;
    for family in [Family::Clean, Family::ClockJump, Family::Switch] {
        for mode in MODES {
            spec.scenarios.push(Box::new(RtScenario { mode, family }));
        }
    }
    spec.scenarios.push(Box::new(AdScenario { switch: false }));
    spec.scenarios.push(Box::new(AdScenario { switch: true }));
    zsim_core::driver::main(spec);
}
