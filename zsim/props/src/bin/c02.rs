//! C02 — compressor layer round trip, for the clock/history-dependent front ends.
//!
//! `RealtimeCompressor` decides per call, from reads of the (simulated) clock, whether the
//! output is produced by its configured algorithm, by the unframed `<64 B` pass-through or by
//! the no-op timeout fallback; `RealtimeCompressor::set_mode` and
//! `AdaptiveCompressor::set_algorithm` change the algorithm between calls.  The property
//! demands `decompress(compress(x)) == x` whatever was chosen.
//!
//! Engine: E2 (tokio current_thread runtime, paused clock, `zipora::verif::time::Instant`
//! skew jumps at seeded clock reads) + E5 (seeded histories against a trivial model: the
//! payload that went in).  Payloads are workload, not search space.

use std::cell::RefCell;
use std::sync::atomic::{AtomicBool, AtomicU64, Ordering};
use std::sync::{Arc, Mutex};
use std::time::Duration;
use zipora::compression::dict_zip::compression_types::{apply_fse_compression, fse_unzip_reference, fse_zip_reference, remove_fse_compression, FseCompressor, FseConfig};
use zipora::compression::dict_zip::{decode_match, decode_matches, encode_matches, BitReader, LocalMatcherConfig, Match as PzMatch, PaZipCompressor, PaZipCompressorConfig, SuffixArrayDictionary, SuffixArrayDictionaryConfig};
use zipora::compression::{compress_with_simd_lz77, decompress_with_simd_lz77, SimdLz77Compressor, SimdLz77Config};
use zipora::compression::realtime::RealtimeCompressorBuilder;
use zipora::compression::{AdaptiveCompressor, AdaptiveConfig, Algorithm, CompressionMode, Compressor, CompressorFactory, PerformanceRequirements, RealtimeCompressor, RealtimeConfig};
use zipora::entropy::rans::{ParallelX1, Rans64Encoder};
use zipora::memory::{SecureMemoryPool, SecurePoolConfig};
use zipora::verif::time::Instant as VInstant;
use zsim_core::{CheckSpec, Run, Scenario, Tier};

/// Is the optional `lz4` cargo feature compiled into this build of zipora?  Without it every
/// Lz4 call answers "not enabled" (an honest refusal).  `set_mode` / `set_algorithm` then do
/// not *switch to* Lz4 in the histories: a decode that fails only because the current
/// algorithm is not compiled in would say nothing about framing.  (A front end that starts on
/// Lz4 by construction is still exercised as it is.)
fn lz4_available() -> bool {
    static A: std::sync::OnceLock<bool> = std::sync::OnceLock::new();
    *A.get_or_init(|| CompressorFactory::create(Algorithm::Lz4, None).map(|c| c.compress(b"x").is_ok()).unwrap_or(false))
}

// ---------------------------------------------------------------------------------------
// payloads

const KIND_TABLE: [u64; 16] = [0, 1, 2, 3, 4, 5, 5, 6, 6, 7, 7, 7, 8, 3, 9, 10];
const KIND_NAME: [&str; 11] = ["empty", "one", "n63", "n64", "n65", "zeros", "text", "random", "few", "pow2", "large"];

/// Payload number `id` of a run.  Unique within the run (the id is in the first bytes) except
/// for the empty payload.  Bytes 2..4 are zero whenever they exist: a front end that hands
/// *unframed* bytes to an LZ4/zstd decoder makes that decoder read the first four bytes as a
/// length, and the harness wants that mis-decode to stay cheap (at most 64 KiB), not to
/// explore the decoder's allocation behaviour (that is C15's subject).
fn payload(id: u64, sel: u64, x: u64) -> (Vec<u8>, &'static str) {
    let kind = KIND_TABLE[(sel % 16) as usize] as usize;
    let len = match kind {
        0 => 0,
        1 => 1,
        2 => 63,
        3 => 64,
        4 => 65,
        5 => 100 + (x % 900) as usize,
        6 => 200 + (x % 400) as usize,
        7 => 70 + (x % 2000) as usize,
        // lengths that are powers of two, and payloads past the 10 000 B where
        // AdaptiveCompressor::calculate_hash stops sampling one byte in ten
        9 => 128 << (x % 6),
        10 => [9_999usize, 10_000, 10_001, 10_010, 16_384, 20_000][(x % 6) as usize],
        _ => 2 + (x % 7) as usize,
    };
    let mut v = Vec::with_capacity(len);
    let text = b"the quick brown fox jumps over the lazy dog; ";
    let mut s = x.wrapping_mul(0x9E37_79B9_7F4A_7C15) | 1;
    for i in 0..len {
        let b = match kind {
            5 => 0u8,
            7 => {
                s ^= s << 13;
                s ^= s >> 7;
                s ^= s << 17;
                (s >> 24) as u8
            }
            _ => text[i % text.len()],
        };
        v.push(b);
    }
    if len >= 4 {
        v[0] = id as u8;
        v[1] = (id >> 8) as u8;
        v[2] = 0;
        v[3] = 0;
    } else if len >= 1 {
        v[0] = id as u8;
    }
    (v, KIND_NAME[kind])
}

/// A payload derived from one submitted earlier in the run (duplicated records, retries,
/// fixed-layout records that differ in a trailing counter): the same bytes again, or the same
/// length with one byte changed.  Bytes 2..4 stay zero (see `payload`).
fn variant(prev: &[u8], sel: u64, x: u64) -> (Vec<u8>, &'static str) {
    let mut v = prev.to_vec();
    let n = v.len();
    match (sel % 3, n) {
        (0, _) | (_, 0) => (v, "same-again"),
        (1, _) => {
            v[n - 1] ^= 0xff;
            (v, "last-byte-changed")
        }
        _ => {
            let mut pos = (x as usize) % n;
            if pos == 2 || pos == 3 {
                pos = n - 1;
            }
            v[pos] ^= 1 + ((x >> 20) % 255) as u8;
            (v, "one-byte-changed")
        }
    }
}

fn head(b: &[u8]) -> String {
    let n = b.len().min(12);
    let mut s = String::new();
    for x in &b[..n] {
        s.push_str(&format!("{:02x}", x));
    }
    if b.len() > n {
        s.push_str("..");
    }
    s
}

/// One stored output of a compress call.
struct Out {
    id: u64,
    payload: Vec<u8>,
    bytes: Vec<u8>,
    /// number of algorithm switches that had happened when it was produced
    epoch: u64,
    /// how the front end says it produced it (see `RtScenario::run`)
    path: &'static str,
    /// algorithm configured in the front end when it was produced
    algo: String,
    /// may the output's bytes appear in event and detail text?  (HuffmanCompressor serialises its
    /// code table in `HashMap` iteration order: the bytes of a frame differ from process to
    /// process although its length and meaning do not)
    show_bytes: bool,
}

fn shown(o: &Out) -> String {
    if o.show_bytes {
        head(&o.bytes)
    } else {
        "bytes not shown".to_string()
    }
}

/// Compare one decode against the model.  Returns (class, site suffix, detail) on mismatch.
fn judge(front: &str, o: &Out, epoch_now: u64, algo_now: &str, got: &Result<Vec<u8>, String>) -> Option<(String, String, String)> {
    let class = if o.epoch == epoch_now { "roundtrip" } else { "roundtrip_after_switch" };
    match got {
        Ok(b) if *b == o.payload => None,
        Ok(b) => Some((
            class.to_string(),
            format!("{}.{}.wrong_bytes", front, o.path),
            format!(
                "payload p{} ({} B, {}) compressed under {} via {} to {} B ({}); decompress under {} returned Ok with {} different bytes ({}), first difference at byte {}",
                o.id,
                o.payload.len(),
                head(&o.payload),
                o.algo,
                o.path,
                o.bytes.len(),
                shown(o),
                algo_now,
                b.len(),
                head(b),
                b.iter().zip(o.payload.iter()).position(|(x, y)| x != y).unwrap_or(b.len().min(o.payload.len()))
            ),
        )),
        Err(e) => Some((
            class.to_string(),
            format!("{}.{}.err", front, o.path),
            format!(
                "payload p{} ({} B, {}) compressed under {} via {} to {} B ({}); decompress under {} failed: {}",
                o.id,
                o.payload.len(),
                head(&o.payload),
                o.algo,
                o.path,
                o.bytes.len(),
                shown(o),
                algo_now,
                e
            ),
        )),
    }
}

// ---------------------------------------------------------------------------------------
// RealtimeCompressor

const MODES: [CompressionMode; 4] = [CompressionMode::UltraLowLatency, CompressionMode::LowLatency, CompressionMode::Balanced, CompressionMode::HighCompression];

/// Order in which `set_mode` targets are drawn: the shrinker minimises towards index 0, and the
/// zstd-backed modes come before LowLatency so that minimal examples do not depend on whether
/// the optional `lz4` feature is compiled in.
const SWITCH_TARGETS: [CompressionMode; 4] = [CompressionMode::UltraLowLatency, CompressionMode::Balanced, CompressionMode::HighCompression, CompressionMode::LowLatency];

fn mode_name(m: CompressionMode) -> &'static str {
    match m {
        CompressionMode::UltraLowLatency => "UltraLowLatency",
        CompressionMode::LowLatency => "LowLatency",
        CompressionMode::Balanced => "Balanced",
        CompressionMode::HighCompression => "HighCompression",
    }
}

#[derive(Clone, Copy, PartialEq)]
enum Family {
    /// no clock jumps, deadlines in the future, no mode switch
    Clean,
    /// clock jumps at seeded clock reads and deadlines that may already have passed
    ClockJump,
    /// set_mode between calls, no clock jumps
    Switch,
}

struct RtScenario {
    mode: CompressionMode,
    family: Family,
}

/// State shared with the clock hook.
struct Clock {
    armed: AtomicBool,
    reads: AtomicU64,
    jumps: Mutex<Vec<(u64, u64)>>,
}

const JUMP_NS: [u64; 6] = [1_000, 1_000_000, 10_000_000, 100_000_000, 1_000_000_000, 10_000_000_000];
const DELTA_NS: [u64; 5] = [0, 1_000, 1_000_000, 100_000_000, 10_000_000_000];

struct RtState<'a> {
    cx: &'a mut Run,
    outs: Vec<Out>,
    next_id: u64,
    epoch: u64,
    /// mode whose algorithm is configured now (set_mode changes it; `RealtimeConfig::mode` stays)
    cur: CompressionMode,
    checked: u64,
    stop: bool,
}

impl Scenario for RtScenario {
    fn name(&self) -> String {
        format!(
            "realtime/{}/{}",
            mode_name(self.mode),
            match self.family {
                Family::Clean => "clean",
                Family::ClockJump => "clockjump",
                Family::Switch => "switch",
            }
        )
    }
    fn budget(&self, tier: Tier) -> u64 {
        match tier {
            Tier::Quick => 3000,
            Tier::Thorough => 180_000,
        }
    }
    fn run(&self, cx: &mut Run) {
        zsim_core::hooks::reset();
        let cfg = cx.src.chan("cfg");
        let max_concurrent = 1 + cfg.below(2) as usize;
        let nclients = 1 + cfg.biased_zero(3, 1, 2) as usize;
        let no_fallback = cfg.chance(1, 3);
        let deadlines_off = cfg.chance(1, 4);
        let jump_den = *cfg.pick(&[2u64, 4, 8]);
        let planned = 3 + cfg.below(8);
        // how the compressor is built: RealtimeCompressor::new(config), the builder, or with_mode
        // (which takes every other setting from RealtimeConfig::default(): deadlines and fallback on)
        let ctor = cfg.biased_zero(3, 1, 3);
        let (no_fallback, deadlines_off) = if ctor == 2 { (false, false) } else { (no_fallback, deadlines_off) };
        let mut ops = cx.src.ops("ops", planned);
        let mut per_client: Vec<Vec<[u64; 4]>> = vec![vec![]; nclients];
        let mut n_ops = 0u64;
        while let Some(o) = ops.next() {
            per_client[(o[3] % nclients as u64) as usize].push(o);
            n_ops += 1;
        }
        let family = self.family;
        let base_mode = self.mode;
        let config = RealtimeConfig { mode: base_mode, max_concurrent, enable_deadlines: !deadlines_off, fallback_on_timeout: !no_fallback, batch_size: 10, batch_timeout: Duration::from_millis(1) };
        cx.ev(format!(
            "RealtimeCompressor{} mode={} max_concurrent={} enable_deadlines={} fallback_on_timeout={} clients={}",
            ["::new", "Builder", "::with_mode"][ctor as usize],
            mode_name(base_mode),
            if ctor == 2 { "default".to_string() } else { max_concurrent.to_string() },
            !deadlines_off,
            !no_fallback,
            nclients
        ));

        let clock = Arc::new(Clock { armed: AtomicBool::new(false), reads: AtomicU64::new(0), jumps: Mutex::new(vec![]) });
        if family == Family::ClockJump {
            let fault = cx.src.chan("fault");
            let c = clock.clone();
            zsim_core::hooks::set_skew_fn(Some(Box::new(move || {
                if !c.armed.load(Ordering::SeqCst) {
                    return 0;
                }
                let k = c.reads.fetch_add(1, Ordering::SeqCst) + 1;
                if fault.chance(1, jump_den) {
                    let ns = JUMP_NS[fault.below(JUMP_NS.len() as u64) as usize];
                    c.jumps.lock().unwrap().push((k, ns));
                    ns
                } else {
                    0
                }
            })));
        }

        let rt = tokio::runtime::Builder::new_current_thread().enable_all().start_paused(true).build().expect("tokio runtime");
        let made = match ctor {
            0 => RealtimeCompressor::new(config),
            1 => RealtimeCompressorBuilder::new().mode(base_mode).max_concurrent(max_concurrent).enable_deadlines(!deadlines_off).fallback_on_timeout(!no_fallback).batch_size(10).build(),
            _ => RealtimeCompressor::with_mode(base_mode),
        };
        let rc = match made {
            Ok(r) => r,
            Err(e) => {
                cx.ev(format!("RealtimeCompressor::new refused: {}", e));
                zsim_core::hooks::reset();
                return;
            }
        };
        let st = RefCell::new(RtState { cx, outs: vec![], next_id: 0, epoch: 0, cur: base_mode, checked: 0, stop: false });
        let st = &st;
        let rc = &rc;
        let clock_ref = &clock;

        // clock bookkeeping around one zipora call
        let arm = || {
            clock_ref.reads.store(0, Ordering::SeqCst);
            clock_ref.armed.store(true, Ordering::SeqCst);
        };
        let disarm = || -> String {
            clock_ref.armed.store(false, Ordering::SeqCst);
            let reads = clock_ref.reads.load(Ordering::SeqCst);
            let jumps: Vec<(u64, u64)> = clock_ref.jumps.lock().unwrap().drain(..).collect();
            let mut s = st.borrow_mut();
            for _ in &jumps {
                s.cx.fault("clock_jump");
            }
            if family != Family::ClockJump {
                return String::new();
            }
            let js: Vec<String> = jumps.iter().map(|(k, ns)| format!("read#{} +{}us", k, ns / 1000)).collect();
            format!(" [clock reads={} jumps: {}]", reads, if js.is_empty() { "none".to_string() } else { js.join(", ") })
        };

        // decode one stored output now and compare with the model
        let check = |idx: usize, when: &'static str| {
            let (bytes, id) = {
                let s = st.borrow();
                (s.outs[idx].bytes.clone(), s.outs[idx].id)
            };
            async move {
                let r = rc.decompress(&bytes).await.map_err(|e| e.to_string());
                let mut s = st.borrow_mut();
                let algo_now = format!("{:?}", s.cur.preferred_algorithm());
                let epoch = s.epoch;
                s.checked += 1;
                let verdict = judge("RealtimeCompressor", &s.outs[idx], epoch, &algo_now, &r);
                let txt = match (&r, &verdict) {
                    (_, None) => "Ok, equals payload".to_string(),
                    (Ok(b), Some(_)) => format!("Ok but {} B differ from payload", b.len()),
                    (Err(e), _) => format!("Err({})", e),
                };
                s.cx.ev(format!("  decompress out(p{}) {} under {} -> {}", id, when, algo_now, txt));
                if let Some((class, site, detail)) = verdict {
                    let switched = s.outs[idx].epoch != epoch;
                    s.cx.probe(if switched { "decode_failed_after_switch" } else { "decode_failed_same_config" });
                    s.cx.violate(&class, &site, detail);
                    s.stop = true;
                }
            }
        };

        let client = |me: usize, list: Vec<[u64; 4]>| async move {
            for o in list {
                if st.borrow().stop {
                    return;
                }
                // seeded virtual delay before the call (tokio timers have 1 ms granularity)
                let delay = (o[3] / 8) % 3;
                if delay > 0 {
                    tokio::time::sleep(Duration::from_millis(delay)).await;
                }
                if st.borrow().stop {
                    return;
                }
                let nkinds = if family == Family::Switch { 6 } else { 5 };
                let k = o[0] % nkinds;
                match k {
                    // compress / compress_with_deadline
                    0 | 1 | 2 => {
                        let (p, kind, id) = {
                            let mut s = st.borrow_mut();
                            let id = s.next_id;
                            s.next_id += 1;
                            let (p, kind) = match s.outs.last() {
                                Some(prev) if o[3] % 4 == 0 => variant(&prev.payload, o[3] / 4, o[2]),
                                _ => payload(id, o[1], o[2]),
                            };
                            (p, kind, id)
                        };
                        let fb0 = rc.stats().fallback_operations;
                        let lo = if family == Family::ClockJump { 0 } else { 1 };
                        let d = DELTA_NS[lo + ((o[2] / 4096) as usize) % (DELTA_NS.len() - lo)];
                        let call = if k == 0 { "compress".to_string() } else { format!("compress_with_deadline(now+{}us)", d / 1000) };
                        let (cur, algo) = {
                            let mut s = st.borrow_mut();
                            let cur = s.cur;
                            let algo = format!("{:?}", cur.preferred_algorithm());
                            if k != 0 && d == 0 {
                                s.cx.probe("deadline_already_passed_at_call");
                            }
                            s.cx.ev(format!("c{} {} p{}({} B, {}) under {}", me, call, id, p.len(), kind, algo));
                            (cur, algo)
                        };
                        let (r, clk) = if k == 0 {
                            arm();
                            let r = rc.compress(&p).await;
                            (r, disarm())
                        } else {
                            let deadline = VInstant::now() + Duration::from_nanos(d);
                            arm();
                            let r = rc.compress_with_deadline(&p, deadline).await;
                            (r, disarm())
                        };
                        let fb = rc.stats().fallback_operations - fb0;
                        let mut s = st.borrow_mut();
                        match r {
                            Ok(bytes) => {
                                let path = if fb > 0 && no_fallback {
                                    // the configuration says a missed deadline is an error, never a fallback
                                    "timeout_fallback_although_disabled"
                                } else if fb > 0 {
                                    "timeout_fallback"
                                } else if p.len() < 64 && base_mode == CompressionMode::UltraLowLatency {
                                    "tiny_passthrough"
                                } else {
                                    "configured"
                                };
                                s.cx.probe(&format!("path_{}", path));
                                s.cx.cell(format!("realtime/{}/{}/{}", mode_name(cur), kind, path));
                                s.cx.ev(format!("  -> Ok {} B ({}) via {}{}", bytes.len(), head(&bytes), path, clk));
                                let epoch = s.epoch;
                                s.outs.push(Out { id, payload: p, bytes, epoch, path, algo, show_bytes: true });
                                let idx = s.outs.len() - 1;
                                drop(s);
                                check(idx, "right away").await;
                            }
                            Err(e) => {
                                s.cx.probe(if fb > 0 { "compress_refused_deadline" } else { "compress_refused_other" });
                                s.cx.ev(format!("  -> refused: {}{}", e, clk));
                            }
                        }
                    }
                    // compress_batch of 1..3 payloads
                    3 => {
                        // 1..3 items as before; every eighth batch has 0, 4 or 5
                        let n = if o[1] % 8 == 7 { [0usize, 4, 5, 0][((o[1] / 8) % 4) as usize] } else { 1 + (o[1] % 3) as usize };
                        let mut ps: Vec<(Vec<u8>, &'static str, u64)> = vec![];
                        {
                            let mut s = st.borrow_mut();
                            for j in 0..n {
                                let id = s.next_id;
                                s.next_id += 1;
                                // an item may be the previous item of the same batch again, or differ from it in one byte
                                let (p, kind) = match ps.last() {
                                    Some(prev) if (o[3] >> (2 * j)) % 4 == 3 => variant(&prev.0, o[3] >> 10, o[2]),
                                    _ => payload(id, o[2] >> (4 * j), o[2].wrapping_mul(31).wrapping_add(j as u64)),
                                };
                                ps.push((p, kind, id));
                            }
                        }
                        if n == 0 {
                            st.borrow_mut().cx.probe("empty_batch");
                        }
                        let fb0 = rc.stats().fallback_operations;
                        let (cur, algo) = {
                            let mut s = st.borrow_mut();
                            let cur = s.cur;
                            let algo = format!("{:?}", cur.preferred_algorithm());
                            let desc: Vec<String> = ps.iter().map(|(p, kind, id)| format!("p{}({} B, {})", id, p.len(), kind)).collect();
                            s.cx.ev(format!("c{} compress_batch [{}] under {}", me, desc.join(", "), algo));
                            (cur, algo)
                        };
                        arm();
                        let r = rc.compress_batch(ps.iter().map(|x| x.0.as_slice()).collect()).await;
                        let clk = disarm();
                        let fb = rc.stats().fallback_operations - fb0;
                        let mut s = st.borrow_mut();
                        match r {
                            Ok(results) => {
                                if results.len() > ps.len() {
                                    s.cx.violate("roundtrip", "RealtimeCompressor.compress_batch.extra_outputs", format!("{} items in, {} outputs", ps.len(), results.len()));
                                    s.stop = true;
                                    return;
                                }
                                if results.len() < ps.len() {
                                    s.cx.probe("batch_truncated_at_deadline");
                                }
                                s.cx.ev(format!("  -> Ok {} outputs, {} by timeout fallback{}", results.len(), fb, clk));
                                let nres = results.len();
                                let mut idxs = vec![];
                                for (j, bytes) in results.into_iter().enumerate() {
                                    let (p, kind, id) = ps[j].clone();
                                    // the clock is monotone and the batch stops at the first missed
                                    // deadline, so only the last output can come from the fallback
                                    let path = if fb > 0 && j + 1 == nres && no_fallback {
                                        "timeout_fallback_although_disabled"
                                    } else if fb > 0 && j + 1 == nres {
                                        "timeout_fallback"
                                    } else if fb > 1 {
                                        "unknown_path"
                                    } else if p.len() < 64 && base_mode == CompressionMode::UltraLowLatency {
                                        "tiny_passthrough"
                                    } else {
                                        "configured"
                                    };
                                    s.cx.probe(&format!("path_{}", path));
                                    s.cx.cell(format!("realtime/{}/batch-{}/{}", mode_name(cur), kind, path));
                                    let epoch = s.epoch;
                                    s.outs.push(Out { id, payload: p, bytes, epoch, path, algo: algo.clone(), show_bytes: true });
                                    idxs.push(s.outs.len() - 1);
                                }
                                drop(s);
                                for idx in idxs {
                                    if st.borrow().stop {
                                        return;
                                    }
                                    check(idx, "right away").await;
                                }
                            }
                            Err(e) => {
                                s.cx.probe(if fb > 0 { "compress_refused_deadline" } else { "compress_refused_other" });
                                s.cx.ev(format!("  -> refused: {}{}", e, clk));
                            }
                        }
                    }
                    // decompress an earlier output
                    4 => {
                        let n = st.borrow().outs.len();
                        if n > 0 {
                            let idx = (o[1] as usize) % n;
                            check(idx, "later").await;
                        }
                    }
                    // set_mode (switch family only)
                    _ => {
                        let m = SWITCH_TARGETS[(o[1] % if lz4_available() { 4 } else { 3 }) as usize];
                        let r = rc.set_mode(m);
                        let mut s = st.borrow_mut();
                        match r {
                            Ok(()) => {
                                s.epoch += 1;
                                s.cur = m;
                                s.cx.probe("set_mode");
                                s.cx.ev(format!("c{} set_mode({}) -> Ok, algorithm now {:?}", me, mode_name(m), m.preferred_algorithm()));
                            }
                            Err(e) => s.cx.ev(format!("c{} set_mode({}) -> refused: {}", me, mode_name(m), e)),
                        }
                    }
                }
            }
        };

        let t0 = tokio::time::Instant::now();
        let sim_ms = rt.block_on(async {
            let futs: Vec<_> = per_client.into_iter().enumerate().map(|(me, list)| client(me, list)).collect();
            futures::future::join_all(futs).await;
            t0.elapsed().as_millis() as u64
        });
        zsim_core::hooks::reset();
        let mut s = st.borrow_mut();
        let checked = s.checked;
        s.cx.steps = n_ops;
        s.cx.sim_ms = sim_ms;
        s.cx.nontrivial = checked >= 1;
    }
}

// ---------------------------------------------------------------------------------------
// AdaptiveCompressor

struct AdScenario {
    switch: bool,
}

const AD_ALGOS: [Algorithm; 10] = [
    Algorithm::None,
    Algorithm::Zstd(1),
    Algorithm::Zstd(3),
    Algorithm::Zstd(9),
    Algorithm::SimdLz77,
    Algorithm::Lz4,
    Algorithm::Huffman,
    Algorithm::Rans,
    Algorithm::Dictionary,
    Algorithm::Hybrid,
];

impl Scenario for AdScenario {
    fn name(&self) -> String {
        format!("adaptive/{}", if self.switch { "switch" } else { "clean" })
    }
    fn budget(&self, tier: Tier) -> u64 {
        match tier {
            Tier::Quick => 2000,
            Tier::Thorough => 80_000,
        }
    }
    fn run(&self, cx: &mut Run) {
        zsim_core::hooks::reset();
        let cfg = cx.src.chan("cfg");
        let config = AdaptiveConfig {
            learning_window: *cfg.pick(&[1000usize, 1, 2, 5]),
            min_operations: *cfg.pick(&[50usize, 0, 1, 3]),
            evaluation_interval: *cfg.pick(&[100usize, 1, 2]),
            switch_threshold: *cfg.pick(&[0.1f64, 0.0, -1.0]),
            aggressive_learning: cfg.chance(1, 2),
            test_sample_size: 10,
        };
        // histories long enough for the evaluation windows (>= 5 measurements per algorithm,
        // every fifth evaluation under aggressive learning) to fill
        let planned = 3 + cfg.below(16);
        let req_kind = cfg.below(4);
        let default_ctor = cfg.chance(1, 6);
        let config = if default_ctor { AdaptiveConfig::default() } else { config };
        let requirements = match req_kind {
            0 => PerformanceRequirements::default(),
            1 => PerformanceRequirements { max_latency: Duration::ZERO, ..Default::default() },
            2 => PerformanceRequirements { speed_vs_quality: 1.0, target_ratio: 0.0, ..Default::default() },
            _ => PerformanceRequirements { speed_vs_quality: 0.0, max_memory: 0, ..Default::default() },
        };
        let mut ops = cx.src.ops("ops", planned);
        cx.ev(format!(
            "AdaptiveCompressor{} learning_window={} min_operations={} evaluation_interval={} switch_threshold={} aggressive_learning={} requirements={}",
            if default_ctor { "::default_with_requirements" } else { "::new" },
            config.learning_window,
            config.min_operations,
            config.evaluation_interval,
            config.switch_threshold,
            config.aggressive_learning,
            ["default", "max_latency=0", "quality-only", "speed-only, max_memory=0"][req_kind as usize]
        ));
        let made = if default_ctor { AdaptiveCompressor::default_with_requirements(requirements.clone()) } else { AdaptiveCompressor::new(config, requirements.clone()) };
        let mut ac = match made {
            Ok(a) => a,
            Err(e) => {
                cx.ev(format!("AdaptiveCompressor::new refused: {}", e));
                return;
            }
        };
        // The compressor starts on Lz4 (an optional cargo feature).  Part of the configuration of
        // a run is the algorithm it is put on *before* any payload is compressed; that is not a
        // switch in the sense of the oracle (no output exists yet).
        // (without the lz4 feature a compressor left on its initial algorithm refuses every call:
        // keep that honest-refusal configuration, but rarely)
        let initial = if lz4_available() { cfg.biased_zero(7, 2, 3) } else { cfg.biased_zero(7, 9, 10) } as usize;
        if initial > 0 {
            let a = AD_ALGOS[initial - 1];
            match ac.set_algorithm(a) {
                Ok(()) => cx.ev(format!("initial set_algorithm({:?}) -> Ok", a)),
                Err(e) => cx.ev(format!("initial set_algorithm({:?}) -> refused: {}", a, e)),
            }
        }
        let mut outs: Vec<Out> = vec![];
        let mut next_id = 0u64;
        let mut epoch = 0u64;
        let mut checked = 0u64;
        let mut n_ops = 0u64;
        while let Some(o) = ops.next() {
            n_ops += 1;
            let nkinds = if self.switch { 9 } else { 8 };
            let k = o[0] % nkinds;
            let algo_now = format!("{:?}", ac.current_algorithm());
            let mut to_check: Option<(usize, &str)> = None;
            // half of the calls go through the `Compressor` trait object (how HybridCompressor-like
            // containers and the blob stores hold a compressor)
            let via_trait = (o[3] / 16) % 2 == 1;
            match k {
                0 | 1 | 2 => {
                    let id = next_id;
                    next_id += 1;
                    let (p, kind) = match outs.last() {
                        Some(prev) if o[3] % 4 == 0 => variant(&prev.payload, o[3] / 4, o[2]),
                        _ => payload(id, o[1], o[2]),
                    };
                    if kind.ends_with("changed") || kind == "same-again" {
                        cx.probe("payload_derived_from_previous");
                    }
                    cx.ev(format!("compress p{}({} B, {}) under {}{}", id, p.len(), kind, algo_now, if via_trait { " via dyn Compressor" } else { "" }));
                    let r = if via_trait { (&ac as &dyn Compressor).compress(&p) } else { ac.compress(&p) };
                    match r {
                        Ok(bytes) => {
                            cx.ev(format!("  -> Ok {} B ({})", bytes.len(), head(&bytes)));
                            cx.cell(format!("adaptive/{}/{}", algo_now, kind));
                            outs.push(Out { id, payload: p, bytes, epoch, path: "configured", algo: algo_now.clone(), show_bytes: true });
                            to_check = Some((outs.len() - 1, "right away"));
                        }
                        Err(e) => {
                            cx.probe("compress_refused");
                            cx.ev(format!("  -> refused: {}", e));
                        }
                    }
                }
                3 | 4 => {
                    if !outs.is_empty() {
                        to_check = Some(((o[1] as usize) % outs.len(), "later"));
                    }
                }
                5 => {
                    // train on one or two payloads that need not resemble anything compressed so far
                    let n = 1 + (o[1] % 2) as usize;
                    let mut samples: Vec<(Vec<u8>, &'static str)> = vec![];
                    for j in 0..n {
                        // non-empty samples (every trained codec documents "must not be empty");
                        // short or non-repetitive ones: the dictionary builder that train() runs
                        // is cubic on long repetitive samples, which would only cost time here
                        let sel = [2u64, 3, 4, 12, 9][((o[2] >> (3 * j)) % 5) as usize];
                        let (p, _) = payload(1000 + next_id + j as u64, sel, o[2].wrapping_add(j as u64));
                        samples.push((p, if j == 0 { "text" } else { "binary" }));
                    }
                    let refs: Vec<(&[u8], &str)> = samples.iter().map(|(p, t)| (p.as_slice(), *t)).collect();
                    let r = ac.train(&refs);
                    cx.probe("train");
                    cx.ev(format!("train on {} samples ({:?} B) -> {}", n, samples.iter().map(|s| s.0.len()).collect::<Vec<_>>(), if r.is_ok() { "Ok" } else { "Err" }));
                }
                6 => {
                    // Compressor::estimate_ratio (default method: compresses the first 1024 bytes of a
                    // longer payload through the front end, which counts as an operation of the
                    // learning history) and is_suitable, between real calls
                    let (p, kind) = match outs.last() {
                        Some(prev) if o[3] % 2 == 0 => (prev.payload.clone(), "payload of the last output"),
                        _ => payload(2000 + next_id, o[1], o[2]),
                    };
                    let d: &dyn Compressor = &ac;
                    let ratio = d.estimate_ratio(&p);
                    let suitable = d.is_suitable(&requirements, p.len());
                    cx.probe("estimate_ratio");
                    if p.len() > 1024 {
                        cx.probe("estimate_ratio_compressed_a_sample");
                    }
                    cx.ev(format!("estimate_ratio({} B, {}) -> {}; is_suitable -> {}; algorithm() -> {:?}", p.len(), kind, if ratio.is_finite() { "finite" } else { "not finite" }, suitable, d.algorithm()));
                }
                7 => {
                    let st = ac.stats();
                    let pr = ac.profiles();
                    cx.ev(format!("stats: operations={} bytes_processed={}; profiles: {}", st.operations, st.bytes_processed, pr.len()));
                }
                _ => {
                    let mut a = AD_ALGOS[(o[1] % AD_ALGOS.len() as u64) as usize];
                    if a == Algorithm::Lz4 && !lz4_available() {
                        a = Algorithm::None;
                    }
                    match ac.set_algorithm(a) {
                        Ok(()) => {
                            epoch += 1;
                            cx.probe("set_algorithm");
                            cx.ev(format!("set_algorithm({:?}) -> Ok", a));
                        }
                        Err(e) => {
                            cx.probe("set_algorithm_refused");
                            cx.ev(format!("set_algorithm({:?}) -> refused: {}", a, e));
                        }
                    }
                }
            }
            if let Some((idx, when)) = to_check {
                let algo_now = format!("{:?}", ac.current_algorithm());
                let r = if via_trait { (&ac as &dyn Compressor).decompress(&outs[idx].bytes) } else { ac.decompress(&outs[idx].bytes) }.map_err(|e| e.to_string());
                checked += 1;
                let verdict = judge("AdaptiveCompressor", &outs[idx], epoch, &algo_now, &r);
                let txt = match (&r, &verdict) {
                    (_, None) => "Ok, equals payload".to_string(),
                    (Ok(b), Some(_)) => format!("Ok but {} B differ from payload", b.len()),
                    (Err(e), _) => format!("Err({})", e),
                };
                cx.ev(format!("  decompress out(p{}) {} under {} -> {}", outs[idx].id, when, algo_now, txt));
                if let Some((class, site, detail)) = verdict {
                    cx.probe(if outs[idx].epoch != epoch { "decode_failed_after_switch" } else { "decode_failed_same_config" });
                    cx.violate(&class, &site, detail);
                    break;
                }
            }
        }
        cx.steps = n_ops;
        cx.nontrivial = checked >= 1;
    }
}

// =======================================================================================
// Part 2 — the codecs behind the front ends: every compressor of the factory (trained on a
// corpus that need not resemble the payload), the Hybrid raw fallback, PA-Zip, the PA-Zip match
// codec and the FSE stage.  These are functions of (training corpus, payload, call history on
// the object); the histories below keep the *relations* between corpus, consecutive payloads
// and earlier outputs varied (same again, one byte changed, slice of the corpus, corpus plus a
// foreign byte, an earlier output fed back in as a payload, boundary lengths).

struct Xs(u64);
impl Xs {
    fn new(x: u64) -> Xs {
        Xs(x.wrapping_mul(0x9E37_79B9_7F4A_7C15) | 1)
    }
    fn next(&mut self) -> u64 {
        let mut s = self.0;
        s ^= s << 13;
        s ^= s >> 7;
        s ^= s << 17;
        self.0 = s;
        s >> 11
    }
    fn byte(&mut self) -> u8 {
        (self.next() >> 9) as u8
    }
}

const CORPUS_NAME: [&str; 7] = ["text", "few", "single", "all256", "random", "records", "runs"];

/// Training corpus / payload body of one of seven shapes.
fn corpus(kind: usize, len: usize, x: u64) -> Vec<u8> {
    let text = b"the quick brown fox jumps over the lazy dog; ";
    let mut r = Xs::new(x);
    let mut v = Vec::with_capacity(len);
    match kind % 7 {
        0 => {
            let off = (x % text.len() as u64) as usize;
            for i in 0..len {
                v.push(text[(off + i) % text.len()]);
            }
        }
        1 => {
            for _ in 0..len {
                v.push(b"abc"[(r.next() % 3) as usize]);
            }
        }
        2 => v.resize(len, (x >> 4) as u8),
        3 => {
            for i in 0..len {
                v.push((x as u8).wrapping_add(i as u8));
            }
        }
        4 => {
            for _ in 0..len {
                v.push(r.byte());
            }
        }
        5 => {
            let mut n = 0u32;
            while v.len() < len {
                let rec = [b'I', b'D', n as u8, (n >> 8) as u8, 0, 0, b'v', b'a', b'l', b'u', b'e', b'=', x as u8, 0, 0, b'\n'];
                for b in rec {
                    if v.len() < len {
                        v.push(b);
                    }
                }
                n += 1;
            }
        }
        _ => {
            while v.len() < len {
                let b = b'A' + r.byte() % 5;
                let run = 1 + (r.next() % 40) as usize;
                for _ in 0..run {
                    if v.len() < len {
                        v.push(b);
                    }
                }
            }
        }
    }
    v
}

const BOUNDARY_LEN: [usize; 38] =
    [2, 3, 4, 5, 6, 7, 8, 15, 16, 17, 31, 32, 33, 34, 35, 36, 63, 64, 65, 127, 128, 129, 255, 256, 257, 258, 259, 260, 511, 512, 513, 1023, 1024, 1025, 2047, 2048, 4096, 4097];

/// A byte that does not occur in `t` (None when all 256 occur).
fn foreign_byte(t: &[u8], x: u64) -> Option<u8> {
    let mut seen = [false; 256];
    for &b in t {
        seen[b as usize] = true;
    }
    (0..256usize).map(|i| ((i as u64 + x) % 256) as u8).find(|&b| !seen[b as usize])
}

/// Payload of a Part-2 history.  `o` are the op's numbers 1..3 (each < 2^20).  Nothing here is
/// unique per payload on purpose: two payloads of a run may be equal, share a prefix, or differ
/// in one byte; a payload may be the training corpus, a piece of it, or an earlier output.
fn pay2(o: [u64; 4], training: &[u8], prev: Option<&[u8]>, prev_out: Option<&[u8]>, big: usize) -> (Vec<u8>, String) {
    let sel = o[1] % 22;
    let x = o[2];
    let y = o[3];
    let blen = BOUNDARY_LEN[(x % BOUNDARY_LEN.len() as u64) as usize];
    match sel {
        0 => (vec![], "empty".into()),
        1 => (vec![x as u8], "one".into()),
        2 | 3 | 4 => {
            let k = (y % 7) as usize;
            (corpus(k, blen, x >> 6), format!("{}-boundary", CORPUS_NAME[k]))
        }
        5 => (corpus(0, 200 + (x % 400) as usize, y), "text".into()),
        6 => (corpus(4, 70 + (x % 2000) as usize, y), "random".into()),
        7 => (corpus(2, 100 + (x % 900) as usize, 0), "zeros".into()),
        8 if training.len() <= big => (training.to_vec(), "corpus-exact".into()),
        8 | 9 => {
            // (a slice of at most `big` bytes from anywhere in the corpus; x and y are below 2^20)
            let n = training.len();
            let a = ((x as usize) * 7919 + (y as usize)) % (n + 1);
            let l = (y as usize) % (n - a + 1).min(big + 1);
            (training[a..a + l].to_vec(), "corpus-slice".into())
        }
        10 => {
            let mut v = training[..training.len().min(big)].to_vec();
            match foreign_byte(training, x) {
                Some(b) => {
                    let pos = (y as usize) % (v.len() + 1);
                    v.insert(pos, b);
                    (v, "corpus-plus-foreign-byte".into())
                }
                None => (v, "corpus-exact".into()),
            }
        }
        11 => {
            let mut v = training.to_vec();
            v.extend_from_slice(training);
            v.truncate(big);
            (v, "corpus-twice".into())
        }
        12 => {
            // the corpus' alphabet under a different distribution
            let mut r = Xs::new(x);
            let n = 1 + (y % 600) as usize;
            let v = if training.is_empty() { vec![] } else { (0..n).map(|_| training[(r.next() % training.len() as u64) as usize]).collect() };
            (v, "corpus-alphabet-shuffled".into())
        }
        13 | 14 => match prev {
            Some(p) => {
                let (v, k) = variant_free(p, y, x);
                (v, k.to_string())
            }
            None => (corpus(0, blen, x), "text-boundary".into()),
        },
        15 => match prev_out {
            Some(b) if b.len() <= big => (b.to_vec(), "earlier-output-as-payload".into()),
            _ => (corpus(5, blen, x), "records-boundary".into()),
        },
        16 => {
            let b = if y % 2 == 0 && !training.is_empty() { training[0] } else { y as u8 };
            (vec![b; blen], "run-boundary".into())
        }
        17 => {
            let (a, b) = (x as u8, (x >> 8) as u8);
            ((0..blen).map(|i| if i % 2 == 0 { a } else { b }).collect(), "two-symbols".into())
        }
        18 => (corpus(3, if y % 2 == 0 { 256 } else { 512 }, x), "all-256-values".into()),
        19 => {
            // a long run followed by noise (RLE then literals)
            let mut v = vec![x as u8; 30 + (y % 300) as usize];
            v.extend_from_slice(&corpus(4, (x % 64) as usize, y));
            (v, "run-then-noise".into())
        }
        20 => {
            // a text whose second half repeats the first (local matches at a distance)
            let half = corpus(0, 20 + (x % 300) as usize, y);
            let mut v = half.clone();
            v.extend_from_slice(&corpus(4, (y % 9) as usize, x));
            v.extend_from_slice(&half);
            (v, "repeat-at-distance".into())
        }
        _ => {
            if big > 5000 && y % 4 == 0 {
                let n = [65535usize, 65536, 65537, 70000, 9000, 33000][(x % 6) as usize].min(big);
                (corpus((y / 4 % 7) as usize, n, x), "large".into())
            } else {
                (corpus(6, 300 + (x % 3000) as usize % big.max(1), y), "runs".into())
            }
        }
    }
}

/// Like `variant`, without the reserved bytes 2..4.
fn variant_free(prev: &[u8], sel: u64, x: u64) -> (Vec<u8>, &'static str) {
    let mut v = prev.to_vec();
    let n = v.len();
    match (sel % 5, n) {
        (0, _) | (_, 0) => (v, "same-again"),
        (1, _) => {
            v[n - 1] ^= 0xff;
            (v, "last-byte-changed")
        }
        (2, _) => {
            v[(x as usize) % n] ^= 1 + ((x >> 12) % 255) as u8;
            (v, "one-byte-changed")
        }
        (3, _) => {
            v.truncate(n - 1);
            (v, "last-byte-dropped")
        }
        _ => {
            v.push(x as u8);
            (v, "one-byte-appended")
        }
    }
}

fn report(cx: &mut Run, front: &str, o: &Out, epoch: u64, algo_now: &str, got: &Result<Vec<u8>, String>, when: &str) -> bool {
    report_as(cx, front, o, epoch, algo_now, got, when, None)
}

/// `class`: Some(..) when the decode went through another handle than the one that compressed.
fn report_as(cx: &mut Run, front: &str, o: &Out, epoch: u64, algo_now: &str, got: &Result<Vec<u8>, String>, when: &str, class: Option<&str>) -> bool {
    let verdict = judge(front, o, epoch, algo_now, got).map(|(c, s, d)| (class.map(|x| x.to_string()).unwrap_or(c), s, d));
    let txt = match (got, &verdict) {
        (_, None) => "Ok, equals payload".to_string(),
        (Ok(b), Some(_)) => format!("Ok but {} B differ from payload", b.len()),
        (Err(e), _) => format!("Err({})", e),
    };
    cx.ev(format!("  decompress out(p{}) {} -> {}", o.id, when, txt));
    if let Some((class, site, detail)) = verdict {
        cx.violate(&class, &site, detail);
        return false;
    }
    true
}

// ---------------------------------------------------------------------------------------
// CompressorFactory::create(algorithm, training)

/// A RansCompressor frame starts with 256 stored frequencies.  `decompress` rebuilds its
/// decoding table with `Rans64Encoder::new(&stored)`, which normalises its argument again.  Is
/// the stored table a fixed point of that normalisation?  (The answer only labels the finding.)
fn rans_table_is_stable(frame: &[u8]) -> bool {
    if frame.len() < 1024 {
        return true;
    }
    let mut f = [0u32; 256];
    for i in 0..256 {
        f[i] = u32::from_le_bytes([frame[4 * i], frame[4 * i + 1], frame[4 * i + 2], frame[4 * i + 3]]);
    }
    match Rans64Encoder::<ParallelX1>::new(&f) {
        Ok(e) => (0..256usize).all(|i| e.get_symbol(i as u8).freq == f[i]),
        Err(_) => true,
    }
}

#[derive(Clone, Copy, PartialEq)]
enum FAlgo {
    None,
    Lz4,
    Zstd,
    Huffman,
    Rans,
    Dictionary,
    SimdLz77,
    Hybrid,
    /// whatever `CompressorFactory::select_best(requirements, corpus)` answers
    SelectBest,
}

impl FAlgo {
    fn name(self) -> &'static str {
        match self {
            FAlgo::None => "None",
            FAlgo::Lz4 => "Lz4",
            FAlgo::Zstd => "Zstd",
            FAlgo::Huffman => "Huffman",
            FAlgo::Rans => "Rans",
            FAlgo::Dictionary => "Dictionary",
            FAlgo::SimdLz77 => "SimdLz77",
            FAlgo::Hybrid => "Hybrid",
            FAlgo::SelectBest => "select_best",
        }
    }
    fn trained(self) -> bool {
        matches!(self, FAlgo::Huffman | FAlgo::Rans | FAlgo::Dictionary | FAlgo::Hybrid | FAlgo::SelectBest)
    }
    /// the back-reference search of DictCompressor is quadratic in the payload
    fn big(self) -> usize {
        match self {
            FAlgo::Dictionary | FAlgo::Hybrid | FAlgo::SelectBest => 2600,
            _ => 70_000,
        }
    }
}

struct FactoryScenario {
    algo: FAlgo,
    /// only payloads that some component compressor shrinks (long and repetitive), so that the
    /// histories of `factory/Hybrid/compressible` run past the raw fallback
    compressible: bool,
}

/// Replace every byte that does not occur in `alphabet` by one that does (keeps the structure of
/// the payload, makes it encodable by a codec trained on `alphabet`).
fn project(p: &mut [u8], alphabet: &[u8]) {
    let mut seen = [false; 256];
    let mut syms: Vec<u8> = vec![];
    for &b in alphabet {
        if !seen[b as usize] {
            seen[b as usize] = true;
            syms.push(b);
        }
    }
    if syms.is_empty() {
        return;
    }
    for b in p.iter_mut() {
        if !seen[*b as usize] {
            *b = syms[*b as usize % syms.len()];
        }
    }
}

/// Long repetitive payloads over the corpus.
fn pay_compressible(o: [u64; 4], training: &[u8], prev: Option<&[u8]>) -> (Vec<u8>, String) {
    let x = o[2];
    let y = o[3];
    match o[1] % 8 {
        0 => (corpus(0, 1500 + (x % 1000) as usize, y), "long-text".into()),
        1 => (corpus(2, 1200 + (x % 1300) as usize, y), "long-run".into()),
        2 => (corpus(6, 1500 + (x % 1000) as usize, y), "long-runs".into()),
        3 => (corpus(1, 1500 + (x % 1000) as usize, y), "long-few".into()),
        4 => (corpus(5, 1500 + (x % 1000) as usize, y), "long-records".into()),
        5 => {
            let mut v = vec![];
            while v.len() < 1500 + (x % 1000) as usize && !training.is_empty() {
                v.extend_from_slice(training);
            }
            v.truncate(2600);
            (v, "corpus-repeated".into())
        }
        _ => match prev {
            Some(p) => {
                let (v, k) = variant_free(p, y, x);
                (v, k.to_string())
            }
            None => (corpus(0, 2000, x), "long-text".into()),
        },
    }
}

const TRAIN_LEN: [usize; 10] = [300, 1, 2, 3, 16, 64, 256, 257, 1000, 40];

impl Scenario for FactoryScenario {
    fn name(&self) -> String {
        if self.compressible {
            format!("factory/{}/compressible", self.algo.name())
        } else {
            format!("factory/{}", self.algo.name())
        }
    }
    fn budget(&self, tier: Tier) -> u64 {
        match (tier, self.algo) {
            (Tier::Quick, FAlgo::Hybrid) if self.compressible => 600,
            (Tier::Thorough, FAlgo::Hybrid) if self.compressible => 30_000,
            (Tier::Quick, FAlgo::Dictionary | FAlgo::Hybrid) => 1200,
            (Tier::Quick, FAlgo::SelectBest) => 800,
            (Tier::Quick, _) => 1500,
            (Tier::Thorough, FAlgo::Dictionary | FAlgo::Hybrid | FAlgo::SelectBest) => 60_000,
            (Tier::Thorough, _) => 90_000,
        }
    }
    fn run(&self, cx: &mut Run) {
        zsim_core::hooks::reset();
        let cfg = cx.src.chan("cfg");
        let tk = cfg.below(7) as usize;
        // (compressible: corpora with a small alphabet, so that the trained components shrink
        // the projected payloads)
        let tk = if self.compressible { [0usize, 1, 5, 6, 0, 1, 5][tk] } else { tk };
        let tlen = *cfg.pick(&TRAIN_LEN);
        let tx = cfg.below(1 << 16);
        let level = *cfg.pick(&[3i32, 1, 9, 19, 0, -1, 22]);
        let pass_training = self.algo.trained() || cfg.chance(1, 2);
        // trained codecs refuse symbols they have not seen: in half of their runs every payload
        // is projected onto the corpus' alphabet, so that the histories get past the first call
        let projected = self.algo.trained() && (cfg.chance(1, 2) || self.compressible);
        let tlen = if self.compressible { tlen.max(16) } else { tlen };
        // history shape: usually 3-12 calls with freely mixed payload families; one run in four is a
        // long stream (20-49 calls), and one in two of those keeps to ONE payload family and only
        // compresses (a log-like stream of similar records: whatever a front end learns from "the
        // same thing happened n times in a row" needs such a stream to happen at all)
        let long = cfg.chance(1, 4);
        let one_family = long && cfg.chance(1, 2);
        let family = cfg.below(8);
        let planned = if long { 20 + cfg.below(30) } else { 3 + cfg.below(10) };
        let mut ops = cx.src.ops("ops", planned);
        let training = corpus(tk, tlen, tx);
        if long {
            cx.probe(if one_family { "long_stream_of_one_family" } else { "long_history" });
        }
        let algorithm = match self.algo {
            FAlgo::None => Algorithm::None,
            FAlgo::Lz4 => Algorithm::Lz4,
            FAlgo::Zstd => Algorithm::Zstd(level),
            FAlgo::Huffman => Algorithm::Huffman,
            FAlgo::Rans => Algorithm::Rans,
            FAlgo::Dictionary => Algorithm::Dictionary,
            FAlgo::SimdLz77 => Algorithm::SimdLz77,
            FAlgo::Hybrid => Algorithm::Hybrid,
            FAlgo::SelectBest => {
                let k = cfg.below(4);
                let req = match k {
                    0 => PerformanceRequirements::default(),
                    1 => PerformanceRequirements { speed_vs_quality: 1.0, ..Default::default() },
                    2 => PerformanceRequirements { speed_vs_quality: 0.0, max_latency: Duration::from_nanos(1), ..Default::default() },
                    _ => PerformanceRequirements { max_memory: 1, speed_vs_quality: 0.9, ..Default::default() },
                };
                let a = CompressorFactory::select_best(&req, &training);
                cx.ev(format!("CompressorFactory::select_best({}, corpus) -> {:?}", ["default", "quality-only", "speed-only, 1 ns", "max_memory=1"][k as usize], a));
                cx.cell(format!("factory/select_best/{:?}", a));
                a
            }
        };
        let algo_txt = format!("{:?}", algorithm);
        cx.ev(format!(
            "CompressorFactory::create({}, {}) training corpus: {} x {} B ({}){}",
            algo_txt,
            if pass_training { "Some" } else { "None" },
            CORPUS_NAME[tk],
            tlen,
            head(&training),
            if projected { "; payloads projected onto the corpus' alphabet" } else { "" }
        ));
        let c = match CompressorFactory::create(algorithm, if pass_training { Some(&training) } else { None }) {
            Ok(c) => c,
            Err(e) => {
                cx.probe("create_refused");
                cx.ev(format!("  -> refused: {}", e));
                return;
            }
        };
        cx.ev(format!("  -> Ok, algorithm() = {:?}", c.algorithm()));
        let front = match algorithm {
            Algorithm::Hybrid => "Factory.Hybrid".to_string(),
            Algorithm::Zstd(_) if self.algo == FAlgo::SelectBest => "Factory.Zstd".to_string(),
            a if self.algo == FAlgo::SelectBest => format!("Factory.{:?}", a),
            _ => format!("Factory.{}", self.algo.name()),
        };
        // HuffmanCompressor frames carry the code table in HashMap iteration order
        let show_bytes = !matches!(algorithm, Algorithm::Huffman | Algorithm::Hybrid);
        let mut outs: Vec<Out> = vec![];
        let mut checked = 0u64;
        let mut n_ops = 0u64;
        // frame of a second compressor of the same algorithm, made on first need (None inside: it refused)
        let mut foreign: Option<Option<Vec<u8>>> = None;
        while let Some(mut o) = ops.next() {
            n_ops += 1;
            if one_family {
                o[0] = 0;
                o[1] = family;
            }
            let idx = match o[0] % 6 {
                0 | 1 | 2 | 3 => {
                    let id = outs.len() as u64;
                    let prev_out = if show_bytes { outs.last().map(|x| x.bytes.as_slice()) } else { None };
                    let (mut p, kind) = if self.compressible {
                        pay_compressible(o, &training, outs.last().map(|x| x.payload.as_slice()))
                    } else {
                        pay2(o, &training, outs.last().map(|x| x.payload.as_slice()), prev_out, self.algo.big())
                    };
                    if projected {
                        project(&mut p, &training);
                    }
                    cx.ev(format!("compress p{}({} B, {}, {})", id, p.len(), kind, head(&p)));
                    match c.compress(&p) {
                        Ok(bytes) => {
                            // what the frame says compress chose
                            let path = if algorithm == Algorithm::Hybrid && !bytes.is_empty() {
                                if bytes[1..] == p[..] {
                                    "raw_fallback"
                                } else {
                                    match bytes[0] {
                                        0 => "chose_huffman",
                                        1 if rans_table_is_stable(&bytes[1..]) => "chose_rans",
                                        1 => "chose_rans_stored_table_renormalises",
                                        2 => "chose_dictionary",
                                        _ => "chose_unknown",
                                    }
                                }
                            } else if self.algo == FAlgo::Rans && !bytes.is_empty() {
                                if rans_table_is_stable(&bytes) {
                                    "stored_table_stable"
                                } else {
                                    "stored_table_renormalises"
                                }
                            } else if p.is_empty() {
                                "empty"
                            } else if bytes.len() >= p.len() {
                                "not_shrunk"
                            } else {
                                "shrunk"
                            };
                            cx.probe(&format!("path_{}", path));
                            cx.probe(&format!("payload_{}", kind));
                            cx.cell(format!("factory/{}/{}/{}/{}", self.algo.name(), CORPUS_NAME[tk], kind, path));
                            let o = Out { id, payload: p, bytes, epoch: 0, path, algo: algo_txt.clone(), show_bytes };
                            cx.ev(format!("  -> Ok {} B ({}) {}", o.bytes.len(), shown(&o), path));
                            outs.push(o);
                            Some((outs.len() - 1, "right away"))
                        }
                        Err(e) => {
                            cx.probe("compress_refused");
                            cx.ev(format!("  -> refused: {}", e));
                            None
                        }
                    }
                }
                5 if o[2] % 3 == 0 && !outs.is_empty() => {
                    // a frame made by ANOTHER compressor of the same algorithm (trained on a different
                    // corpus) with its tail cut off is offered to this one.  What it answers is not judged
                    // (a refusal is the expected answer) and not written into the trace; the calls that
                    // FOLLOW are judged as always: a refused call must leave nothing behind in the compressor
                    if foreign.is_none() {
                        let t2 = corpus((tk + 1 + (o[3] % 5) as usize) % 7, tlen.max(40), tx ^ 0x5a5a);
                        let made = CompressorFactory::create(algorithm, Some(&t2)).ok().and_then(|c2| {
                            let p2 = &t2[..t2.len().min(200)];
                            c2.compress(p2).ok()
                        });
                        foreign = Some(made);
                    }
                    if let Some(Some(f)) = &foreign {
                        let k = 1 + (o[3] % 6) as usize;
                        if f.len() > k + 8 {
                            cx.probe("foreign_cut_frame_offered");
                            cx.ev(format!("decompress(frame of {} B made by a second compressor trained on another corpus, last {} B cut off) -> not judged", f.len(), k));
                            let _ = std::panic::catch_unwind(std::panic::AssertUnwindSafe(|| {
                                let _ = c.decompress(&f[..f.len() - k]);
                            }));
                        }
                    }
                    // ... and straight afterwards one of this compressor's own frames
                    Some(((o[1] as usize) % outs.len(), "after a foreign cut frame"))
                }
                _ => {
                    if outs.is_empty() {
                        None
                    } else {
                        Some(((o[1] as usize) % outs.len(), "later"))
                    }
                }
            };
            if let Some((idx, when)) = idx {
                let r = c.decompress(&outs[idx].bytes).map_err(|e| e.to_string());
                checked += 1;
                if !report(cx, &front, &outs[idx], 0, &algo_txt, &r, when) {
                    break;
                }
            }
        }
        cx.steps = n_ops;
        cx.nontrivial = checked >= 1;
    }
}

// ---------------------------------------------------------------------------------------
// PA-Zip: PaZipCompressor over a SuffixArrayDictionary built from the training corpus

const PZ_PRESET: [&str; 5] = ["default", "fast_compression", "high_compression", "realtime", "reference_compliant"];

struct PzScenario {
    preset: usize,
}

impl Scenario for PzScenario {
    fn name(&self) -> String {
        format!("pazip/{}", PZ_PRESET[self.preset])
    }
    fn budget(&self, tier: Tier) -> u64 {
        // (nothing compressed with the reference preset can be read back, see known_findings: few runs)
        match (tier, self.preset) {
            (Tier::Quick, 4) => 200,
            (Tier::Quick, _) => 600,
            (Tier::Thorough, 4) => 6_000,
            (Tier::Thorough, _) => 30_000,
        }
    }
    fn run(&self, cx: &mut Run) {
        zsim_core::hooks::reset();
        let cfg = cx.src.chan("cfg");
        let tk = cfg.below(7) as usize;
        // (building the DFA cache of a dictionary costs ~0.1 s per 1000 B of corpus: long corpora are rare)
        let tlen = *cfg.pick(&[300usize, 64, 500, 8, 100, 150]);
        let tlen = if cfg.chance(1, 50) { 1200 } else { tlen };
        // rarely a dictionary of 10 000 B or more (SuffixArray::with_config leaves DC3 for an
        // adaptively chosen construction there) or of more than 64 KiB (positions need > 16 bits)
        let tlen = match cfg.biased_zero(5, 1, 6) {
            _ if self.preset == 4 => tlen,
            0 => tlen,
            1 => 10_000,
            2 => 12_500,
            3 => 100_000,
            _ => 140_000,
        };
        // (the longest-match search walks the suffix range linearly where suffixes run into the end
        // of the text: minutes per payload on a long single-symbol or short-period dictionary, which
        // is a cost question and not this property's; long dictionaries are records / random / few)
        let tk = if tlen >= 10_000 { [5usize, 1, 5, 4, 4, 5, 1][tk] } else { tk };
        // (over 64 KiB only records / random: their suffix array comes from DivSufSort, which is sound,
        // so what fails there is the 16-bit dictionary offset and not the SA-IS construction)
        let tk = if tlen > 65_536 && tk == 1 { 5 } else { tk };
        let tx = cfg.below(1 << 16);
        let min_pattern_length = *cfg.pick(&[4usize, 3, 8]);
        let min_frequency = *cfg.pick(&[4u32, 1, 2]);
        // (with min_frequency 1 or 2 the DFA cache of a 100 000 B dictionary takes seconds to build)
        let min_frequency = if tlen >= 10_000 { 4 } else { min_frequency };
        let max_bfs_depth = *cfg.pick(&[6u32, 2, 3]);
        let local = cfg.below(4);
        let dirty_out = cfg.chance(1, 3);
        let reload = cfg.chance(1, 2) && tlen < 10_000;
        let planned = 3 + cfg.below(8);
        let mut ops = cx.src.ops("ops", planned);
        let training = corpus(tk, tlen, tx);
        let mut config = match self.preset {
            0 => PaZipCompressorConfig::default(),
            1 => PaZipCompressorConfig::fast_compression(),
            2 => PaZipCompressorConfig::high_compression(),
            3 => PaZipCompressorConfig::realtime(),
            _ => PaZipCompressorConfig::reference_compliant(),
        };
        config.local_config = match local {
            0 => LocalMatcherConfig::default(),
            1 => LocalMatcherConfig::fast_compression(),
            2 => LocalMatcherConfig::max_compression(),
            _ => LocalMatcherConfig::realtime(),
        };
        let dcfg = SuffixArrayDictionaryConfig { min_pattern_length, min_frequency, max_bfs_depth, ..Default::default() };
        cx.ev(format!(
            "PaZipCompressor preset={} local_config={} dictionary: {} x {} B ({}) min_pattern_length={} min_frequency={} max_bfs_depth={} dirty_output_buffer={}",
            PZ_PRESET[self.preset],
            ["default", "fast_compression", "max_compression", "realtime"][local as usize],
            CORPUS_NAME[tk],
            tlen,
            head(&training),
            min_pattern_length,
            min_frequency,
            max_bfs_depth,
            dirty_out
        ));
        let dict = match SuffixArrayDictionary::new(&training, dcfg) {
            Ok(d) => d,
            Err(e) => {
                cx.probe("dictionary_refused");
                cx.ev(format!("SuffixArrayDictionary::new refused: {}", e));
                return;
            }
        };
        // the dictionary as it would be stored next to the compressed data and loaded again later
        let stored = if reload {
            match dict.serialize() {
                Ok(b) => Some(b),
                Err(e) => {
                    cx.ev(format!("SuffixArrayDictionary::serialize refused: {}", e));
                    None
                }
            }
        } else {
            None
        };
        let pool = match SecureMemoryPool::new(SecurePoolConfig::small_secure()) {
            Ok(p) => p,
            Err(e) => {
                cx.ev(format!("SecureMemoryPool::new refused: {}", e));
                return;
            }
        };
        let mut pz = match PaZipCompressor::new(dict, config.clone(), pool.clone()) {
            Ok(p) => p,
            Err(e) => {
                cx.probe("create_refused");
                cx.ev(format!("PaZipCompressor::new refused: {}", e));
                return;
            }
        };
        // a second handle: a clone, or a compressor over the reloaded dictionary
        let mut twin: Option<(PaZipCompressor, &'static str)> = None;
        let mut outs: Vec<Out> = vec![];
        let mut checked = 0u64;
        let mut n_ops = 0u64;
        while let Some(o) = ops.next() {
            n_ops += 1;
            // (index, when, decode through the twin?)
            let mut to_check: Option<(usize, &str, bool)> = None;
            match o[0] % 8 {
                0 | 1 | 2 | 3 => {
                    let id = outs.len() as u64;
                    let by_twin = twin.is_some() && (o[0] / 8) % 3 == 0;
                    // (over a long dictionary every other payload is a slice of it, taken anywhere)
                    let o = if tlen >= 10_000 && (o[0] / 8) % 2 == 0 { [o[0], 9, o[2], o[3]] } else { o };
                    let (p, kind) = if (o[0] / 64) % 24 == 0 {
                        // one payload in 24 is just over 64 KiB (the presets' multithreading threshold and
                        // the 2-byte fields of the format live there): text, runs or records
                        let k = [0usize, 6, 5][(o[2] % 3) as usize];
                        (corpus(k, 65_530 + (o[3] % 40) as usize, o[2] >> 4), format!("{}-over-64KiB", CORPUS_NAME[k]))
                    } else {
                        pay2(o, &training, outs.last().map(|x| x.payload.as_slice()), outs.last().map(|x| x.bytes.as_slice()), 2600)
                    };
                    let who_name = if by_twin { twin.as_ref().unwrap().1 } else { "original" };
                    cx.ev(format!("compress p{}({} B, {}, {}) by the {}", id, p.len(), kind, head(&p), who_name));
                    let mut bytes = Vec::new();
                    let who = if by_twin { &mut twin.as_mut().unwrap().0 } else { &mut pz };
                    match who.compress(&p, &mut bytes) {
                        Ok(st) => {
                            let path = if self.preset == 4 {
                                "reference_encoding"
                            } else if st.global_matches > 0 && st.local_matches > 0 {
                                "global_and_local"
                            } else if st.global_matches > 0 && tlen > 65_536 {
                                "global.dictionary_over_64KiB"
                            } else if st.global_matches > 0 && tlen >= 10_000 {
                                "global.dictionary_of_10000B_or_more"
                            } else if st.global_matches > 0 {
                                "global"
                            } else if st.local_matches > 0 {
                                "local"
                            } else if p.is_empty() && dirty_out {
                                "empty_frame_into_used_buffer"
                            } else if p.is_empty() {
                                "empty"
                            } else {
                                "literal_only"
                            };
                            cx.probe(&format!("path_{}", path));
                            for (i, n) in st.compression_type_usage.iter().enumerate() {
                                if *n > 0 {
                                    cx.probe(&format!("match_kind_{}", i));
                                }
                            }
                            cx.cell(format!("pazip/{}/{}/{}/{}", PZ_PRESET[self.preset], CORPUS_NAME[tk], kind, path));
                            cx.ev(format!("  -> Ok {} B ({}) {} literals={} local={} global={}", bytes.len(), head(&bytes), path, st.literal_count, st.local_matches, st.global_matches));
                            outs.push(Out { id, payload: p, bytes, epoch: 0, path, algo: who_name.into(), show_bytes: true });
                            to_check = Some((outs.len() - 1, "right away", by_twin));
                        }
                        Err(e) => {
                            cx.probe("compress_refused");
                            cx.ev(format!("  -> refused: {}", e));
                        }
                    }
                }
                4 | 5 => {
                    if !outs.is_empty() {
                        let through_twin = twin.is_some() && o[2] % 2 == 1;
                        to_check = Some(((o[1] as usize) % outs.len(), "later", through_twin));
                    }
                }
                // (no second handle on a long dictionary: cloning its DFA-cache trie takes half a minute)
                6 if tlen >= 10_000 => cx.ev("second handle: skipped for a long dictionary"),
                6 => {
                    twin = None;
                    if let (Some(b), true) = (&stored, o[1] % 2 == 0) {
                        match SuffixArrayDictionary::deserialize(b).and_then(|d| PaZipCompressor::new(d, config.clone(), pool.clone())) {
                            Ok(t) => {
                                twin = Some((t, "compressor over the reloaded dictionary"));
                                cx.probe("reload_dictionary");
                                cx.ev(format!("second handle: PaZipCompressor over SuffixArrayDictionary::deserialize(serialize()) ({} B stored)", b.len()));
                            }
                            Err(e) => cx.ev(format!("SuffixArrayDictionary::deserialize / PaZipCompressor::new refused: {}", e)),
                        }
                    }
                    if twin.is_none() {
                        twin = Some((pz.clone(), "clone"));
                        cx.probe("clone");
                        cx.ev("second handle: clone of the compressor");
                    }
                }
                _ => {
                    pz.reset_stats();
                    let v = pz.validate();
                    cx.ev(format!("reset_stats; validate -> {}", if v.is_ok() { "Ok" } else { "Err" }));
                }
            }
            if let Some((idx, when, through_twin)) = to_check {
                let mut out = if dirty_out { b"stale bytes of an earlier call".to_vec() } else { Vec::new() };
                let who_name = if through_twin { twin.as_ref().unwrap().1 } else { "original" };
                let who = if through_twin { &mut twin.as_mut().unwrap().0 } else { &mut pz };
                let r = who.decompress(&outs[idx].bytes, &mut out).map(|()| out).map_err(|e| e.to_string());
                checked += 1;
                // the same handle compressed and decodes: the property as stated; another handle
                // (clone / reloaded dictionary): kept apart
                let class = if outs[idx].algo == who_name { None } else { Some("roundtrip_other_handle") };
                let front = if class.is_none() { "PaZipCompressor".to_string() } else { format!("PaZipCompressor.{}_decodes_{}", who_name.split(' ').last().unwrap_or("x"), outs[idx].algo.split(' ').last().unwrap_or("x")) };
                if !report_as(cx, &front, &outs[idx], 0, who_name, &r, &format!("{} through the {}", when, who_name), class) {
                    break;
                }
            }
        }
        cx.steps = n_ops;
        cx.nontrivial = checked >= 1;
    }
}

// ---------------------------------------------------------------------------------------
// PA-Zip match codec: encode_matches / decode_match / decode_matches over all eight match kinds

struct MatchCodecScenario;

fn pz_match(o: [u64; 4]) -> Option<(PzMatch, &'static str)> {
    let a = o[1] as usize;
    let b = o[2] as usize;
    let r = match o[0] % 8 {
        0 => (PzMatch::literal([1u8, 2, 31, 32, 16][a % 5]), "Literal"),
        1 => (PzMatch::global([0u32, 1, 255, 256, 65535, 65536, 0x8000_0000, 0xFFFF_FFFF][a % 8], [6u16, 7, 255, 256, 65535][b % 5]), "Global"),
        2 => (PzMatch::rle(o[3] as u8, [2u8, 3, 32, 33][a % 4]), "RLE"),
        3 => (PzMatch::near_short([2u8, 9, 5][a % 3], [2u8, 5, 3][b % 3]), "NearShort"),
        4 => (PzMatch::far1_short([2u16, 257, 10, 256, 255][a % 5], [2u8, 33, 17][b % 3]), "Far1Short"),
        5 => (PzMatch::far2_short([258u32, 65793, 65535, 65536, 259, 65792][a % 6], [2u8, 33, 17][b % 3]), "Far2Short"),
        6 => (PzMatch::far2_long([0u16, 1, 65535, 300, 256][a % 5], [34u16, 35, 161, 162, 163, 32801, 32802, 65535][b % 8]), "Far2Long"),
        _ => (PzMatch::far3_long([0u32, 1, 65536, 0xFF_FFFF, 0x80_0000][a % 5], [34u32, 161, 162, 32801, 32802, 100_000, (1 << 30) + 32768 + 33][b % 7]), "Far3Long"),
    };
    match r {
        (Ok(m), k) => Some((m, k)),
        (Err(_), _) => None,
    }
}

impl Scenario for MatchCodecScenario {
    fn name(&self) -> String {
        "pazip-matchcodec/lists".into()
    }
    fn budget(&self, tier: Tier) -> u64 {
        match tier {
            Tier::Quick => 3000,
            Tier::Thorough => 150_000,
        }
    }
    fn run(&self, cx: &mut Run) {
        let cfg = cx.src.chan("cfg");
        let planned = 1 + cfg.below(8);
        let mut ops = cx.src.ops("ops", planned);
        let mut ms: Vec<PzMatch> = vec![];
        let mut kinds: Vec<&'static str> = vec![];
        while let Some(o) = ops.next() {
            match pz_match(o) {
                Some((m, k)) => {
                    cx.ev(format!("match #{}: {}", ms.len(), m));
                    cx.cell(format!("matchcodec/{}", k));
                    ms.push(m);
                    kinds.push(k);
                }
                None => cx.ev("constructor refused the parameters"),
            }
        }
        cx.steps = ms.len() as u64;
        if ms.is_empty() {
            return;
        }
        let (buf, bits) = match encode_matches(&ms) {
            Ok(x) => x,
            Err(e) => {
                cx.probe("encode_refused");
                cx.ev(format!("encode_matches -> refused: {}", e));
                return;
            }
        };
        cx.ev(format!("encode_matches -> {} B, {} bits ({})", buf.len(), bits, head(&buf)));
        cx.nontrivial = true;
        // (a) one decode_match per encoded match on one reader
        let mut reader = BitReader::new(&buf);
        for (i, m) in ms.iter().enumerate() {
            match decode_match(&mut reader) {
                Ok((d, _)) if d == *m => {}
                Ok((d, _)) => {
                    cx.violate("roundtrip", &format!("MatchCodec.decode_match.{}.wrong_match", kinds[i]), format!("match #{} of {}: encoded {}, decoded {}", i, ms.len(), m, d));
                    return;
                }
                Err(e) => {
                    cx.violate("roundtrip", &format!("MatchCodec.decode_match.{}.err", kinds[i]), format!("match #{} of {}: encoded {}, decode_match failed: {}", i, ms.len(), m, e));
                    return;
                }
            }
        }
        cx.ev("  decode_match x n -> equal");
        // (b) the whole buffer
        let pad = buf.len() * 8 - bits;
        cx.probe(&format!("padding_bits_{}", pad));
        match decode_matches(&buf) {
            Ok((ds, _)) if ds == ms => cx.ev("  decode_matches -> equal"),
            Ok((ds, _)) => {
                let what = if ds.len() > ms.len() && ds[..ms.len()] == ms[..] { "extra_matches" } else { "wrong_matches" };
                cx.violate(
                    "roundtrip",
                    &format!("MatchCodec.decode_matches.{}", what),
                    format!("{} matches encoded into {} bits ({} padding bits), decode_matches returned {} matches; last encoded {}, last decoded {}", ms.len(), bits, pad, ds.len(), ms[ms.len() - 1], ds[ds.len() - 1]),
                );
            }
            Err(e) => {
                // three or more zero bits after the last match look like the header of a Literal
                let site = if pad >= 3 { "MatchCodec.decode_matches.err_with_3_to_7_padding_bits" } else { "MatchCodec.decode_matches.err" };
                cx.violate("roundtrip", site, format!("{} matches encoded into {} bits ({} padding bits), last {}; decode_matches failed: {}", ms.len(), bits, pad, ms[ms.len() - 1], e));
            }
        }
    }
}

// ---------------------------------------------------------------------------------------
// FSE stage of PA-Zip: apply/remove (raw marker "UN" vs "FS"), the stateful FseCompressor, the
// reference zip/unzip pair

struct FseScenario;

/// The FSE coder itself (src/entropy/fse.rs, not one of C02's files) does not invert itself on
/// quite a few inputs of 100 B and more.  The FSE *stage* of PA-Zip (compression_types.rs: the
/// "UN"/"FS" markers, the per-call FseCompressor) can only be as good as the coder, so every
/// payload that fails is also put through a fresh bare FseEncoder/FseDecoder pair with the same
/// settings: when that pair does not return the payload either, the finding is labelled
/// `coder_fails` (a known defect outside C02's files); a frame that the bare coder would have
/// got right and the stage gets wrong keeps the plain site.
fn bare_coder_roundtrips(c: &FseConfig, p: &[u8]) -> bool {
    let ec = zipora::entropy::FseConfig {
        max_symbol: c.max_symbol,
        table_log: c.table_log,
        adaptive: c.adaptive,
        compression_level: c.compression_level,
        fast_decode: c.fast_decode,
        hardware: zipora::entropy::fse::HardwareCapabilities::default(),
        parallel_blocks: None,
        entropy_optimization: true,
        block_size: 64 * 1024,
        advanced_states: false,
        min_frequency: 1,
        max_table_size: 64 * 1024,
        dict_size: 0,
    };
    let (Ok(mut e), Ok(mut d)) = (zipora::entropy::FseEncoder::new(ec.clone()), zipora::entropy::FseDecoder::with_config(ec)) else { return false };
    match e.compress(p) {
        Ok(z) => matches!(d.decompress(&z), Ok(b) if b == p),
        Err(_) => false,
    }
}

fn fse_flavor(c: &FseConfig, o: &mut Out, got: &Result<Vec<u8>, String>) {
    let ok = matches!(got, Ok(b) if *b == o.payload);
    if !ok && !o.payload.is_empty() && !bare_coder_roundtrips(c, &o.payload) {
        o.path = match o.path {
            "fse_marker" => "fse_marker.coder_fails",
            "reference" => "reference.coder_fails",
            "object_first_call" => "object_first_call.coder_fails",
            "object_later_call" => "object_later_call.coder_fails",
            p => p,
        };
    }
}

impl Scenario for FseScenario {
    fn name(&self) -> String {
        "pazip-fse/stage".into()
    }
    fn budget(&self, tier: Tier) -> u64 {
        match tier {
            Tier::Quick => 1500,
            Tier::Thorough => 60_000,
        }
    }
    fn run(&self, cx: &mut Run) {
        let cfg = cx.src.chan("cfg");
        let which = cfg.below(3);
        let planned = 2 + cfg.below(8);
        let mut ops = cx.src.ops("ops", planned);
        let config = match which {
            0 => FseConfig::default(),
            1 => FseConfig::for_pa_zip(),
            _ => FseConfig::fast_pa_zip(),
        };
        let cname = ["default", "for_pa_zip", "fast_pa_zip"][which as usize];
        cx.ev(format!("FseConfig::{}", cname));
        let mut obj = match FseCompressor::with_config(config.clone()) {
            Ok(c) => c,
            Err(e) => {
                cx.ev(format!("FseCompressor::with_config refused: {}", e));
                return;
            }
        };
        let training = corpus(0, 300, 0);
        let mut outs: Vec<Out> = vec![];
        let mut checked = 0u64;
        let mut n_ops = 0u64;
        let mut calls_since_reset = 0u64;
        while let Some(o) = ops.next() {
            n_ops += 1;
            let api = o[0] % 8;
            if api == 7 {
                calls_since_reset = 0;
                let r = obj.reset();
                cx.ev(format!("FseCompressor.reset -> {}", if r.is_ok() { "Ok" } else { "Err" }));
                continue;
            }
            if api == 6 {
                // decode an earlier FseCompressor output again on the same object
                let cands: Vec<usize> = (0..outs.len()).filter(|&i| outs[i].path.starts_with("object")).collect();
                if !cands.is_empty() {
                    let idx = cands[(o[1] as usize) % cands.len()];
                    let r = obj.decompress(&outs[idx].bytes).map_err(|e| e.to_string());
                    checked += 1;
                    fse_flavor(&config, &mut outs[idx], &r);
                    if !report(cx, "FseCompressor", &outs[idx], 0, cname, &r, "later") {
                        break;
                    }
                }
                continue;
            }
            let id = outs.len() as u64;
            let (p, kind) = pay2(o, &training, outs.last().map(|x| x.payload.as_slice()), outs.last().map(|x| x.bytes.as_slice()), 70_000);
            match api {
                0 | 1 | 2 => {
                    cx.ev(format!("apply_fse_compression p{}({} B, {}, {})", id, p.len(), kind, head(&p)));
                    match apply_fse_compression(&p, &config) {
                        Ok(bytes) => {
                            let path = if bytes.starts_with(&[0x55, 0x4E]) {
                                "raw_marker"
                            } else if bytes.starts_with(&[0xFE, 0x53]) {
                                "fse_marker"
                            } else if bytes.is_empty() {
                                "empty"
                            } else {
                                "no_marker"
                            };
                            cx.probe(&format!("path_{}", path));
                            cx.cell(format!("fse/apply/{}/{}", kind, path));
                            cx.ev(format!("  -> Ok {} B ({}) {}", bytes.len(), head(&bytes), path));
                            outs.push(Out { id, payload: p, bytes, epoch: 0, path, algo: cname.into(), show_bytes: true });
                            let r = remove_fse_compression(&outs[id as usize].bytes, &config).map_err(|e| e.to_string());
                            checked += 1;
                            fse_flavor(&config, &mut outs[id as usize], &r);
                            if !report(cx, "FseStage.apply_remove", &outs[id as usize], 0, cname, &r, "right away") {
                                break;
                            }
                        }
                        Err(e) => {
                            cx.probe("compress_refused");
                            cx.ev(format!("  -> refused: {}", e));
                        }
                    }
                }
                3 | 4 => {
                    cx.ev(format!("FseCompressor.compress p{}({} B, {}, {})", id, p.len(), kind, head(&p)));
                    match obj.compress(&p) {
                        Ok(bytes) => {
                            cx.cell(format!("fse/object/{}", kind));
                            cx.ev(format!("  -> Ok {} B ({})", bytes.len(), head(&bytes)));
                            // the encoder inside the object keeps its table (non-adaptive presets) or
                            // its symbol counts (adaptive ones) from call to call
                            let path = if calls_since_reset == 0 { "object_first_call" } else { "object_later_call" };
                            calls_since_reset += 1;
                            outs.push(Out { id, payload: p, bytes, epoch: 0, path, algo: cname.into(), show_bytes: true });
                            let r = obj.decompress(&outs[id as usize].bytes).map_err(|e| e.to_string());
                            checked += 1;
                            fse_flavor(&config, &mut outs[id as usize], &r);
                            if !report(cx, "FseCompressor", &outs[id as usize], 0, cname, &r, "right away") {
                                break;
                            }
                        }
                        Err(e) => {
                            cx.probe("compress_refused");
                            cx.ev(format!("  -> refused: {}", e));
                        }
                    }
                }
                _ => {
                    cx.ev(format!("fse_zip_reference p{}({} B, {}, {})", id, p.len(), kind, head(&p)));
                    let mut buf = vec![0u8; p.len() + 16];
                    let mut n = 0usize;
                    match fse_zip_reference(&p, &mut buf, &mut n) {
                        Ok(true) => {
                            buf.truncate(n);
                            cx.ev(format!("  -> true, {} B ({})", n, head(&buf)));
                            cx.probe("zip_reference_beneficial");
                            outs.push(Out { id, payload: p, bytes: buf, epoch: 0, path: "reference", algo: "for_pa_zip".into(), show_bytes: true });
                            let mut ob = vec![0u8; outs[id as usize].payload.len() + 16];
                            let r = fse_unzip_reference(&outs[id as usize].bytes, &mut ob)
                                .map(|k| {
                                    ob.truncate(k);
                                    ob
                                })
                                .map_err(|e| e.to_string());
                            checked += 1;
                            fse_flavor(&FseConfig::for_pa_zip(), &mut outs[id as usize], &r);
                            if !report(cx, "FseStage.zip_unzip_reference", &outs[id as usize], 0, "for_pa_zip", &r, "right away") {
                                break;
                            }
                        }
                        Ok(false) => cx.ev("  -> false (not beneficial)"),
                        Err(e) => cx.ev(format!("  -> refused: {}", e)),
                    }
                }
            }
        }
        cx.steps = n_ops;
        cx.nontrivial = checked >= 1;
    }
}

// ---------------------------------------------------------------------------------------
// SimdLz77Compressor's own compress/decompress (not the Compressor-trait impl the factory hands out)

struct SimdScenario;

impl Scenario for SimdScenario {
    fn name(&self) -> String {
        "simdlz77/inherent".into()
    }
    fn budget(&self, tier: Tier) -> u64 {
        match tier {
            Tier::Quick => 200,
            Tier::Thorough => 6_000,
        }
    }
    fn run(&self, cx: &mut Run) {
        zsim_core::hooks::reset();
        let cfg = cx.src.chan("cfg");
        let which = cfg.below(5);
        let planned = 2 + cfg.below(5);
        let mut ops = cx.src.ops("ops", planned);
        let cname = ["default", "high_performance", "low_latency", "maximum_parallelism", "global"][which as usize];
        cx.ev(format!("SimdLz77Compressor {}", cname));
        let mut own = match which {
            0 => SimdLz77Compressor::new().ok(),
            1 => SimdLz77Compressor::with_config(SimdLz77Config::high_performance()).ok(),
            2 => SimdLz77Compressor::with_config(SimdLz77Config::low_latency()).ok(),
            3 => SimdLz77Compressor::with_config(SimdLz77Config::maximum_parallelism()).ok(),
            _ => None,
        };
        if which < 4 && own.is_none() {
            cx.ev("constructor refused");
            return;
        }
        let training = corpus(0, 300, 0);
        let mut outs: Vec<Out> = vec![];
        let mut checked = 0u64;
        let mut n_ops = 0u64;
        while let Some(o) = ops.next() {
            n_ops += 1;
            let id = outs.len() as u64;
            let (p, kind) = pay2(o, &training, outs.last().map(|x| x.payload.as_slice()), None, 1200);
            // (the match search of this compressor is quadratic)
            let p = if p.len() > 400 { p[..400].to_vec() } else { p };
            cx.ev(format!("compress p{}({} B, {}, {})", id, p.len(), kind, head(&p)));
            let r = match own.as_mut() {
                Some(c) => c.compress(&p),
                None => compress_with_simd_lz77(&p),
            };
            match r {
                Ok(bytes) => {
                    cx.ev(format!("  -> Ok {} B ({})", bytes.len(), head(&bytes)));
                    outs.push(Out { id, payload: p, bytes, epoch: 0, path: "inherent", algo: cname.into(), show_bytes: true });
                    let r = match own.as_mut() {
                        Some(c) => c.decompress(&outs[id as usize].bytes),
                        None => decompress_with_simd_lz77(&outs[id as usize].bytes),
                    }
                    .map_err(|e| e.to_string());
                    checked += 1;
                    if !report(cx, "SimdLz77Compressor", &outs[id as usize], 0, cname, &r, "right away") {
                        break;
                    }
                }
                Err(e) => {
                    cx.probe("compress_refused");
                    cx.ev(format!("  -> refused: {}", e));
                }
            }
        }
        cx.steps = n_ops;
        cx.nontrivial = checked >= 1;
    }
}


fn main() {
    let mut spec = CheckSpec::new(
        "C02",
        "exploration",
        "seeded client histories (compress, compress_with_deadline, compress_batch, decompress of any earlier output, set_mode / set_algorithm, train, estimate_ratio through the Compressor trait object) against \
         RealtimeCompressor (tokio paused clock; clock jumps at seeded reads of the shimmed Instant) and AdaptiveCompressor; seeded histories of compress / decompress-now / decompress-later against every \
         compressor of CompressorFactory (training corpus x payload relations: same again, one byte changed, corpus slice, corpus plus a foreign byte, an earlier output as payload, boundary lengths), \
         PaZipCompressor (five presets, second handle by clone or by a stored-and-reloaded dictionary, dictionaries up to 140 000 B), the PA-Zip match codec, the PA-Zip FSE stage and SimdLz77Compressor's own methods; \
         payloads are workload, not search space; non-trivial = at least one compress call returned Ok and its output was decoded and compared; distinct = distinct hash of (operations, observed results, clock jumps)",
    );
    spec.assumptions = vec![
        "RealtimeCompressor / AdaptiveCompressor: payload bytes 2..4 are zero so that an unframed payload handed to an LZ4/zstd decoder claims at most 64 KiB (the factory / PA-Zip scenarios have no such reserved bytes)".into(),
        "the semaphore of RealtimeCompressor is never contended on a current_thread runtime: no await happens while a permit is held".into(),
        "AdaptiveCompressor reads std::time::Instant (not shimmed); its measurements only feed a log line and CompressionProfile::preferred_algorithm, never the output: profiles are read but not acted upon".into(),
        "a compress call that answers Err is a refusal, not a violation (trained codecs refuse symbols they have not seen); in half of the runs of a trained codec the payloads are projected onto the corpus' alphabet".into(),
        "decode through another handle (clone, compressor over the reloaded dictionary) is reported under its own class roundtrip_other_handle".into(),
        "PA-Zip dictionaries of 10 000 B and more are records / random / 3-symbol corpora with the default min_frequency, are not cloned or reloaded, and payloads stay below 2.6 KiB there (the match search and the trie clone are minutes on long repetitive dictionaries: cost, not this property)".into(),
        "the FSE coder under the PA-Zip FSE stage is src/entropy/fse.rs (another property's file): a stage failure is labelled coder_fails when a bare FseEncoder/FseDecoder pair fails on the same payload".into(),
    ];
    spec.components = vec![
        ("compression::realtime::RealtimeCompressor (+ Builder, with_mode)", "real"),
        ("compression::adaptive::AdaptiveCompressor (inherent and as dyn Compressor)", "real"),
        ("compression::{CompressorFactory, NoCompressor, Lz4Compressor, ZstdCompressor, HuffmanCompressor, RansCompressor, DictCompressor, HybridCompressor, SimdLz77Compressor (Compressor impl)}", "real"),
        ("compression::dict_zip::{PaZipCompressor, SuffixArrayDictionary (new / serialize / deserialize), LocalMatcherConfig presets}", "real"),
        ("compression::dict_zip::compression_types::{encode_matches, decode_match, decode_matches, apply/remove_fse_compression, FseCompressor, fse_zip/unzip_reference}", "real"),
        ("compression::simd_lz77::SimdLz77Compressor (inherent compress / decompress, global instance)", "real"),
        ("clock (zipora::verif::time::Instant)", "simulated: tokio paused clock + seeded monotone skew"),
        ("tokio runtime", "real, current_thread, start_paused"),
    ];
    spec.init = zsim_props::install_hooks;
    for family in [Family::Clean, Family::ClockJump, Family::Switch] {
        for mode in MODES {
            spec.scenarios.push(Box::new(RtScenario { mode, family }));
        }
    }
    spec.scenarios.push(Box::new(AdScenario { switch: false }));
    spec.scenarios.push(Box::new(AdScenario { switch: true }));
    for algo in [FAlgo::None, FAlgo::Lz4, FAlgo::Zstd, FAlgo::Huffman, FAlgo::Rans, FAlgo::Dictionary, FAlgo::SimdLz77, FAlgo::Hybrid] {
        if algo == FAlgo::Lz4 && !lz4_available() {
            continue;
        }
        spec.scenarios.push(Box::new(FactoryScenario { algo, compressible: false }));
    }
    spec.scenarios.push(Box::new(FactoryScenario { algo: FAlgo::Hybrid, compressible: true }));
    spec.scenarios.push(Box::new(FactoryScenario { algo: FAlgo::SelectBest, compressible: false }));
    for preset in 0..PZ_PRESET.len() {
        spec.scenarios.push(Box::new(PzScenario { preset }));
    }
    spec.scenarios.push(Box::new(MatchCodecScenario));
    spec.scenarios.push(Box::new(FseScenario));
    spec.scenarios.push(Box::new(SimdScenario));
    zsim_core::driver::main(spec);
}
