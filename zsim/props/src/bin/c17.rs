//! C17 — caches stay within capacity, evict least-recently-used, never serve stale data.
//!
//! LRU maps: seeded get/put/remove/clear/contains/len histories over 3-8 keys and capacities
//! 1..5 against `LruMap` and `ConcurrentLruMap` (every load-balancing strategy, 1..8 shards,
//! the operations issued from different threads strictly one at a time), with a recording
//! eviction callback, compared step by step with a recency-ordered reference list per shard.
//! Page cache: `LruPageCache` / `SingleLruPageCache` over real files (larger than the cache)
//! in a per-run scratch directory: reads with unaligned, page-straddling and beyond-EOF
//! ranges, batches, prefetches, invalidations and disk changes, compared with the file
//! bytes; a second family fails `FileManager::read_page` at seeded calls.
//! Cached blob store: `CachedBlobStore<FaultyStore<MemoryBlobStore>>`, all write strategies,
//! compared observation by observation with the store it wraps.
//! FSA cache: `FsaCache` within `max_states`, a state id never answers with an older state.
//!
//! Added by the workload audit (see reports/): keys that share hashes (`Key`, `HASH_MODE`), per-run
//! operation mixes and independently flipped configuration fields, key spaces scaled to the shard
//! count, the constructors without a callback (`*/plain_ctor`: evictions inferred from
//! `contains_key`), `is_empty` / `for_each_shard` / `rebalance` as observers; page cache: a
//! caller-owned `CacheBuffer` reused across reads, offsets beyond 2^44 and near `u64::MAX`, a cache
//! that holds all the files, a second id for an open file, virtual file ids, files replaced by one of
//! another size while closed or appended to while open; cached blob store: two stores on one shared
//! cache, writes through `inner_mut()`, `is_empty`; `file_manager/seq`: `FileManager::read_page` /
//! `read_data` directly.

use std::collections::{BTreeMap, BTreeSet};
use std::hash::{Hash, Hasher};
use std::io::{Seek, SeekFrom, Write};
use std::panic::{catch_unwind, AssertUnwindSafe};
use std::path::PathBuf;
use std::sync::atomic::{AtomicU64, AtomicUsize, Ordering};
use std::sync::{mpsc, Arc, Mutex};

use zipora::blob_store::cached_store::CacheWriteStrategy;
use zipora::blob_store::{BlobStore, CachedBlobStore, MemoryBlobStore};
use zipora::cache::{BufferPool, CacheBuffer, FileId, FileManager, LruPageCache, PageCacheConfig, SingleLruPageCache, PAGE_SIZE};
use zipora::containers::specialized::{ConcurrentLruMap, ConcurrentLruMapConfig, EvictionCallback, LoadBalancingStrategy, LruMap, LruMapConfig, NoOpEvictionCallback};
use zipora::error::ZiporaError;
use zipora::fsa::{CacheStrategy, FsaCache, FsaCacheConfig, ZeroPathData};
use zipora::RecordId;
use zsim_core::source::Chan;
use zsim_core::{CheckSpec, Run, Scenario, Tier, Violation};

// =======================================================================================
// LRU maps
// =======================================================================================

/// (callback clone id, key, value)
type Fired = (usize, u64, u64);

/// How `Key` hashes in the current run (set at the start of every LRU run from the seed):
/// 0 = exactly like the `u64` it wraps, 1 = k % 2, 2 = k / 2, 3 = k % 3, 4 = one hash for all.
/// With the other modes distinct keys share a hash (and, in the sharded map, a shard), so a
/// comparison by hash instead of by key is visible.
static HASH_MODE: AtomicU64 = AtomicU64::new(0);

#[derive(Clone, Default, PartialEq, Eq, Debug)]
struct Key(u64);

impl Hash for Key {
    fn hash<H: Hasher>(&self, h: &mut H) {
        let k = self.0;
        h.write_u64(match HASH_MODE.load(Ordering::Relaxed) {
            0 => k,
            1 => k % 2,
            2 => k / 2,
            3 => k % 3,
            _ => 7,
        });
    }
}

const HASH_MODES: [&str; 5] = ["as-u64", "k%2", "k/2", "k%3", "constant"];

/// Recording eviction callback.  Every clone gets the next number, so that the clone held
/// by shard i of a `ConcurrentLruMap` (which clones once per shard, in shard order) is i.
struct RecCb {
    log: Arc<Mutex<Vec<Fired>>>,
    next: Arc<AtomicUsize>,
    id: usize,
}

impl Clone for RecCb {
    fn clone(&self) -> Self {
        RecCb { log: self.log.clone(), next: self.next.clone(), id: self.next.fetch_add(1, Ordering::SeqCst) }
    }
}

impl EvictionCallback<Key, u64> for RecCb {
    fn on_evict(&self, key: &Key, value: &u64) {
        self.log.lock().unwrap().push((self.id, key.0, *value));
    }
}

fn new_cb() -> (RecCb, Arc<Mutex<Vec<Fired>>>) {
    let log = Arc::new(Mutex::new(vec![]));
    (RecCb { log: log.clone(), next: Arc::new(AtomicUsize::new(0)), id: 0 }, log)
}

/// Worker threads that execute closures strictly one at a time (the caller waits for the
/// result before it hands out the next one).
struct Pool {
    tx: Vec<Option<mpsc::Sender<Box<dyn FnOnce() + Send>>>>,
    handles: Vec<Option<std::thread::JoinHandle<()>>>,
}

impl Pool {
    fn new(n: usize) -> Pool {
        let mut p = Pool { tx: vec![], handles: vec![] };
        for _ in 0..n {
            p.add();
        }
        p
    }
    fn add(&mut self) -> usize {
        let (tx, rx) = mpsc::channel::<Box<dyn FnOnce() + Send>>();
        let h = std::thread::spawn(move || {
            while let Ok(job) = rx.recv() {
                job();
            }
        });
        self.tx.push(Some(tx));
        self.handles.push(Some(h));
        self.tx.len() - 1
    }
    /// Stop one worker (used while looking for threads with the wanted shard affinity).
    fn retire(&mut self, t: usize) {
        self.tx[t] = None;
        if let Some(h) = self.handles[t].take() {
            let _ = h.join();
        }
    }
    /// Run `f` on worker `t`; a panic inside comes back as (location, message).
    fn run<R: Send + 'static>(&self, t: usize, f: impl FnOnce() -> R + Send + 'static) -> Result<R, (String, String)> {
        let (rtx, rrx) = mpsc::channel();
        let job = Box::new(move || {
            let r = catch_unwind(AssertUnwindSafe(f)).map_err(|_| zsim_core::e1::LAST_PANIC.with(|l| l.borrow_mut().take()).unwrap_or_else(|| ("<unknown>".to_string(), "<no message>".to_string())));
            let _ = rtx.send(r);
        });
        self.tx[t].as_ref().expect("retired worker").send(job).expect("worker gone");
        rrx.recv().expect("worker died")
    }
}

impl Drop for Pool {
    fn drop(&mut self) {
        for t in self.tx.iter_mut() {
            *t = None;
        }
        for h in self.handles.iter_mut() {
            if let Some(h) = h.take() {
                let _ = h.join();
            }
        }
    }
}

/// What the history driver needs from a map under test.  `t` = issuing thread.
trait Target {
    fn get(&mut self, t: usize, k: u64) -> Option<u64>;
    fn put(&mut self, t: usize, k: u64, v: u64) -> Result<Option<u64>, String>;
    fn remove(&mut self, t: usize, k: u64) -> Option<u64>;
    fn contains(&mut self, t: usize, k: u64) -> bool;
    fn clear(&mut self, t: usize) -> Result<(), String>;
    fn len(&mut self) -> usize;
    fn is_empty(&mut self) -> bool;
    /// contains_key from the driving thread (routing by key does not depend on the caller)
    fn contains_direct(&mut self, k: u64) -> bool;
    /// sorted (len, capacity) of every shard as seen through `for_each_shard`, where there is one
    fn shard_view(&mut self) -> Option<Result<Vec<(usize, usize)>, String>>;
    /// `rebalance()` where the map has one
    fn rebalance(&mut self) -> Option<Result<(), String>>;
    fn capacity(&mut self) -> usize;
    fn shard_lens(&mut self) -> Vec<usize>;
    /// per shard (put_count, get_count) of the map's own statistics: how routing is learned
    fn counters(&mut self) -> Vec<(u64, u64)>;
    fn take_fired(&mut self) -> Vec<Fired>;
    fn take_panic(&mut self) -> Option<(String, String)>;
}

struct Plain<E: EvictionCallback<Key, u64>> {
    map: LruMap<Key, u64, E>,
    log: Arc<Mutex<Vec<Fired>>>,
}

impl<E: EvictionCallback<Key, u64>> Target for Plain<E> {
    fn get(&mut self, _t: usize, k: u64) -> Option<u64> {
        self.map.get(&Key(k))
    }
    fn put(&mut self, _t: usize, k: u64, v: u64) -> Result<Option<u64>, String> {
        self.map.put(Key(k), v).map_err(|e| e.to_string())
    }
    fn remove(&mut self, _t: usize, k: u64) -> Option<u64> {
        self.map.remove(&Key(k))
    }
    fn contains(&mut self, _t: usize, k: u64) -> bool {
        self.map.contains_key(&Key(k))
    }
    fn is_empty(&mut self) -> bool {
        self.map.is_empty()
    }
    fn contains_direct(&mut self, k: u64) -> bool {
        self.map.contains_key(&Key(k))
    }
    fn shard_view(&mut self) -> Option<Result<Vec<(usize, usize)>, String>> {
        None
    }
    fn rebalance(&mut self) -> Option<Result<(), String>> {
        None
    }
    fn clear(&mut self, _t: usize) -> Result<(), String> {
        self.map.clear().map_err(|e| e.to_string())
    }
    fn len(&mut self) -> usize {
        self.map.len()
    }
    fn capacity(&mut self) -> usize {
        self.map.capacity()
    }
    fn shard_lens(&mut self) -> Vec<usize> {
        vec![self.map.len()]
    }
    fn counters(&mut self) -> Vec<(u64, u64)> {
        vec![(0, 0)]
    }
    fn take_fired(&mut self) -> Vec<Fired> {
        std::mem::take(&mut *self.log.lock().unwrap())
    }
    fn take_panic(&mut self) -> Option<(String, String)> {
        None
    }
}

type CMap<E> = ConcurrentLruMap<Key, u64, E>;

/// what `ConcurrentLruMap` asks of its callback type, plus `'static` for the worker threads
trait ShCb: EvictionCallback<Key, u64> + Send + Sync + Clone + 'static {}
impl<T: EvictionCallback<Key, u64> + Send + Sync + Clone + 'static> ShCb for T {}

struct Sharded<E: ShCb> {
    map: Arc<CMap<E>>,
    pool: Pool,
    /// logical thread -> pool worker
    workers: Vec<usize>,
    log: Arc<Mutex<Vec<Fired>>>,
    panic: Option<(String, String)>,
}

impl<E: ShCb> Sharded<E> {
    fn on<R: Send + 'static + Default>(&mut self, t: usize, f: impl FnOnce(&CMap<E>) -> R + Send + 'static) -> R {
        let m = self.map.clone();
        match self.pool.run(self.workers[t % self.workers.len()], move || f(&m)) {
            Ok(r) => r,
            Err(p) => {
                if self.panic.is_none() {
                    self.panic = Some(p);
                }
                R::default()
            }
        }
    }
}

impl<E: ShCb> Target for Sharded<E> {
    fn get(&mut self, t: usize, k: u64) -> Option<u64> {
        self.on(t, move |m| m.get(&Key(k)))
    }
    fn put(&mut self, t: usize, k: u64, v: u64) -> Result<Option<u64>, String> {
        self.on(t, move |m| Some(m.put(Key(k), v).map_err(|e| e.to_string()))).unwrap_or(Ok(None))
    }
    fn remove(&mut self, t: usize, k: u64) -> Option<u64> {
        self.on(t, move |m| m.remove(&Key(k)))
    }
    fn contains(&mut self, t: usize, k: u64) -> bool {
        self.on(t, move |m| m.contains_key(&Key(k)))
    }
    fn is_empty(&mut self) -> bool {
        self.map.is_empty()
    }
    fn contains_direct(&mut self, k: u64) -> bool {
        self.map.contains_key(&Key(k))
    }
    fn rebalance(&mut self) -> Option<Result<(), String>> {
        Some(self.map.rebalance().map_err(|e| e.to_string()))
    }
    fn shard_view(&mut self) -> Option<Result<Vec<(usize, usize)>, String>> {
        // for_each_shard runs the closure on one thread per shard: collect, then sort
        let out: Arc<Mutex<Vec<(usize, usize)>>> = Arc::new(Mutex::new(vec![]));
        let o2 = out.clone();
        let r = self.map.for_each_shard(move |m| {
            o2.lock().unwrap().push((m.len(), m.capacity()));
            Ok(())
        });
        Some(match r {
            Ok(()) => {
                let mut v = out.lock().unwrap().clone();
                v.sort();
                Ok(v)
            }
            Err(e) => Err(e.to_string()),
        })
    }
    fn clear(&mut self, t: usize) -> Result<(), String> {
        self.on(t, move |m| Some(m.clear().map_err(|e| e.to_string()))).unwrap_or(Ok(()))
    }
    fn len(&mut self) -> usize {
        self.map.len()
    }
    fn capacity(&mut self) -> usize {
        self.map.capacity()
    }
    fn shard_lens(&mut self) -> Vec<usize> {
        self.map.shard_sizes()
    }
    fn counters(&mut self) -> Vec<(u64, u64)> {
        (0..self.map.shard_count())
            .map(|i| {
                let s = self.map.shard_stats(i).unwrap();
                (s.put_count.load(Ordering::SeqCst), s.get_count.load(Ordering::SeqCst))
            })
            .collect()
    }
    fn take_fired(&mut self) -> Vec<Fired> {
        std::mem::take(&mut *self.log.lock().unwrap())
    }
    fn take_panic(&mut self) -> Option<(String, String)> {
        self.panic.take()
    }
}

/// Reference model with known routing: one recency-ordered list (oldest first) per shard.
struct Exact {
    cap: usize,
    shards: Vec<Vec<(u64, u64)>>,
    route: BTreeMap<u64, usize>,
}

impl Exact {
    fn find(&self, k: u64) -> Option<(usize, usize)> {
        for (s, l) in self.shards.iter().enumerate() {
            if let Some(p) = l.iter().position(|e| e.0 == k) {
                return Some((s, p));
            }
        }
        None
    }
    fn value(&self, k: u64) -> Option<u64> {
        self.find(k).map(|(s, p)| self.shards[s][p].1)
    }
    fn touch(&mut self, k: u64) {
        if let Some((s, p)) = self.find(k) {
            let e = self.shards[s].remove(p);
            self.shards[s].push(e);
        }
    }
    fn remove(&mut self, k: u64) {
        if let Some((s, p)) = self.find(k) {
            self.shards[s].remove(p);
        }
    }
    fn total(&self) -> usize {
        self.shards.iter().map(|l| l.len()).sum()
    }
}

/// What became of the most recent value put for a key (routing-independent view).
#[derive(Clone, Copy, PartialEq, Debug)]
enum Fate {
    Alive,
    Removed,
    Cleared,
    Evicted,
}

/// Reference for the strategies whose routing is not a function of the key: only what the
/// statement says about the map as a whole.
#[derive(Default)]
struct Global {
    latest: BTreeMap<u64, (u64, Fate)>,
}

#[derive(Clone, Copy, PartialEq)]
enum Strat {
    Hash,
    RoundRobin,
    ThreadAffinity,
}

fn diff_one(before: &[(u64, u64)], after: &[(u64, u64)], which: usize) -> Option<usize> {
    let mut hit = None;
    for i in 0..before.len().min(after.len()) {
        let (b, a) = if which == 0 { (before[i].0, after[i].0) } else { (before[i].1, after[i].1) };
        if a != b {
            if hit.is_some() {
                return None;
            }
            hit = Some(i);
        }
    }
    hit
}

struct LruParams {
    /// "LruMap" or "ConcurrentLruMap"
    ty: &'static str,
    nshards: usize,
    cap_per_shard: usize,
    nkeys: u64,
    nthreads: usize,
    exact: bool,
    planned: u64,
    /// false: the map was built without a recording callback; what a put evicted is learned
    /// from which keys `contains_key` no longer reports
    has_cb: bool,
    /// operation mix: upper bounds (of 100) for put, get, remove, contains_key, len; the rest is len-or-clear
    mix: [u64; 5],
}

/// Operation mixes drawn per run: the original one, remove-heavy (drains the map, unlinks head and
/// tail nodes back to back), put-heavy (eviction on nearly every step), clear/len-heavy.
const MIXES: [[u64; 5]; 4] = [[45, 75, 85, 92, 97], [30, 50, 80, 88, 95], [65, 80, 90, 94, 97], [40, 65, 75, 80, 85]];

/// Drive one history against `tg` and compare with the reference.
fn lru_history(cx: &mut Run, tg: &mut dyn Target, p: &LruParams) {
    let mut ex = Exact { cap: p.cap_per_shard, shards: vec![vec![]; p.nshards], route: BTreeMap::new() };
    let mut gl = Global::default();
    let site = |op: &str| format!("{}.{}", p.ty, op);
    let mut ops = cx.src.ops("ops", p.planned);
    let mut next_val = 100u64;
    let mut evictions = 0u64;
    let total_cap = tg.capacity();
    if total_cap != p.cap_per_shard * p.nshards {
        cx.ev(format!("capacity() = {} (configured {} x {})", total_cap, p.nshards, p.cap_per_shard));
    }
    while let Some(o) = ops.next() {
        cx.steps += 1;
        let k = o[1] % p.nkeys;
        let t = (o[3] as usize) % p.nthreads;
        let who = if p.nthreads > 1 { format!("t{} ", t) } else { String::new() };
        let kind = o[0] % 100;
        let before = if p.exact && p.nshards > 1 { tg.counters() } else { vec![] };
        if kind < p.mix[0] {
            // ---- put
            let v = next_val;
            next_val += 1;
            let r = tg.put(t, k, v);
            let fired = tg.take_fired();
            let fired_txt: Vec<String> = fired.iter().map(|f| format!("({},{})", f.1, f.2)).collect();
            cx.ev(format!("{}put({},{}) -> {:?} evicted=[{}]", who, k, v, r, fired_txt.join(",")));
            cx.cell(format!("{}/put/{}", p.ty, if fired.is_empty() { "plain" } else { "evict" }));
            if let Some((loc, msg)) = tg.take_panic() {
                cx.violate("panic", &loc, msg);
                return;
            }
            if let Err(e) = &r {
                cx.violate("put_refused", &site("put"), format!("put({},{}) failed with '{}' although the map holds {} of {} entries", k, v, e, tg.len(), total_cap));
                return;
            }
            let mut fired = fired;
            if p.has_cb {
                evictions += fired.len() as u64;
            }
            if p.exact {
                let s = if p.nshards == 1 {
                    0
                } else {
                    let after = tg.counters();
                    match diff_one(&before, &after, 0) {
                        Some(s) => s,
                        None => panic!("c17 harness: cannot learn the shard of put({}) from the statistics {:?} -> {:?}", k, before, after),
                    }
                };
                if let Some(&old) = ex.route.get(&k) {
                    if old != s {
                        cx.violate("unstable_routing", &site("put"), format!("key {} was served by shard {} before and is now put into shard {}", k, old, s));
                        return;
                    }
                }
                ex.route.insert(k, s);
                if !p.has_cb {
                    // no callback to record what was evicted: the entries of this shard that
                    // contains_key no longer reports (oldest first)
                    let mut gone: Vec<Fired> = vec![];
                    for e in ex.shards[s].iter() {
                        if e.0 != k && !tg.contains_direct(e.0) {
                            gone.push((s, e.0, e.1));
                        }
                    }
                    if !gone.is_empty() {
                        let txt: Vec<String> = gone.iter().map(|f| format!("({},{})", f.1, f.2)).collect();
                        cx.ev(format!("  no longer contained after this put: [{}]", txt.join(",")));
                        cx.cell(format!("{}/put/evict-inferred", p.ty));
                    }
                    evictions += gone.len() as u64;
                    fired = gone;
                }
                for f in &fired {
                    match ex.shards[s].iter().position(|e| e.0 == f.1 && e.1 == f.2) {
                        Some(0) => {
                            ex.shards[s].remove(0);
                        }
                        Some(pos) => {
                            let oldest = ex.shards[s][0];
                            cx.violate("evicted_not_lru", &site("put"), format!("put({},{}) evicted ({},{}) but the least recently used entry of that shard is ({},{}) [recency position {} of {}]", k, v, f.1, f.2, oldest.0, oldest.1, pos, ex.shards[s].len()));
                            return;
                        }
                        None => {
                            let what = match ex.value(f.1) {
                                Some(cur) if cur != f.2 => format!("the map holds value {} for that key", cur),
                                Some(_) => "that entry lives in another shard".to_string(),
                                None => "no such entry is in the map (already evicted or removed)".to_string(),
                            };
                            cx.violate("callback_wrong_entry", &site("put"), format!("put({},{}) called the eviction callback with ({},{}) but {}", k, v, f.1, f.2, what));
                            return;
                        }
                    }
                }
                if ex.shards[s].iter().any(|e| e.0 == k) {
                    ex.touch(k);
                    let l = ex.shards[s].len();
                    ex.shards[s][l - 1].1 = v;
                } else {
                    ex.shards[s].push((k, v));
                }
                let real = tg.shard_lens();
                if real[s] > ex.cap {
                    cx.violate("over_capacity", &site("put"), format!("shard {} holds {} entries after put({},{}), capacity is {}", s, real[s], k, v, ex.cap));
                    return;
                }
                if ex.shards[s].len() > ex.cap && !p.has_cb {
                    cx.violate("over_capacity", &site("put"), format!("after put({},{}) contains_key still reports all {} keys put into shard {} and not removed, capacity is {} (len() of the shard = {})", k, v, ex.shards[s].len(), s, ex.cap, real[s]));
                    return;
                }
                if ex.shards[s].len() > ex.cap {
                    cx.violate("eviction_without_callback", &site("put"), format!("put({},{}) into a full shard (capacity {}) made room without calling the eviction callback; shard now holds {} entries", k, v, ex.cap, real[s]));
                    return;
                }
                for f in fired.iter().filter(|_| p.has_cb) {
                    if tg.contains(t, f.1) {
                        cx.violate("callback_for_live_entry", &site("put"), format!("eviction callback was called with ({},{}) during put({},{}) but key {} is still in the map", f.1, f.2, k, v, f.1));
                        return;
                    }
                }
            } else {
                for f in &fired {
                    if let Some(e) = gl.latest.get_mut(&f.1) {
                        if e.0 == f.2 && e.1 == Fate::Alive {
                            e.1 = Fate::Evicted;
                        }
                    }
                }
                gl.latest.insert(k, (v, Fate::Alive));
                let n = tg.len();
                if n > total_cap {
                    cx.violate("over_capacity", &site("put"), format!("map holds {} entries after put({},{}), capacity is {}", n, k, v, total_cap));
                    return;
                }
            }
        } else if kind < p.mix[1] {
            // ---- get
            let r = tg.get(t, k);
            let fired = tg.take_fired();
            cx.ev(format!("{}get({}) -> {:?}", who, k, r));
            if let Some((loc, msg)) = tg.take_panic() {
                cx.violate("panic", &loc, msg);
                return;
            }
            if p.exact {
                let want = ex.value(k);
                cx.cell(format!("{}/get/{}", p.ty, if want.is_some() { "present" } else { "absent" }));
                if p.nshards > 1 {
                    let after = tg.counters();
                    if let (Some(s), Some(&old)) = (diff_one(&before, &after, 1), ex.route.get(&k)) {
                        if s != old {
                            cx.violate("unstable_routing", &site("get"), format!("key {} was put into shard {} and get looked into shard {}", k, old, s));
                            return;
                        }
                    }
                }
                if r != want {
                    let (class, why) = match (want, r) {
                        (Some(_), None) => ("lost_entry", "the key was put, never evicted (no callback), removed or cleared"),
                        (Some(_), Some(_)) => ("stale_value", "a more recent value was put for the key"),
                        (None, _) => ("served_after_removal", "the key was evicted, removed or cleared"),
                    };
                    cx.violate(class, &site("get"), format!("get({}) returned {:?}, expected {:?}: {}", k, r, want, why));
                    return;
                }
                ex.touch(k);
            } else {
                let st = gl.latest.get(&k).copied();
                let bad = match (st, r) {
                    (Some((v, Fate::Alive)), Some(x)) if x == v => None,
                    (Some((v, Fate::Alive)), None) => Some(("lost_entry", format!("get({}) returned None; value {} was put and neither evicted (no callback) nor removed", k, v))),
                    (Some((v, Fate::Alive)), Some(x)) => Some(("stale_value", format!("get({}) returned {}, the most recent value put is {}", k, x, v))),
                    (Some((v, Fate::Evicted)), Some(x)) if x == v => Some(("callback_for_live_entry", format!("the eviction callback was called with ({},{}) and get({}) still returns it", k, v, k))),
                    (Some((v, f)), Some(x)) => Some((if x == v { "served_after_removal" } else { "stale_value" }, format!("get({}) returned {} although the key was {:?} (most recent value put: {})", k, x, f, v))),
                    (None, Some(x)) => Some(("served_after_removal", format!("get({}) returned {} for a key that was never put", k, x))),
                    (_, None) => None,
                };
                if let Some((class, detail)) = bad {
                    cx.violate(class, &site("get"), detail);
                    return;
                }
            }
            if let Some(v) = check_quiet(&fired, &ex, &gl, p, "get") {
                cx.violate(&v.class, &v.site, v.detail);
                return;
            }
        } else if kind < p.mix[2] {
            // ---- remove
            let r = tg.remove(t, k);
            let fired = tg.take_fired();
            cx.ev(format!("{}remove({}) -> {:?}", who, k, r));
            if let Some((loc, msg)) = tg.take_panic() {
                cx.violate("panic", &loc, msg);
                return;
            }
            ex.remove(k);
            if let Some(e) = gl.latest.get_mut(&k) {
                e.1 = Fate::Removed;
            }
            if let Some(v) = check_quiet(&fired, &ex, &gl, p, "remove") {
                cx.violate(&v.class, &v.site, v.detail);
                return;
            }
        } else if kind < p.mix[3] {
            // ---- contains_key
            let r = tg.contains(t, k);
            cx.ev(format!("{}contains_key({}) -> {}", who, k, r));
            if let Some((loc, msg)) = tg.take_panic() {
                cx.violate("panic", &loc, msg);
                return;
            }
            let want = if p.exact {
                Some(ex.value(k).is_some())
            } else {
                match gl.latest.get(&k) {
                    Some((_, Fate::Alive)) => Some(true),
                    Some((_, Fate::Evicted)) => None,
                    _ => Some(false),
                }
            };
            if let Some(w) = want {
                if w != r {
                    cx.violate(if w { "lost_entry" } else { "served_after_removal" }, &site("contains_key"), format!("contains_key({}) returned {}, expected {}", k, r, w));
                    return;
                }
            }
        } else if kind < p.mix[4] || o[2] % 2 == 1 {
            // ---- len, is_empty
            let n = tg.len();
            let empty = tg.is_empty();
            cx.ev(format!("len() -> {}, is_empty() -> {}", n, empty));
            if p.exact && empty != (ex.total() == 0) {
                cx.violate("len_mismatch", &site("is_empty"), format!("is_empty() = {} but {} entries were put and not evicted/removed/cleared (len() = {})", empty, ex.total(), n));
                return;
            }
            if !p.exact && empty != (n == 0) {
                cx.violate("len_mismatch", &site("is_empty"), format!("is_empty() = {} but len() = {}", empty, n));
                return;
            }
            if o[2] % 8 == 7 {
                // rebalance() may move nothing a caller can see: every key stays retrievable with its
                // value, recency order per shard stays (checked by the steps that follow)
                if let Some(r) = tg.rebalance() {
                    let fired = tg.take_fired();
                    cx.ev(format!("rebalance() -> {:?}", r));
                    cx.probe("rebalance");
                    if let Some(v) = check_quiet(&fired, &ex, &gl, p, "rebalance") {
                        cx.violate(&v.class, &v.site, v.detail);
                        return;
                    }
                }
            }
            if o[2] % 8 < 2 {
                // the shards as for_each_shard shows them
                match tg.shard_view() {
                    None => {}
                    Some(Err(e)) => cx.ev(format!("for_each_shard -> Err({})", e)),
                    Some(Ok(view)) => {
                        cx.ev(format!("for_each_shard (len, capacity) sorted -> {:?}", view));
                        cx.probe("for_each_shard");
                        if let Some(bad) = view.iter().find(|x| x.0 > x.1) {
                            cx.violate("over_capacity", &site("for_each_shard"), format!("a shard holds {} entries, its capacity() is {}", bad.0, bad.1));
                            return;
                        }
                        let mut want: Vec<usize> = if p.exact { ex.shards.iter().map(|l| l.len()).collect() } else { tg.shard_lens() };
                        want.sort();
                        let got: Vec<usize> = view.iter().map(|x| x.0).collect();
                        if got != want {
                            cx.violate("len_mismatch", &site("for_each_shard"), format!("for_each_shard visited shards with {:?} entries, expected {:?} ({} shards)", got, want, p.nshards));
                            return;
                        }
                    }
                }
            }
            if n > total_cap {
                cx.violate("over_capacity", &site("len"), format!("len() = {} exceeds the capacity {}", n, total_cap));
                return;
            }
            if p.exact && n != ex.total() {
                cx.violate("len_mismatch", &site("len"), format!("len() = {} but {} entries were put and not evicted/removed/cleared", n, ex.total()));
                return;
            }
        } else {
            // ---- clear
            let r = tg.clear(t);
            let fired = tg.take_fired();
            cx.ev(format!("{}clear() -> {:?}", who, r));
            if let Some((loc, msg)) = tg.take_panic() {
                cx.violate("panic", &loc, msg);
                return;
            }
            if r.is_ok() {
                for l in ex.shards.iter_mut() {
                    l.clear();
                }
                for e in gl.latest.values_mut() {
                    e.1 = Fate::Cleared;
                }
                cx.probe("clear");
            }
            if let Some(v) = check_quiet(&fired, &ex, &gl, p, "clear") {
                cx.violate(&v.class, &v.site, v.detail);
                return;
            }
        }
        // cross-invariant after every step (contains_key does not touch recency)
        if p.exact {
            for key in 0..p.nkeys {
                let want = ex.value(key).is_some();
                // (wide key spaces: asked from the driving thread, routing by key does not depend on the caller)
                let got = if p.nkeys > 8 { tg.contains_direct(key) } else { tg.contains(t, key) };
                if got != want {
                    cx.violate(if want { "lost_entry" } else { "served_after_removal" }, &site("contains_key"), format!("after this step contains_key({}) = {}, expected {}", key, got, want));
                    return;
                }
            }
        }
    }
    cx.probe_n("evictions", evictions);
    if p.cap_per_shard == 1 && evictions > 0 {
        cx.probe("eviction_with_capacity_1");
    }
    cx.nontrivial = evictions >= 1;
}

/// Callbacks fired by an operation that evicts nothing: allowed for entries that are gone
/// afterwards (clear, remove), never for one that is still retrievable.  (Only where the
/// routing is known; with key-independent routing "still retrievable" has no model.)
fn check_quiet(fired: &[Fired], ex: &Exact, _gl: &Global, p: &LruParams, op: &str) -> Option<Violation> {
    if !p.exact {
        return None;
    }
    for f in fired {
        if ex.value(f.1) == Some(f.2) {
            return Some(Violation::new("callback_for_live_entry", &format!("{}.{}", p.ty, op), format!("{} called the eviction callback with ({},{}) although that entry stays in the map", op, f.1, f.2)));
        }
    }
    None
}

fn lru_base_config(cfg: &Chan, cap: usize) -> (LruMapConfig, &'static str) {
    let (mut c, name) = match cfg.below(4) {
        0 => (LruMapConfig::default(), "default"),
        1 => (LruMapConfig::performance_optimized(), "performance_optimized"),
        2 => (LruMapConfig::memory_optimized(), "memory_optimized"),
        _ => (LruMapConfig::security_optimized(), "security_optimized"),
    };
    c.capacity = cap;
    (c, name)
}

/// Fields of the preset flipped independently of each other (one run in three), so that a
/// setting is not only ever seen together with the rest of "its" preset.
fn lru_cfg_flips(cfg: &Chan, c: &mut LruMapConfig) -> String {
    if cfg.below(3) != 2 {
        return String::new();
    }
    c.enable_access_tracking = cfg.below(2) == 1;
    c.enable_statistics = cfg.below(2) == 1;
    c.use_secure_memory = cfg.below(2) == 1;
    c.initial_hash_capacity = *cfg.pick(&[1usize, 2, 16, 128]);
    c.prefetch_distance = cfg.below(4) as usize;
    c.load_factor = *cfg.pick(&[0.5, 0.75, 0.9]);
    format!(" flipped[access_tracking={} statistics={} secure_memory={} hash_capacity={} prefetch={} load_factor={}]", c.enable_access_tracking, c.enable_statistics, c.use_secure_memory, c.initial_hash_capacity, c.prefetch_distance, c.load_factor)
}

/// Per-run knobs shared by the LRU scenarios (drawn after the original configuration draws):
/// how keys hash and the operation mix.
fn lru_knobs(cfg: &Chan) -> (u64, [u64; 5], usize) {
    let hash_mode = cfg.biased_zero(HASH_MODES.len() as u64, 1, 3);
    HASH_MODE.store(hash_mode, Ordering::SeqCst);
    let mix = cfg.biased_zero(MIXES.len() as u64, 1, 2) as usize;
    (hash_mode, MIXES[mix], mix)
}

/// `plain_ctor`: the constructors without a callback (`new`, `with_config`); what was evicted is
/// learned from `contains_key`.
struct LruMapSeq {
    plain_ctor: bool,
}

impl Scenario for LruMapSeq {
    fn name(&self) -> String {
        if self.plain_ctor { "lru_map/plain_ctor".into() } else { "lru_map/seq".into() }
    }
    fn budget(&self, tier: Tier) -> u64 {
        match (self.plain_ctor, tier) {
            (false, Tier::Quick) => 36_000,
            (false, Tier::Thorough) => 1_080_000,
            (true, Tier::Quick) => 8_000,
            (true, Tier::Thorough) => 240_000,
        }
    }
    fn run(&self, cx: &mut Run) {
        zsim_core::hooks::reset();
        let cfg = cx.src.chan("cfg");
        let cap = 1 + cfg.small(5) as usize;
        let mut nkeys = 3 + cfg.below(4);
        let planned = 8 + cfg.below(50);
        let (mut c, preset) = lru_base_config(&cfg, cap);
        let (hash_mode, mix, mix_no) = lru_knobs(&cfg);
        let flips = lru_cfg_flips(&cfg, &mut c);
        // 0 = the constructor that takes a configuration, 1 = the one that takes only a capacity
        let short_ctor = cfg.below(3) == 0;
        if cfg.below(6) == 0 {
            nkeys += 4 + cfg.below(4);
        }
        let p = LruParams { ty: "LruMap", nshards: 1, cap_per_shard: cap, nkeys, nthreads: 1, exact: true, planned, has_cb: !self.plain_ctor, mix };
        let (cb, log) = new_cb();
        let (ctor, mut tg): (&str, Box<dyn Target>) = if self.plain_ctor {
            let (ctor, made) = if short_ctor { ("new", LruMap::<Key, u64>::new(cap)) } else { ("with_config", LruMap::<Key, u64>::with_config(c)) };
            match made {
                Ok(map) => (ctor, Box::new(Plain::<NoOpEvictionCallback> { map, log })),
                Err(e) => {
                    cx.violate("construct_refused", &format!("LruMap.{}", ctor), format!("capacity {} preset {}: {}", cap, preset, e));
                    return;
                }
            }
        } else {
            let (ctor, made) = if short_ctor { ("with_eviction_callback", LruMap::with_eviction_callback(cap, cb)) } else { ("with_config_and_callback", LruMap::with_config_and_callback(c, cb)) };
            match made {
                Ok(map) => (ctor, Box::new(Plain::<RecCb> { map, log })),
                Err(e) => {
                    cx.violate("construct_refused", &format!("LruMap.{}", ctor), format!("capacity {} preset {}: {}", cap, preset, e));
                    return;
                }
            }
        };
        cx.ev(format!("LruMap capacity={} preset={}{} ctor={} keys=0..{} key-hash={} mix={}", cap, if short_ctor { "-" } else { preset }, if short_ctor { "" } else { &flips }, ctor, nkeys, HASH_MODES[hash_mode as usize], mix_no));
        if hash_mode != 0 {
            cx.probe("keys_share_hashes");
        }
        lru_history(cx, &mut *tg, &p);
    }
}

struct ConcLru {
    strat: Strat,
    /// `new` / `with_config` (no callback), hash routing
    plain_ctor: bool,
}

impl Scenario for ConcLru {
    fn name(&self) -> String {
        if self.plain_ctor {
            return "concurrent_lru/plain_ctor".into();
        }
        format!(
            "concurrent_lru/{}",
            match self.strat {
                Strat::Hash => "hash",
                Strat::RoundRobin => "round_robin",
                Strat::ThreadAffinity => "thread_affinity",
            }
        )
    }
    fn budget(&self, tier: Tier) -> u64 {
        if self.plain_ctor {
            return match tier {
                Tier::Quick => 5_000,
                Tier::Thorough => 150_000,
            };
        }
        match (self.strat, tier) {
            (Strat::Hash, Tier::Quick) => 18_000,
            (Strat::Hash, Tier::Thorough) => 540_000,
            (_, Tier::Quick) => 2_500,
            (_, Tier::Thorough) => 75_000,
        }
    }
    fn run(&self, cx: &mut Run) {
        zsim_core::hooks::reset();
        let cfg = cx.src.chan("cfg");
        let nshards = *cfg.pick(&[1usize, 2, 2, 4, 4, 8]);
        let cap = 1 + cfg.small(4) as usize;
        let mut nkeys = 4 + cfg.below(5);
        let planned = 8 + cfg.below(50);
        let nthreads = 1 + cfg.below(3) as usize;
        let via_new = cfg.below(3) == 0 && self.strat == Strat::Hash;
        let (mut base, preset) = lru_base_config(&cfg, cap);
        let flips = lru_cfg_flips(&cfg, &mut base);
        // routing is learned from the per-shard statistics of the map itself
        base.enable_statistics = true;
        let (cb, log) = new_cb();
        let lb = match self.strat {
            Strat::Hash => LoadBalancingStrategy::Hash,
            Strat::RoundRobin => LoadBalancingStrategy::RoundRobin,
            Strat::ThreadAffinity => LoadBalancingStrategy::ThreadAffinity,
        };
        // total capacity is divided by the shard count (rounded down)
        let extra = if via_new { cfg.below(nshards as u64) as usize } else { 0 };
        let ctor = match (self.plain_ctor, via_new) {
            (false, true) => "with_eviction_callback",
            (false, false) => "with_config_and_callback",
            (true, true) => "new",
            (true, false) => "with_config",
        };
        let ccfg = ConcurrentLruMapConfig { base_config: base, shard_count: nshards, load_balancing: lb };
        let refused = |cx: &mut Run, e: ZiporaError| cx.violate("construct_refused", &format!("ConcurrentLruMap.{}", ctor), format!("{} shards x capacity {} preset {}: {}", nshards, cap, preset, e));
        enum Made {
            Cb(Arc<CMap<RecCb>>),
            NoCb(Arc<CMap<NoOpEvictionCallback>>),
        }
        let made = if self.plain_ctor {
            match if via_new { ConcurrentLruMap::<Key, u64>::new(cap * nshards + extra, nshards) } else { ConcurrentLruMap::<Key, u64>::with_config(ccfg) } {
                Ok(m) => Made::NoCb(Arc::new(m)),
                Err(e) => return refused(cx, e),
            }
        } else {
            match if via_new { ConcurrentLruMap::with_eviction_callback(cap * nshards + extra, nshards, cb) } else { ConcurrentLruMap::with_config_and_callback(ccfg, cb) } {
                Ok(m) => Made::Cb(Arc::new(m)),
                Err(e) => return refused(cx, e),
            }
        };
        let mut pool = Pool::new(0);
        let mut workers = vec![];
        if self.strat == Strat::ThreadAffinity {
            // Which shard a thread is bound to depends on its ThreadId, which differs from
            // process to process.  The seed chooses the binding; threads are started until
            // one with each wanted binding exists (learned by letting the thread do one
            // `get` on a scratch map of the same shape and reading the shard statistics).
            let probe = Arc::new(
                ConcurrentLruMap::<u64, u64>::with_config(ConcurrentLruMapConfig { base_config: LruMapConfig { capacity: 1, ..Default::default() }, shard_count: nshards, load_balancing: LoadBalancingStrategy::ThreadAffinity })
                    .expect("probe map"),
            );
            let wanted: Vec<usize> = (0..nthreads).map(|_| cfg.below(nshards as u64) as usize).collect();
            let mut have: BTreeMap<usize, usize> = BTreeMap::new();
            let mut tries = 0;
            while wanted.iter().any(|w| !have.contains_key(w)) {
                tries += 1;
                assert!(tries < 2000, "c17 harness: no thread with the wanted shard affinity found");
                let w = pool.add();
                let before: Vec<u64> = (0..nshards).map(|i| probe.shard_stats(i).unwrap().get_count.load(Ordering::SeqCst)).collect();
                let pm = probe.clone();
                let _ = pool.run(w, move || pm.get(&0));
                let s = (0..nshards).find(|&i| probe.shard_stats(i).unwrap().get_count.load(Ordering::SeqCst) != before[i]).expect("probe get not counted");
                if wanted.contains(&s) && !have.contains_key(&s) {
                    have.insert(s, w);
                } else {
                    pool.retire(w);
                }
            }
            for w in &wanted {
                workers.push(have[w]);
            }
            cx.ev(format!("threads bound to shards {:?}", wanted));
        } else {
            for _ in 0..nthreads {
                workers.push(pool.add());
            }
        }
        // knobs added later (drawn last): key hashing, operation mix, key space scaled to the shard count
        let (hash_mode, mix, mix_no) = lru_knobs(&cfg);
        match cfg.biased_zero(3, 1, 3) {
            0 => {}
            1 => nkeys *= 2.min(nshards as u64),
            _ => nkeys = (nkeys * nshards as u64).min(40),
        }
        if nkeys > 8 {
            cx.probe("wide_key_space");
        }
        if hash_mode != 0 {
            cx.probe("keys_share_hashes");
        }
        cx.ev(format!("ConcurrentLruMap shards={} capacity/shard={} preset={}{} ctor={} keys=0..{} threads={} key-hash={} mix={}", nshards, cap, if via_new { "-" } else { preset }, if via_new { "" } else { &flips }, ctor, nkeys, nthreads, HASH_MODES[hash_mode as usize], mix_no));
        let mut tg: Box<dyn Target> = match made {
            Made::Cb(map) => Box::new(Sharded { map, pool, workers, log, panic: None }),
            Made::NoCb(map) => Box::new(Sharded { map, pool, workers, log, panic: None }),
        };
        let p = LruParams { ty: "ConcurrentLruMap", nshards, cap_per_shard: cap, nkeys, nthreads, exact: self.strat == Strat::Hash, planned, has_cb: !self.plain_ctor, mix };
        lru_history(cx, &mut *tg, &p);
    }
}

// =======================================================================================
// Page cache
// =======================================================================================

struct Scratch {
    dir: PathBuf,
}

impl Scratch {
    fn new(seed: u64, tag: &str) -> Scratch {
        let dir = std::env::temp_dir().join(format!("zsim-c17-{}-{}-{:016x}", tag, std::process::id(), seed));
        let _ = std::fs::remove_dir_all(&dir);
        std::fs::create_dir_all(&dir).expect("scratch dir");
        Scratch { dir }
    }
}

impl Drop for Scratch {
    fn drop(&mut self) {
        let _ = std::fs::remove_dir_all(&self.dir);
    }
}

/// Content of file `f` in generation `gen` at offset `off`: differs between neighbouring
/// offsets, between pages, between files and between generations.
fn fill(f: usize, gen: u64, off: usize) -> u8 {
    ((off % 251) as u8) ^ (((off / PAGE_SIZE) as u8).wrapping_mul(37)) ^ ((gen as u8).wrapping_mul(101)) ^ ((f as u8).wrapping_mul(53)).wrapping_add(1)
}

#[derive(Default)]
struct FaultSt {
    calls: u64,
    fired: u64,
    armed: bool,
}

/// The two page-cache front ends behind one face.
trait Pc {
    fn ty(&self) -> &'static str;
    fn open(&self, p: &PathBuf) -> Result<FileId, String>;
    /// `how`: 0 = read, 1 = second read flavour (read_with_prefetch / read into a caller's buffer;
    /// `variant` chooses where that buffer comes from)
    fn read(&mut self, how: u64, f: FileId, off: u64, len: usize, ahead: usize, variant: u64) -> Result<Vec<u8>, String>;
    /// name of the read flavour, for the event text and the coverage cell
    fn flavour(&self, how: u64, variant: u64) -> &'static str;
    fn register_virtual(&self) -> Result<FileId, String>;
    fn read_batch(&mut self, reqs: Vec<(FileId, u64, usize)>) -> Option<Result<Vec<Vec<u8>>, String>>;
    fn prefetch(&self, f: FileId, off: u64, len: usize) -> Result<(), String>;
    fn invalidate_page(&self, f: FileId, page: u32) -> Result<(), String>;
    fn invalidate_range(&self, f: FileId, off: u64, len: usize) -> Result<(), String>;
    fn mark_dirty(&self, f: FileId, page: u32) -> Result<(), String>;
    fn flush_file(&self, f: FileId) -> Result<(), String>;
    fn close(&self, f: FileId) -> Result<(), String>;
    fn file_size(&self, f: FileId) -> Result<u64, String>;
    /// (served from cache, evictions)
    fn counters(&self) -> (u64, u64);
    /// pages held / pages allowed, where the front end tells
    fn occupancy(&self) -> Option<(usize, usize)>;
}

fn es<T>(r: zipora::error::Result<T>) -> Result<T, String> {
    r.map_err(|e| e.to_string())
}

struct Multi(LruPageCache);

impl Pc for Multi {
    fn ty(&self) -> &'static str {
        "LruPageCache"
    }
    fn open(&self, p: &PathBuf) -> Result<FileId, String> {
        es(self.0.open_file(p))
    }
    fn read(&mut self, how: u64, f: FileId, off: u64, len: usize, ahead: usize, _variant: u64) -> Result<Vec<u8>, String> {
        let b = if how == 0 { self.0.read(f, off, len) } else { self.0.read_with_prefetch(f, off, len, ahead) };
        es(b).map(|b| b.data().to_vec())
    }
    fn flavour(&self, how: u64, _variant: u64) -> &'static str {
        if how == 0 { "read" } else { "read_with_prefetch" }
    }
    fn register_virtual(&self) -> Result<FileId, String> {
        es(self.0.register_file(-1))
    }
    fn read_batch(&mut self, reqs: Vec<(FileId, u64, usize)>) -> Option<Result<Vec<Vec<u8>>, String>> {
        Some(es(self.0.read_batch(reqs)).map(|v| v.iter().map(|b| b.data().to_vec()).collect()))
    }
    fn prefetch(&self, f: FileId, off: u64, len: usize) -> Result<(), String> {
        es(self.0.prefetch(f, off, len))
    }
    fn invalidate_page(&self, f: FileId, page: u32) -> Result<(), String> {
        es(self.0.invalidate_page(f, page))
    }
    fn invalidate_range(&self, f: FileId, off: u64, len: usize) -> Result<(), String> {
        es(self.0.invalidate_range(f, off, len))
    }
    fn mark_dirty(&self, f: FileId, page: u32) -> Result<(), String> {
        es(self.0.mark_dirty(f, page))
    }
    fn flush_file(&self, f: FileId) -> Result<(), String> {
        es(self.0.flush_file(f))
    }
    fn close(&self, f: FileId) -> Result<(), String> {
        es(self.0.close_file(f))
    }
    fn file_size(&self, f: FileId) -> Result<u64, String> {
        es(self.0.file_size(f))
    }
    fn counters(&self) -> (u64, u64) {
        let s = self.0.stats();
        (s.hit_counts[0], s.hit_counts[1])
    }
    fn occupancy(&self) -> Option<(usize, usize)> {
        None
    }
}

struct Single {
    c: SingleLruPageCache,
    pool: BufferPool,
    /// a buffer the caller keeps for the whole run and hands to `read` again and again as it is
    /// (still holding the previous result)
    own: CacheBuffer,
}

impl Pc for Single {
    fn ty(&self) -> &'static str {
        "SingleLruPageCache"
    }
    fn open(&self, p: &PathBuf) -> Result<FileId, String> {
        es(self.c.open_file(p))
    }
    fn read(&mut self, how: u64, f: FileId, off: u64, len: usize, _ahead: usize, variant: u64) -> Result<Vec<u8>, String> {
        if how == 0 {
            es(self.c.read_new(f, off, len)).map(|b| b.data().to_vec())
        } else if variant % 3 == 0 {
            // into a recycled buffer
            let mut b: CacheBuffer = self.pool.get();
            let r = es(self.c.read(f, off, len, &mut b)).map(|_| b.data().to_vec());
            self.pool.put(b);
            r
        } else if variant % 3 == 1 {
            // into the caller's own buffer, not cleared since the last read
            let r = es(self.c.read(f, off, len, &mut self.own));
            if r.is_ok() && variant % 2 == 0 {
                // the caller makes room in its buffer before looking at the result: growing the
                // buffer must not change (or unhook) what it holds
                let want = self.own.capacity() * 2 + (1 << 16);
                self.own.reserve(want);
            }
            r.map(|_| self.own.data().to_vec())
        } else {
            // into a buffer that was made from other data
            let mut b = CacheBuffer::from_data(vec![0xEE; 4500]);
            es(self.c.read(f, off, len, &mut b)).map(|_| b.data().to_vec())
        }
    }
    fn flavour(&self, how: u64, variant: u64) -> &'static str {
        match (how, variant % 3) {
            (0, _) => "read_new",
            (_, 0) => "read",
            (_, 1) => "read(reused-buffer)",
            _ => "read(from_data-buffer)",
        }
    }
    fn register_virtual(&self) -> Result<FileId, String> {
        es(self.c.register_file(-1))
    }
    fn read_batch(&mut self, _reqs: Vec<(FileId, u64, usize)>) -> Option<Result<Vec<Vec<u8>>, String>> {
        None
    }
    fn prefetch(&self, f: FileId, off: u64, len: usize) -> Result<(), String> {
        es(self.c.prefetch(f, off, len))
    }
    fn invalidate_page(&self, f: FileId, page: u32) -> Result<(), String> {
        es(self.c.invalidate_page(f, page))
    }
    fn invalidate_range(&self, f: FileId, off: u64, len: usize) -> Result<(), String> {
        es(self.c.invalidate_range(f, off, len))
    }
    fn mark_dirty(&self, f: FileId, page: u32) -> Result<(), String> {
        es(self.c.mark_dirty(f, page))
    }
    fn flush_file(&self, f: FileId) -> Result<(), String> {
        es(self.c.flush_file(f))
    }
    fn close(&self, f: FileId) -> Result<(), String> {
        es(self.c.close_file(f))
    }
    fn file_size(&self, f: FileId) -> Result<u64, String> {
        es(self.c.file_size(f))
    }
    fn counters(&self) -> (u64, u64) {
        let s = self.c.stats().snapshot();
        (s.hit_counts[0], s.hit_counts[1])
    }
    fn occupancy(&self) -> Option<(usize, usize)> {
        Some((self.c.size(), self.c.capacity() / PAGE_SIZE))
    }
}

struct PcFile {
    path: PathBuf,
    id: FileId,
    gen: u64,
    data: Vec<u8>,
    /// length of the file when the current id was opened (it may have been appended to since)
    size_at_open: usize,
}

struct PageCache {
    single: bool,
    faulty: bool,
}

fn page_cache_config(cfg: &Chan) -> (PageCacheConfig, String) {
    let (c, name) = match cfg.below(4) {
        0 => (PageCacheConfig::balanced(), "balanced"),
        // the preset asks for huge pages, which need >= 2 MiB of capacity; the small caches used here switch them off
        1 => (PageCacheConfig::performance_optimized().with_huge_pages(false), "performance_optimized"),
        2 => (PageCacheConfig::memory_optimized(), "memory_optimized"),
        _ => (PageCacheConfig::security_optimized(), "security_optimized"),
    };
    let pages = cfg.below(5) as usize;
    let odd = *cfg.pick(&[0usize, 0, 1, 100, 4095]);
    let capacity = (pages * PAGE_SIZE + odd).max(1);
    let shards = *cfg.pick(&[1u32, 2, 3, 4, 8, 64]);
    // the remaining builder settings, independently of the preset (one run in three)
    let (c, extra) = if cfg.below(3) == 2 {
        let (pf, st, lf) = (cfg.below(2) == 1, cfg.below(2) == 1, *cfg.pick(&[0.5, 0.75, 0.9]));
        (c.with_prefetch(pf).with_statistics(st).with_load_factor(lf), format!(" prefetch={} statistics={} load_factor={}", pf, st, lf))
    } else {
        (c, String::new())
    };
    (c.with_capacity(capacity).with_shards(shards), format!("preset={} capacity={}B ({} pages) shards={}{}", name, capacity, capacity / PAGE_SIZE, shards, extra))
}

const LENS: [usize; 12] = [0, 1, 2, 100, 4095, 4096, 4097, 5000, 8192, 8193, 10000, 13000];
const DELTAS: [i64; 10] = [0, 0, -1, 1, -2, 2, 100, 2048, 4000, -100];
/// far beyond EOF: page number 2^32 (which a 32-bit page id cannot name), 2^32 + 1, and the last 16 KiB below u64::MAX
const FAR: [u64; 3] = [1 << 44, (1 << 44) + 4096, u64::MAX - 16383];

impl Scenario for PageCache {
    fn name(&self) -> String {
        format!("{}/{}", if self.single { "single_page_cache" } else { "page_cache" }, if self.faulty { "faulty" } else { "clean" })
    }
    fn budget(&self, tier: Tier) -> u64 {
        match tier {
            Tier::Quick => 2_500,
            Tier::Thorough => 75_000,
        }
    }
    fn run(&self, cx: &mut Run) {
        zsim_core::hooks::reset();
        let cfg = cx.src.chan("cfg");
        let (pcc, desc) = page_cache_config(&cfg);
        let cap_pages = pcc.capacity / PAGE_SIZE;
        let nfiles = 1 + cfg.below(2) as usize;
        let planned = 6 + cfg.below(30);
        let fault_den = *cfg.pick(&[3u64, 6, 12]);
        // one fault-free run in twelve also uses offsets far beyond EOF (beyond what a 32-bit page
        // number can name, and near u64::MAX)
        let far_offsets = cfg.below(12) == 11 && !self.faulty;
        // one run in four: a cache in which all the files fit (16 pages; file sizes still follow the
        // drawn capacity), so that a page read again is served from the cache and only an invalidation
        // brings new bytes in
        let roomy = cfg.below(4) == 3;
        // one fault-free run in ten: a disk change may also append to the file (the appended range,
        // which starts inside the old last page, is invalidated like any other changed range)
        let grows = cfg.below(10) == 9 && !self.faulty;
        let (pcc, desc) = if roomy { (pcc.with_capacity(16 * PAGE_SIZE), format!("{} -> roomy: capacity 16 pages", desc)) } else { (pcc, desc) };
        if roomy {
            cx.probe("cache_holds_all_files");
        }
        let scratch = Scratch::new(cx.src.seed, if self.faulty { "pf" } else { "pc" });
        let mut pc: Box<dyn Pc> = if self.single {
            match SingleLruPageCache::new(pcc) {
                Ok(c) => Box::new(Single { c, pool: BufferPool::new(2), own: CacheBuffer::new() }),
                Err(e) => {
                    cx.violate("construct_refused", "SingleLruPageCache.new", format!("{}: {}", desc, e));
                    return;
                }
            }
        } else {
            match LruPageCache::new(pcc) {
                Ok(c) => Box::new(Multi(c)),
                Err(e) => {
                    cx.violate("construct_refused", "LruPageCache.new", format!("{}: {}", desc, e));
                    return;
                }
            }
        };
        let ty = pc.ty();
        cx.ev(format!("{} {}{}", ty, desc, if far_offsets { " far-offsets" } else { "" }));
        // files larger than the cache, sizes around page boundaries
        let mut files: Vec<PcFile> = vec![];
        for f in 0..nfiles {
            let pages = cap_pages + 1 + cfg.below(4) as usize;
            let tail = *cfg.pick(&[0usize, 0, 0, 0, 0, 0, 1, 100, 904, 4095]);
            let size = if f == 1 && cfg.below(4) == 0 { *cfg.pick(&[0usize, 1, 4096]) } else { pages * PAGE_SIZE + tail };
            let data: Vec<u8> = (0..size).map(|o| fill(f, 0, o)).collect();
            let path = scratch.dir.join(format!("f{}.bin", f));
            std::fs::write(&path, &data).expect("write scratch file");
            let id = match pc.open(&path) {
                Ok(id) => id,
                Err(e) => {
                    cx.violate("open_refused", &format!("{}.open_file", ty), e);
                    return;
                }
            };
            cx.ev(format!("open f{} size={} ({} pages + {})", f, size, size / PAGE_SIZE, size % PAGE_SIZE));
            match pc.file_size(id) {
                Ok(n) if n == size as u64 => {}
                other => {
                    cx.violate("wrong_file_size", &format!("{}.file_size", ty), format!("file_size(f{}) = {:?}, the file has {} bytes", f, other, size));
                    return;
                }
            }
            files.push(PcFile { path, id, gen: 0, size_at_open: data.len(), data });
        }
        // fault hook: fails FileManager::read_page at seeded calls
        let fst = Arc::new(Mutex::new(FaultSt::default()));
        if self.faulty {
            let ch = cx.src.chan("fault");
            let st = fst.clone();
            zsim_core::hooks::set_fault(Some(Box::new(move |site| {
                if site != "cache.read_page" {
                    return false;
                }
                let mut s = st.lock().unwrap();
                if !s.armed {
                    return false;
                }
                s.calls += 1;
                let fire = ch.chance(1, fault_den);
                if fire {
                    s.fired += 1;
                }
                fire
            })));
        }
        // pages whose load may have been hit by an injected failure and which were not invalidated since
        let mut suspect: BTreeSet<(usize, usize)> = BTreeSet::new();
        let mut over_capacity_seen = false;
        let mut ops = cx.src.ops("ops", planned);
        while let Some(o) = ops.next() {
            cx.steps += 1;
            let fi = (o[3] as usize / 16) % files.len();
            let size = files[fi].data.len();
            let npages = (size + PAGE_SIZE - 1) / PAGE_SIZE;
            let mk_range = |a: u64, b: u64, c: u64| -> (u64, usize) {
                let base = (a % (npages as u64 + 2)) as i64 * PAGE_SIZE as i64;
                let mut off = (base + DELTAS[(b % DELTAS.len() as u64) as usize]).max(0) as u64;
                if far_offsets && (a / 64) % 8 == 7 {
                    off = FAR[((a / 512) % FAR.len() as u64) as usize] + off % 8192;
                }
                (off, LENS[(c % LENS.len() as u64) as usize])
            };
            let (off, len) = mk_range(o[1], o[2], o[3]);
            // The fault family keeps clear of the one range shape the fault-free family already
            // reports on (a range that ends beyond EOF inside a partial last page), so that what
            // it reports is attributable to the injected failures.
            let faulty = self.faulty;
            let clip = move |sz: usize, off: u64, len: usize| -> usize {
                if faulty && sz % PAGE_SIZE != 0 && (off as usize) < sz && off as usize + len > sz {
                    sz - off as usize
                } else {
                    len
                }
            };
            let len = clip(size, off, len);
            // (a zero-length prefetch / invalidate_range at an exact multiple of 2^44 used to walk all 2^32
            // pages - hours, with unbounded memory in invalidate_range - and was not generated; it is
            // generated since fix 160acbd, and a regression shows as a hang)
            if off >= 1 << 40 {
                // (announced beforehand: the result of such a call is often a panic, which leaves no event of its own)
                cx.ev(format!("next operation (kind {}) uses the far offset {} with length {}", o[0] % 100, off, len));
                cx.probe("far_offset");
            }
            let expect = |files: &Vec<PcFile>, fi: usize, off: u64, len: usize| -> Vec<u8> {
                let d = &files[fi].data;
                let s = (off as usize).min(d.len());
                let e = (off as usize).saturating_add(len).min(d.len());
                d[s..e].to_vec()
            };
            let pages_of = |off: u64, len: usize| -> Vec<usize> {
                if len == 0 {
                    return vec![];
                }
                let a = off as usize / PAGE_SIZE;
                let b = (off as usize).saturating_add(len - 1) / PAGE_SIZE;
                (a..=b).collect()
            };
            // superset of the pages a call on this range may load (a zero-length range still
            // makes the implementation visit the page of `off` or of `off - 1`)
            let may_touch = |off: u64, len: usize| -> Vec<usize> {
                let a = (off as usize).saturating_sub(1) / PAGE_SIZE;
                let b = (off as usize).saturating_add(len) / PAGE_SIZE;
                (a..=b).collect()
            };
            let kind = o[0] % 100;
            fst.lock().unwrap().armed = true;
            let fired_before = fst.lock().unwrap().fired;
            // (operation name, requests, results)
            let mut reads: Vec<(usize, u64, usize)> = vec![];
            // ranges the call may load besides the ones it returns (read-ahead)
            let mut also: Vec<(usize, u64, usize)> = vec![];
            let mut results: Option<Result<Vec<Vec<u8>>, String>> = None;
            let mut opname = "read";
            if kind < 50 {
                let how = if kind < 35 { 0 } else { 1 };
                let ahead = LENS[(o[0] as usize / 100) % LENS.len()];
                let variant = o[0] / 100;
                opname = pc.flavour(how, variant);
                reads.push((fi, off, len));
                if how == 1 && !self.single {
                    also.push((fi, off.saturating_add(len as u64), ahead));
                }
                results = Some(pc.read(how, files[fi].id, off, len, ahead, variant).map(|v| vec![v]));
            } else if kind < 58 {
                let n = 2 + (o[0] / 100) % 2;
                for j in 0..n {
                    let fj = ((o[3] / 7 + j) as usize) % files.len();
                    let npj = (files[fj].data.len() + PAGE_SIZE - 1) / PAGE_SIZE;
                    let base = ((o[1] / (j + 1)) % (npj as u64 + 2)) as i64 * PAGE_SIZE as i64;
                    let offj = (base + DELTAS[((o[2] / (j + 1)) % DELTAS.len() as u64) as usize]).max(0) as u64;
                    let lenj = clip(files[fj].data.len(), offj, LENS[((o[3] / (j + 1)) % LENS.len() as u64) as usize]);
                    reads.push((fj, offj, lenj));
                }
                let reqs: Vec<(FileId, u64, usize)> = reads.iter().map(|r| (files[r.0].id, r.1, r.2)).collect();
                match pc.read_batch(reqs) {
                    Some(r) => {
                        opname = "read_batch";
                        results = Some(r);
                    }
                    None => {
                        // front end without batches: issue them one by one
                        opname = "read_new";
                        let mut out = vec![];
                        let mut err = None;
                        for r in &reads {
                            match pc.read(0, files[r.0].id, r.1, r.2, 0, 0) {
                                Ok(v) => out.push(v),
                                Err(e) => {
                                    err = Some(e);
                                    break;
                                }
                            }
                        }
                        results = Some(match err {
                            Some(e) => Err(e),
                            None => Ok(out),
                        });
                    }
                }
            } else if kind < 66 {
                let r = pc.prefetch(files[fi].id, off, len);
                cx.ev(format!("prefetch f{} off={} len={} -> {:?}", fi, off, len, r));
                let fired = fst.lock().unwrap().fired - fired_before;
                if fired > 0 {
                    for _ in 0..fired {
                        cx.fault("read_page_error");
                    }
                    for pg in may_touch(off, len) {
                        suspect.insert((fi, pg));
                    }
                }
                if r.is_err() && fired == 0 {
                    cx.violate("prefetch_refused", &format!("{}.prefetch", ty), format!("prefetch(f{}, {}, {}) failed without an injected fault: {:?}", fi, off, len, r));
                    return;
                }
            } else if kind < 74 {
                let pg = (o[1] % (npages as u64 + 1)) as u32;
                let r = pc.invalidate_page(files[fi].id, pg);
                cx.ev(format!("invalidate_page f{} page={} -> {:?}", fi, pg, r));
                suspect.remove(&(fi, pg as usize));
                cx.probe("invalidate_page");
            } else if kind < 80 {
                let r = pc.invalidate_range(files[fi].id, off, len);
                cx.ev(format!("invalidate_range f{} off={} len={} -> {:?}", fi, off, len, r));
                // (a zero-length range names no byte; the implementation's choice of pages for it is not modelled)
                for pg in pages_of(off, len) {
                    suspect.remove(&(fi, pg));
                }
                cx.probe("invalidate_range");
            } else if kind < 92 {
                // the disk changes: rewrite a region in place (same size), then tell the cache
                if grows && o[2] % 4 == 3 {
                    let wlen = len.max(1);
                    files[fi].gen += 1;
                    let gen = files[fi].gen;
                    for i in size..size + wlen {
                        files[fi].data.push(fill(fi, gen, i));
                    }
                    {
                        let mut fh = std::fs::OpenOptions::new().append(true).open(&files[fi].path).expect("reopen scratch file");
                        fh.write_all(&files[fi].data[size..]).unwrap();
                        fh.flush().unwrap();
                    }
                    let r = pc.invalidate_range(files[fi].id, size as u64, wlen);
                    cx.ev(format!("disk change f{}: {} bytes appended at {} (generation {}), then invalidate (range) -> {:?}", fi, wlen, size, gen, r));
                    cx.probe("file_grew_while_open");
                    if r.is_err() {
                        cx.violate("invalidate_refused", &format!("{}.invalidate_range", ty), format!("{:?}", r));
                        return;
                    }
                } else if size > 0 {
                    let woff = (off as usize).min(size - 1);
                    let wlen = len.max(1).min(size - woff);
                    files[fi].gen += 1;
                    let gen = files[fi].gen;
                    for i in woff..woff + wlen {
                        files[fi].data[i] = fill(fi, gen, i);
                    }
                    {
                        let mut fh = std::fs::OpenOptions::new().write(true).open(&files[fi].path).expect("reopen scratch file");
                        fh.seek(SeekFrom::Start(woff as u64)).unwrap();
                        fh.write_all(&files[fi].data[woff..woff + wlen]).unwrap();
                        fh.flush().unwrap();
                    }
                    let r = if o[2] % 2 == 0 {
                        pc.invalidate_range(files[fi].id, woff as u64, wlen)
                    } else {
                        let mut r = Ok(());
                        for pg in pages_of(woff as u64, wlen) {
                            let x = pc.invalidate_page(files[fi].id, pg as u32);
                            if x.is_err() {
                                r = x;
                            }
                        }
                        r
                    };
                    cx.ev(format!("disk change f{} off={} len={} (generation {}), then invalidate ({}) -> {:?}", fi, woff, wlen, gen, if o[2] % 2 == 0 { "range" } else { "page by page" }, r));
                    for pg in pages_of(woff as u64, wlen) {
                        suspect.remove(&(fi, pg));
                    }
                    cx.probe("disk_change");
                    if r.is_err() {
                        cx.violate("invalidate_refused", &format!("{}.invalidate_range", ty), format!("{:?}", r));
                        return;
                    }
                }
            } else if kind < 96 {
                let pg = (o[1] % (npages as u64 + 1)) as u32;
                let r1 = pc.mark_dirty(files[fi].id, pg);
                let r2 = if o[2] % 2 == 0 { pc.flush_file(files[fi].id) } else { Ok(()) };
                cx.ev(format!("mark_dirty f{} page={} -> {:?}{}", fi, pg, r1, if o[2] % 2 == 0 { format!(", flush_file -> {:?}", r2) } else { String::new() }));
            } else if !self.faulty && o[1] % 4 == 3 {
                // the same path opened a second time while the first id stays open: read through
                // the second id, close it again; the first id must go on working (later operations)
                let id2 = match pc.open(&files[fi].path) {
                    Ok(id) => id,
                    Err(e) => {
                        cx.violate("open_refused", &format!("{}.open_file", ty), e);
                        return;
                    }
                };
                let got = pc.read(0, id2, off, len, 0, 0);
                let want = expect(&files, fi, off, len);
                cx.ev(format!("open f{} a second time, {} off={} len={} through the second id -> {}", fi, pc.flavour(0, 0), off, len, match &got { Ok(b) => format!("Ok[{} bytes]", b.len()), Err(_) => "Err".to_string() }));
                cx.probe("second_id_for_open_file");
                match got {
                    Ok(b) if b == want => {}
                    Ok(b) => {
                        let class = if b.len() < want.len() { "short_read" } else if b.len() > want.len() { "long_read" } else { "wrong_bytes" };
                        cx.violate(class, &format!("{}.read", ty), format!("{}(f{}, off={}, len={}) through a second id of the same file returned {} bytes, the file has {} bytes in that range{}", pc.flavour(0, 0), fi, off, len, b.len(), want.len(), if b.len() == want.len() { " (content differs)" } else { "" }));
                        return;
                    }
                    Err(e) => {
                        cx.violate("read_refused", &format!("{}.read", ty), format!("read through a second id of f{} failed without an injected fault: {}", fi, e));
                        return;
                    }
                }
                if let Err(e) = pc.close(id2) {
                    cx.violate("close_refused", &format!("{}.close_file", ty), e);
                    return;
                }
            } else {
                // close and open again: a new file id, nothing of the old one may be served
                let r = pc.close(files[fi].id);
                cx.ev(format!("close_file f{} -> {:?}", fi, r));
                if let Err(e) = r {
                    cx.violate("close_refused", &format!("{}.close_file", ty), e);
                    return;
                }
                if o[1] % 4 == 1 {
                    // while it is closed the file is replaced by one of another size
                    let old = files[fi].data.len();
                    let size = match o[2] % 6 {
                        0 => 0,
                        1 => 1,
                        2 => PAGE_SIZE,
                        3 => old + PAGE_SIZE + 100,
                        4 => old.saturating_sub(PAGE_SIZE),
                        _ => old / 2,
                    };
                    files[fi].gen += 1;
                    let gen = files[fi].gen;
                    files[fi].data = (0..size).map(|o| fill(fi, gen, o)).collect();
                    std::fs::write(&files[fi].path, &files[fi].data).expect("rewrite scratch file");
                    cx.ev(format!("f{} replaced while closed: {} -> {} bytes (generation {})", fi, old, size, gen));
                    cx.probe("resized_while_closed");
                }
                if !self.faulty && o[1] % 4 == 2 {
                    // a virtual file id is handed out (and read through) between close and open
                    let v = pc.register_virtual();
                    let r = match &v {
                        Ok(v) => Some(pc.read(0, *v, off % (2 * PAGE_SIZE as u64), len, 0, 0).map(|b| b.len())),
                        Err(_) => None,
                    };
                    cx.ev(format!("register_file(-1) -> {}, read through it -> {:?}", if v.is_ok() { "Ok" } else { "Err" }, r.map(|r| r.map_err(|_| "Err"))));
                    cx.probe("virtual_file_id");
                }
                match pc.open(&files[fi].path) {
                    Ok(id) => {
                        files[fi].id = id;
                        files[fi].size_at_open = files[fi].data.len();
                    }
                    Err(e) => {
                        cx.violate("open_refused", &format!("{}.open_file", ty), e);
                        return;
                    }
                }
                match pc.file_size(files[fi].id) {
                    Ok(n) if n == files[fi].data.len() as u64 => {}
                    other => {
                        cx.violate("wrong_file_size", &format!("{}.file_size", ty), format!("file_size(f{}) = {:?} after reopening, the file has {} bytes", fi, other, files[fi].data.len()));
                        return;
                    }
                }
                suspect.retain(|s| s.0 != fi);
                cx.probe("close_reopen");
            }
            fst.lock().unwrap().armed = false;
            if let Some(res) = results {
                let fired = fst.lock().unwrap().fired - fired_before;
                for _ in 0..fired {
                    cx.fault("read_page_error");
                }
                // every read flavour goes through the same read path: one site per front end
                let site = format!("{}.read", ty);
                let returned: Vec<(usize, usize)> = reads.iter().flat_map(|r| pages_of(r.1, r.2).into_iter().map(move |p| (r.0, p))).collect();
                let touched: Vec<(usize, usize)> = reads.iter().chain(also.iter()).flat_map(|r| may_touch(r.1, r.2).into_iter().map(move |p| (r.0, p))).collect();
                let was_suspect = returned.iter().any(|t| suspect.contains(t));
                if fired > 0 {
                    for t in &touched {
                        suspect.insert(*t);
                    }
                }
                let req_txt: Vec<String> = reads.iter().map(|r| format!("f{} off={} len={}", r.0, r.1, r.2)).collect();
                match res {
                    Err(e) => {
                        cx.ev(format!("{} [{}] -> Err{}", opname, req_txt.join("; "), if fired > 0 { " (injected read_page failure)" } else { "" }));
                        if fired == 0 {
                            cx.violate("read_refused", &site, format!("{} [{}] failed without an injected fault: {}", opname, req_txt.join("; "), e));
                            return;
                        }
                    }
                    Ok(bufs) => {
                        if bufs.len() != reads.len() {
                            cx.ev(format!("{} [{}] -> {} buffers", opname, req_txt.join("; "), bufs.len()));
                            cx.violate("wrong_result_count", &site, format!("{} requests, {} buffers", reads.len(), bufs.len()));
                            return;
                        }
                        let mut bad: Option<(String, String)> = None;
                        let mut got_txt = vec![];
                        for (r, b) in reads.iter().zip(bufs.iter()) {
                            let want = expect(&files, r.0, r.1, r.2);
                            got_txt.push(format!("{} bytes", b.len()));
                            if *b != want && bad.is_none() {
                                let what = if b.len() != want.len() {
                                    format!("returned {} bytes, the file has {} bytes in that range (file size {})", b.len(), want.len(), files[r.0].data.len())
                                } else {
                                    let i = (0..b.len()).find(|&i| b[i] != want[i]).unwrap();
                                    format!("byte {} of the result (file offset {}) is {:#04x}, the file has {:#04x}", i, r.1 as usize + i, b[i], want[i])
                                };
                                // the file was appended to since it was opened and the result is exactly what the
                                // file held up to its old length: the appended bytes are not seen (own class, so that
                                // this does not blur any other short read)
                                let at_open = files[r.0].size_at_open;
                                let unseen_growth = at_open < files[r.0].data.len() && {
                                    let s0 = (r.1 as usize).min(at_open);
                                    let e0 = (r.1 as usize).saturating_add(r.2).min(at_open);
                                    b[..] == files[r.0].data[s0..e0]
                                };
                                let class = if fired > 0 {
                                    "fault_swallowed"
                                } else if was_suspect {
                                    "poisoned_page"
                                } else if unseen_growth {
                                    "appended_bytes_not_seen"
                                } else if b.len() < want.len() {
                                    "short_read"
                                } else if b.len() > want.len() {
                                    "long_read"
                                } else {
                                    "wrong_bytes"
                                };
                                let ctx = if fired > 0 {
                                    " — a page load failed (injected) during this call and the call still returned Ok"
                                } else if was_suspect {
                                    " — no fault in this call; an earlier call had a page load fail on one of these pages"
                                } else if unseen_growth {
                                    " — the file was appended to (and the appended range invalidated) after it was opened; the result ends at the length the file had when it was opened"
                                } else {
                                    ""
                                };
                                bad = Some((class.to_string(), format!("{}(f{}, off={}, len={}) {}{}", opname, r.0, r.1, r.2, what, ctx)));
                            }
                        }
                        cx.ev(format!("{} [{}] -> Ok[{}]{}", opname, req_txt.join("; "), got_txt.join(", "), if fired > 0 { format!(" ({} injected read_page failures)", fired) } else { String::new() }));
                        for r in &reads {
                            let end = (r.1 as usize).saturating_add(r.2);
                            let sz = files[r.0].data.len();
                            let c = if r.1 as usize >= sz {
                                "beyond_eof"
                            } else if end > sz {
                                "straddles_eof"
                            } else if r.2 > 0 && r.1 as usize / PAGE_SIZE != (end - 1) / PAGE_SIZE {
                                "straddles_pages"
                            } else {
                                "one_page"
                            };
                            cx.cell(format!("{}/{}/{}", ty, opname, c));
                        }
                        if let Some((class, detail)) = bad {
                            cx.violate(&class, &site, detail);
                            return;
                        }
                    }
                }
            }
            if let Some((held, allowed)) = pc.occupancy() {
                if held > allowed.max(1) && !over_capacity_seen {
                    over_capacity_seen = true;
                    cx.probe("pages_held_exceed_capacity");
                }
            }
        }
        zsim_core::hooks::set_fault(None);
        let (hits, evictions) = pc.counters();
        cx.probe_n("served_from_cache", hits);
        cx.probe_n("page_evictions", evictions);
        cx.nontrivial = cx.steps >= 3 && (hits > 0 || evictions > 0);
    }
}

// =======================================================================================
// Cached blob store
// =======================================================================================

struct StoreFaults {
    chan: Chan,
    den: u64,
    armed: bool,
    fired: u64,
    lost_acks: u64,
}

/// E3 seam for a wrapped store: fails put/get/remove before applying them, or after
/// ("lost acknowledgement"), at seeded calls.
struct FaultyStore {
    inner: MemoryBlobStore,
    st: Option<Arc<Mutex<StoreFaults>>>,
}

impl FaultyStore {
    /// 0 = no fault, 1 = fail before, 2 = fail after
    fn draw(&self) -> u64 {
        match &self.st {
            None => 0,
            Some(st) => {
                let mut s = st.lock().unwrap();
                if !s.armed {
                    return 0;
                }
                let d = s.chan.biased_zero(3, 1, s.den);
                if d > 0 {
                    s.fired += 1;
                }
                if d == 2 {
                    s.lost_acks += 1;
                }
                d
            }
        }
    }
}

fn injected() -> ZiporaError {
    ZiporaError::invalid_data("injected store fault")
}

impl BlobStore for FaultyStore {
    fn get(&self, id: RecordId) -> zipora::error::Result<Vec<u8>> {
        if self.draw() > 0 {
            return Err(injected());
        }
        self.inner.get(id)
    }
    fn put(&mut self, data: &[u8]) -> zipora::error::Result<RecordId> {
        let d = self.draw();
        if d == 1 {
            return Err(injected());
        }
        let r = self.inner.put(data);
        if d == 2 {
            return Err(injected());
        }
        r
    }
    fn remove(&mut self, id: RecordId) -> zipora::error::Result<()> {
        let d = self.draw();
        if d == 1 {
            return Err(injected());
        }
        let r = self.inner.remove(id);
        if d == 2 {
            return Err(injected());
        }
        r
    }
    fn contains(&self, id: RecordId) -> bool {
        self.inner.contains(id)
    }
    fn size(&self, id: RecordId) -> zipora::error::Result<Option<usize>> {
        self.inner.size(id)
    }
    fn len(&self) -> usize {
        self.inner.len()
    }
}

struct CachedBlob {
    faulty: bool,
}

const STRATS: [CacheWriteStrategy; 3] = [CacheWriteStrategy::WriteThrough, CacheWriteStrategy::WriteBack, CacheWriteStrategy::WriteAround];
const BLOB_LENS: [usize; 9] = [0, 1, 7, 100, 4095, 4096, 4097, 9000, 300];

/// One cached store with what the harness knows about it.
struct BlobSide {
    store: CachedBlobStore<FaultyStore>,
    ids: Vec<RecordId>,
    gone: Vec<RecordId>,
}

impl Scenario for CachedBlob {
    fn name(&self) -> String {
        format!("cached_blob/{}", if self.faulty { "faulty" } else { "clean" })
    }
    fn budget(&self, tier: Tier) -> u64 {
        match tier {
            Tier::Quick => 3_000,
            Tier::Thorough => 90_000,
        }
    }
    fn run(&self, cx: &mut Run) {
        zsim_core::hooks::reset();
        let cfg = cx.src.chan("cfg");
        let (pcc, desc) = page_cache_config(&cfg);
        let strat = STRATS[cfg.below(3) as usize];
        let planned = 5 + cfg.below(25);
        let den = *cfg.pick(&[4u64, 8, 16]);
        let st = if self.faulty { Some(Arc::new(Mutex::new(StoreFaults { chan: cx.src.chan("fault"), den, armed: false, fired: 0, lost_acks: 0 }))) } else { None };
        let inner = FaultyStore { inner: MemoryBlobStore::new(), st: st.clone() };
        let ctor = cfg.below(3);
        // one run in four: two cached stores over two wrapped stores share one page cache
        // (`with_cache`), their operations interleave
        let shared = cfg.below(4) == 3;
        let mut sides: Vec<BlobSide> = vec![];
        if shared {
            let cache = match LruPageCache::new(pcc) {
                Ok(c) => Arc::new(c),
                Err(e) => {
                    cx.violate("construct_refused", "LruPageCache.new", format!("{}: {}", desc, e));
                    return;
                }
            };
            let second = FaultyStore { inner: MemoryBlobStore::new(), st: st.clone() };
            for (i, w) in [inner, second].into_iter().enumerate() {
                match CachedBlobStore::with_cache(w, cache.clone()) {
                    Ok(mut s) => {
                        s.set_write_strategy(STRATS[(cfg.below(3) as usize + i) % 3]);
                        sides.push(BlobSide { store: s, ids: vec![], gone: vec![] });
                    }
                    Err(e) => {
                        cx.violate("construct_refused", "CachedBlobStore.with_cache", format!("{}: {}", desc, e));
                        return;
                    }
                }
            }
            cx.ev(format!("2 x CachedBlobStore::with_cache on one shared cache: {}", desc));
            cx.probe("two_stores_share_a_cache");
        } else {
            let made = match ctor {
                0 => CachedBlobStore::with_write_strategy(inner, pcc, strat),
                1 => match LruPageCache::new(pcc) {
                    Ok(c) => CachedBlobStore::with_cache_and_strategy(inner, Arc::new(c), strat),
                    Err(e) => Err(e),
                },
                _ => CachedBlobStore::new(inner, pcc).map(|mut s| {
                    s.set_write_strategy(strat);
                    s
                }),
            };
            match made {
                Ok(s) => sides.push(BlobSide { store: s, ids: vec![], gone: vec![] }),
                Err(e) => {
                    cx.violate("construct_refused", "CachedBlobStore.new", format!("{}: {}", desc, e));
                    return;
                }
            }
            cx.ev(format!("CachedBlobStore {:?} ctor={} cache: {}", strat, ctor, desc));
        }
        let nsides = sides.len();
        let fired_now = |st: &Option<Arc<Mutex<StoreFaults>>>| st.as_ref().map(|s| s.lock().unwrap().fired).unwrap_or(0);
        let arm = |st: &Option<Arc<Mutex<StoreFaults>>>, on: bool| {
            if let Some(s) = st {
                s.lock().unwrap().armed = on;
            }
        };
        let mut next_byte = 1u64;
        let mut gets_ok = 0u64;
        let mut ops = cx.src.ops("ops", planned);
        while let Some(o) = ops.next() {
            cx.steps += 1;
            let kind = o[0] % 100;
            let si = (o[3] as usize / 16) % nsides;
            let who = if nsides > 1 { format!("s{} ", si) } else { String::new() };
            let BlobSide { store, ids, gone } = &mut sides[si];
            let pick_id = |ids: &Vec<RecordId>, gone: &Vec<RecordId>, a: u64| -> RecordId {
                let n = ids.len() + gone.len() + 1;
                let i = (a as usize) % n;
                if i < ids.len() {
                    ids[i]
                } else if i - ids.len() < gone.len() {
                    gone[i - ids.len()]
                } else {
                    9999
                }
            };
            let before = fired_now(&st);
            if kind < 35 {
                let len = BLOB_LENS[(o[1] % BLOB_LENS.len() as u64) as usize];
                let tag = next_byte;
                next_byte += 1;
                let data: Vec<u8> = (0..len).map(|i| ((i as u64 * 7 + tag * 31) % 253) as u8 + 1).collect();
                arm(&st, true);
                let r = store.put(&data);
                arm(&st, false);
                let fired = fired_now(&st) - before;
                cx.ev(format!("{}put(len={} tag={}) -> {:?}{}", who, len, tag, r.as_ref().map_err(|e| e.to_string()), if fired > 0 { " (injected store fault)" } else { "" }));
                match r {
                    Ok(id) => {
                        ids.push(id);
                        gone.retain(|g| *g != id);
                        match store.inner().inner.get(id) {
                            Ok(b) if b == data => {}
                            other => {
                                cx.violate("put_not_stored", "CachedBlobStore.put", format!("put returned id {} but the wrapped store holds {:?} bytes for it, {} were put", id, other.map(|b| b.len()).map_err(|e| e.to_string()), len));
                                return;
                            }
                        }
                    }
                    Err(e) => {
                        if fired == 0 {
                            cx.violate("put_refused", "CachedBlobStore.put", format!("put of {} bytes failed without an injected fault: {}", len, e));
                            return;
                        }
                    }
                }
            } else if kind < 75 {
                let id = pick_id(&*ids, &*gone, o[1]);
                arm(&st, true);
                let r = store.get(id);
                arm(&st, false);
                let fired = fired_now(&st) - before;
                let raw = store.inner().inner.get(id);
                cx.ev(format!("{}get({}) -> {}{}", who, id, match &r { Ok(b) => format!("Ok({} bytes)", b.len()), Err(_) => "Err".to_string() }, if fired > 0 { " (injected store fault)" } else { "" }));
                cx.cell(format!("CachedBlobStore/get/{}", if raw.is_ok() { "present" } else { "absent" }));
                match (r, raw) {
                    (Ok(b), Ok(w)) => {
                        gets_ok += 1;
                        if b != w {
                            let what = if b.len() != w.len() { format!("{} bytes, the wrapped store returns {}", b.len(), w.len()) } else { format!("same length ({}) but different content", b.len()) };
                            cx.violate("wrong_bytes", "CachedBlobStore.get", format!("get({}) returned {}", id, what));
                            return;
                        }
                    }
                    (Ok(b), Err(_)) => {
                        cx.violate("served_after_removal", "CachedBlobStore.get", format!("get({}) returned {} bytes, the wrapped store has no such blob", id, b.len()));
                        return;
                    }
                    (Err(e), Ok(w)) => {
                        if fired == 0 {
                            cx.violate("get_refused", "CachedBlobStore.get", format!("get({}) failed ({}) without an injected fault; the wrapped store returns {} bytes", id, e, w.len()));
                            return;
                        }
                    }
                    (Err(_), Err(_)) => {}
                }
            } else if kind < 85 {
                let id = pick_id(&*ids, &*gone, o[1]);
                arm(&st, true);
                let r = store.remove(id);
                arm(&st, false);
                let fired = fired_now(&st) - before;
                let still = store.inner().inner.contains(id);
                cx.ev(format!("{}remove({}) -> {:?}{}", who, id, r.as_ref().map_err(|_| "Err"), if fired > 0 { " (injected store fault)" } else { "" }));
                if !still && ids.contains(&id) {
                    ids.retain(|x| *x != id);
                    gone.push(id);
                }
                if r.is_ok() && still {
                    cx.violate("remove_not_applied", "CachedBlobStore.remove", format!("remove({}) returned Ok but the wrapped store still holds the blob", id));
                    return;
                }
            } else if kind < 92 {
                let id = pick_id(&*ids, &*gone, o[1]);
                let (c, s, n, e) = (store.contains(id), store.size(id).ok().flatten(), store.len(), store.is_empty());
                let (rc, rs, rn, re) = (store.inner().inner.contains(id), store.inner().inner.size(id).ok().flatten(), store.inner().inner.len(), store.inner().inner.is_empty());
                cx.ev(format!("{}contains({}) -> {}, size -> {:?}, len -> {}, is_empty -> {}", who, id, c, s, n, e));
                if (c, s, n, e) != (rc, rs, rn, re) {
                    cx.violate("metadata_mismatch", "CachedBlobStore.contains", format!("contains/size/len/is_empty({}) = {:?}, the wrapped store says {:?}", id, (c, s, n, e), (rc, rs, rn, re)));
                    return;
                }
            } else {
                match o[1] % 7 {
                    0 => {
                        store.disable_cache();
                        cx.ev(format!("{}disable_cache", who));
                    }
                    1 => {
                        store.enable_cache();
                        cx.ev(format!("{}enable_cache", who));
                    }
                    2 => {
                        let s = STRATS[(o[2] % 3) as usize];
                        store.set_write_strategy(s);
                        let back = store.write_strategy();
                        cx.ev(format!("{}set_write_strategy {:?}", who, s));
                        if back != s {
                            cx.ev(format!("  write_strategy() -> {:?}", back));
                        }
                    }
                    3 => {
                        let r = store.prefetch_range((o[2] % 20000) as u64, LENS[(o[3] % LENS.len() as u64) as usize]);
                        cx.ev(format!("{}prefetch_range -> {:?}", who, r.map_err(|e| e.to_string())));
                    }
                    4 => {
                        let r = CachedBlobStore::flush(&*store);
                        cx.ev(format!("{}flush -> {:?}", who, r.map_err(|e| e.to_string())));
                    }
                    5 => {
                        // the wrapped store is written to directly (inner_mut), behind the wrapper's back
                        let len = BLOB_LENS[(o[2] % BLOB_LENS.len() as u64) as usize];
                        let tag = next_byte;
                        next_byte += 1;
                        let data: Vec<u8> = (0..len).map(|i| ((i as u64 * 7 + tag * 31) % 253) as u8 + 1).collect();
                        let r = store.inner_mut().inner.put(&data);
                        cx.ev(format!("{}inner_mut().put(len={} tag={}) -> {:?}", who, len, tag, r.as_ref().map_err(|e| e.to_string())));
                        if let Ok(id) = r {
                            ids.push(id);
                            gone.retain(|g| *g != id);
                            cx.probe("written_through_inner_mut");
                        }
                    }
                    _ => {
                        // ... and removed from directly
                        let id = pick_id(&*ids, &*gone, o[2]);
                        let r = store.inner_mut().inner.remove(id);
                        cx.ev(format!("{}inner_mut().remove({}) -> {:?}", who, id, r.as_ref().map_err(|_| "Err")));
                        if !store.inner().inner.contains(id) && ids.contains(&id) {
                            ids.retain(|x| *x != id);
                            gone.push(id);
                            cx.probe("removed_through_inner_mut");
                        }
                    }
                }
            }
        }
        if let Some(s) = &st {
            let s = s.lock().unwrap();
            for _ in 0..(s.fired - s.lost_acks) {
                cx.fault("store_error_before");
            }
            for _ in 0..s.lost_acks {
                cx.fault("store_lost_ack");
            }
        }
        cx.probe_n("gets_compared", gets_ok);
        cx.nontrivial = gets_ok >= 1;
    }
}

// =======================================================================================
// FSA cache
// =======================================================================================

struct FsaSeq;

impl Scenario for FsaSeq {
    fn name(&self) -> String {
        "fsa_cache/seq".into()
    }
    fn budget(&self, tier: Tier) -> u64 {
        match tier {
            Tier::Quick => 2_000,
            Tier::Thorough => 60_000,
        }
    }
    fn run(&self, cx: &mut Run) {
        zsim_core::hooks::reset();
        let cfg = cx.src.chan("cfg");
        let max_states = 1 + cfg.small(12) as usize;
        let strategy = [CacheStrategy::BreadthFirst, CacheStrategy::DepthFirst, CacheStrategy::CacheFriendly][cfg.below(3) as usize];
        let planned = 6 + cfg.below(40);
        let mut c = match cfg.below(3) {
            0 => FsaCacheConfig::default(),
            1 => FsaCacheConfig::small(),
            _ => FsaCacheConfig::memory_efficient(),
        };
        // (drawn last) one run in four: a cache large enough that one eviction round removes 2 or 3 states
        let big = cfg.biased_zero(4, 1, 4);
        let max_states = if big == 0 { max_states } else { [20usize, 25, 31][big as usize - 1] };
        let planned = if big == 0 { planned } else { planned + 30 };
        c.max_states = max_states;
        c.strategy = strategy;
        let mut cache = match FsaCache::with_config(c) {
            Ok(c) => c,
            Err(e) => {
                cx.violate("construct_refused", "FsaCache.with_config", e.to_string());
                return;
            }
        };
        cx.ev(format!("FsaCache max_states={} strategy={:?}", max_states, strategy));
        // id -> (parent, child_base, terminal, zero path) of the most recent state cached under that id
        let mut latest: BTreeMap<u32, (u32, u32, bool, Option<Vec<u8>>)> = BTreeMap::new();
        let mut removed: BTreeSet<u32> = BTreeSet::new();
        let mut next = 1u32;
        let mut evicted_seen = 0u64;
        let mut ops = cx.src.ops("ops", planned);
        while let Some(o) = ops.next() {
            cx.steps += 1;
            let kind = o[0] % 100;
            let some_id = |latest: &BTreeMap<u32, (u32, u32, bool, Option<Vec<u8>>)>, a: u64| -> u32 {
                let len = latest.len() as u64;
                let n = 3 * len + 2;
                let i = a % n;
                if i < 3 * len {
                    latest.keys().nth((i % len) as usize).copied().unwrap_or(77)
                } else if i == n - 1 {
                    0
                } else {
                    77
                }
            };
            if kind < 50 {
                let parent = (o[1] % 50) as u32;
                let base = next;
                next += 1;
                let term = o[2] % 2 == 0;
                let r = cache.cache_state(parent, base, term);
                cx.ev(format!("cache_state(parent={}, child_base={}, terminal={}) -> {:?}", parent, base, term, r.as_ref().map_err(|e| e.to_string())));
                if let Ok(id) = r {
                    if latest.contains_key(&id) && !removed.contains(&id) {
                        // the id was handed out before and never removed: its state was evicted and the id recycled
                        evicted_seen += 1;
                    }
                    latest.insert(id, (parent, base, term, None));
                    removed.remove(&id);
                }
                let n = cache.stats().cached_states;
                if n > max_states {
                    cx.violate("over_capacity", "FsaCache.cache_state", format!("{} states cached, max_states is {}", n, max_states));
                    return;
                }
            } else if kind < 80 {
                let id = some_id(&latest, o[1]);
                let r = cache.get_state(id);
                let zp = cache.get_zero_path(id).map(|z| z.get_full_path());
                cx.ev(format!("get_state({}) -> {:?} zero_path={:?}", id, r.map(|s| (s.parent(), s.child_base, s.is_terminal())), zp.as_ref().map(|z| z.len())));
                match (r, latest.get(&id)) {
                    (Some(s), Some(w)) => {
                        if removed.contains(&id) {
                            cx.violate("served_after_removal", "FsaCache.get_state", format!("get_state({}) returns a state after remove_state({})", id, id));
                            return;
                        }
                        if (s.parent(), s.child_base, s.is_terminal()) != (w.0, w.1, w.2) {
                            cx.violate("stale_value", "FsaCache.get_state", format!("get_state({}) = {:?}, the most recent state cached under that id is {:?}", id, (s.parent(), s.child_base, s.is_terminal()), (w.0, w.1, w.2)));
                            return;
                        }
                        if let Some(z) = &zp {
                            if Some(z) != w.3.as_ref() {
                                cx.violate("stale_value", "FsaCache.get_zero_path", format!("get_zero_path({}) returns a path of {} bytes, the state cached under that id has {:?}", id, z.len(), w.3.as_ref().map(|p| p.len())));
                                return;
                            }
                        }
                    }
                    (Some(_), None) => {
                        cx.violate("served_after_removal", "FsaCache.get_state", format!("get_state({}) returns a state for an id that was never handed out", id));
                        return;
                    }
                    (None, Some(_)) => {
                        if zp.is_some() {
                            cx.violate("stale_value", "FsaCache.get_zero_path", format!("state {} is gone but its zero path is still served", id));
                            return;
                        }
                    }
                    (None, None) => {}
                }
            } else if kind < 88 {
                let id = some_id(&latest, o[1]);
                let r = cache.remove_state(id);
                cx.ev(format!("remove_state({}) -> {}", id, r));
                if latest.contains_key(&id) {
                    removed.insert(id);
                }
            } else if kind < 97 {
                let id = some_id(&latest, o[1]);
                let mut z = ZeroPathData::new();
                let seg: Vec<u8> = (0..(1 + o[2] % 9)).map(|i| (next as u8).wrapping_add(i as u8)).collect();
                next += 1;
                let _ = z.add_segment(&seg);
                let r = cache.add_zero_path(id, z);
                cx.ev(format!("add_zero_path({}, {} bytes) -> {:?}", id, seg.len(), r.as_ref().map_err(|e| e.to_string())));
                if r.is_ok() {
                    if let Some(w) = latest.get_mut(&id) {
                        w.3 = Some(seg);
                    }
                }
            } else {
                cache.clear();
                cx.ev("clear()");
                latest.clear();
                removed.clear();
            }
        }
        cx.probe_n("state_evicted_and_id_reused", evicted_seen);
        cx.nontrivial = cx.steps >= 3;
    }
}

// ------------------------------------------------------------------------------------------
// several reader threads on one shared LruPageCache (E1): an extension beyond the access
// *sequences* the statement quantifies over - LruPageCache is Sync and meant to be shared, and
// "returns exactly the bytes of the underlying file" is not conditional on who else is reading.
// Scheduling points: the cache's and the file manager's locks and atomics (shimmed) plus the seek
// and read calls of FileManager::read_page (guarded points), because the OS file cursor is shared
// state between them.

struct PageCacheReaders;

impl Scenario for PageCacheReaders {
    fn name(&self) -> String {
        "page_cache/concurrent-readers".into()
    }
    fn budget(&self, tier: Tier) -> u64 {
        match tier {
            Tier::Quick => 1_500,
            Tier::Thorough => 60_000,
        }
    }
    fn run(&self, cx: &mut Run) {
        use zsim_core::e1;
        zsim_core::hooks::reset();
        let cfg = cx.src.chan("cfg");
        let nthreads = 2 + cfg.biased_zero(2, 1, 3) as usize;
        let e1cfg = e1::draw_cfg(&cfg, 20_000);
        let cap_pages = 1 + cfg.below(3) as usize;
        let shards = *cfg.pick(&[1u32, 2, 4]);
        let pcc = PageCacheConfig::balanced().with_capacity(cap_pages * PAGE_SIZE).with_shards(shards);
        let scratch = Scratch::new(cx.src.seed, "pr");
        let pc = match LruPageCache::new(pcc) {
            Ok(c) => Arc::new(c),
            Err(e) => {
                cx.violate("construct_refused", "LruPageCache.new", e.to_string());
                return;
            }
        };
        let pages = cap_pages + 2 + cfg.below(3) as usize;
        let size = pages * PAGE_SIZE + *cfg.pick(&[0usize, 0, 100]);
        let data: Arc<Vec<u8>> = Arc::new((0..size).map(|o| fill(0, 0, o)).collect());
        let path = scratch.dir.join("shared.bin");
        std::fs::write(&path, &data[..]).expect("write scratch file");
        let fid = match pc.open_file(&path) {
            Ok(id) => id,
            Err(e) => {
                cx.violate("open_refused", "LruPageCache.open_file", e.to_string());
                return;
            }
        };
        cx.ev(format!("LruPageCache capacity={} pages shards={} file={} pages +{} readers={}", cap_pages, shards, pages, size % PAGE_SIZE, nthreads));
        let out: Arc<Mutex<(Vec<String>, Option<zsim_core::Violation>)>> = Arc::new(Mutex::new((vec![], None)));
        let mut bodies: Vec<e1::Body> = vec![];
        for t in 0..nthreads {
            let planned = 1 + cfg.below(3);
            let mut ops = cx.src.ops(&format!("ops.t{}", t), planned);
            let mut list = vec![];
            while let Some(o) = ops.next() {
                list.push(o);
            }
            let (pc, data, out) = (pc.clone(), data.clone(), out.clone());
            bodies.push(Box::new(move |me: usize| {
                for o in &list {
                    let page = (o[0] as usize) % (data.len() / PAGE_SIZE);
                    let off = page * PAGE_SIZE + [0usize, 0, 1, 100, 4000][(o[1] % 5) as usize];
                    let len = [1usize, 16, 200, 4096, 5000][(o[2] % 5) as usize];
                    let want: &[u8] = &data[off.min(data.len())..(off + len).min(data.len())];
                    let r = pc.read(fid, off as u64, len);
                    let mut g = out.lock().unwrap();
                    match r {
                        Ok(b) => {
                            let got = b.data().to_vec();
                            g.0.push(format!("t{} read(off={}, len={}) -> {} bytes", me, off, len, got.len()));
                            if got != want && g.1.is_none() {
                                let at = got.iter().zip(want.iter()).position(|(a, b)| a != b).unwrap_or(got.len().min(want.len()));
                                g.1 = Some(zsim_core::Violation::new("wrong_bytes", "LruPageCache.read@concurrent", format!("t{} read(off={}, len={}) returned {} bytes that differ from the file at byte {} (file has {} bytes there); another reader was inside read_page at the same time", me, off, len, got.len(), at, want.len())));
                            }
                        }
                        Err(e) => g.0.push(format!("t{} read(off={}, len={}) -> Err({})", me, off, len, e.to_string().chars().take(40).collect::<String>())),
                    }
                }
            }));
        }
        let inv_out = out.clone();
        let inv: e1::Invariant = Box::new(move || inv_out.lock().unwrap().1.take());
        let sched = cx.src.chan("sched");
        let res = e1::run_threads(&sched, &e1cfg, bodies, Some(inv));
        let mut g = out.lock().unwrap();
        for e in &g.0 {
            cx.ev(e);
        }
        cx.trace.feed(res.hash);
        cx.steps = res.steps;
        cx.abandoned = res.abandoned;
        cx.probe_n("context_switches", res.switches);
        cx.probe_n("lock_waits", res.lock_waits);
        cx.nontrivial = res.switches >= 1;
        if let Some(v) = res.violation.or(g.1.take()) {
            cx.violate(&v.class, &v.site, v.detail);
        }
    }
}

// ------------------------------------------------------------------------------------------
// FileManager (cache/mod.rs), the loader under the page cache, driven directly: read_page and
// read_data (which no cache path calls) return the file's bytes at that page / range.

struct FileMgr;

impl Scenario for FileMgr {
    fn name(&self) -> String {
        "file_manager/seq".into()
    }
    fn budget(&self, tier: Tier) -> u64 {
        match tier {
            Tier::Quick => 1_500,
            Tier::Thorough => 60_000,
        }
    }
    fn run(&self, cx: &mut Run) {
        zsim_core::hooks::reset();
        let cfg = cx.src.chan("cfg");
        let nfiles = 1 + cfg.below(2) as usize;
        let planned = 6 + cfg.below(25);
        let scratch = Scratch::new(cx.src.seed, "fm");
        let fm = FileManager::new();
        let mut files: Vec<PcFile> = vec![];
        for f in 0..nfiles {
            let size = cfg.below(4) as usize * PAGE_SIZE + *cfg.pick(&[0usize, 0, 0, 1, 100, 904, 4095]);
            let data: Vec<u8> = (0..size).map(|o| fill(f, 0, o)).collect();
            let path = scratch.dir.join(format!("m{}.bin", f));
            std::fs::write(&path, &data).expect("write scratch file");
            let id = match fm.open_file(&path) {
                Ok(id) => id,
                Err(e) => {
                    cx.violate("open_refused", "FileManager.open_file", e.to_string());
                    return;
                }
            };
            cx.ev(format!("open m{} size={}", f, size));
            files.push(PcFile { path, id, gen: 0, size_at_open: data.len(), data });
        }
        let mut compared = 0u64;
        let mut ops = cx.src.ops("ops", planned);
        while let Some(o) = ops.next() {
            cx.steps += 1;
            let fi = (o[3] as usize / 16) % files.len();
            let size = files[fi].data.len();
            let npages = (size + PAGE_SIZE - 1) / PAGE_SIZE;
            let kind = o[0] % 100;
            if kind < 45 {
                // read_data: any range; the buffer is at least as long as the range (documented)
                let base = (o[1] % (npages as u64 + 2)) as i64 * PAGE_SIZE as i64;
                let mut off = (base + DELTAS[(o[2] % DELTAS.len() as u64) as usize]).max(0) as u64;
                if (o[1] / 64) % 16 == 15 {
                    off = FAR[((o[1] / 1024) % FAR.len() as u64) as usize] + off % 8192;
                }
                let len = LENS[(o[3] % LENS.len() as u64) as usize];
                let slack = [0usize, 0, 1, 700][(o[0] as usize / 100) % 4];
                let mut buf = vec![0xA5u8; len + slack];
                let r = fm.read_data(files[fi].id, off, len, &mut buf);
                let s = (off.min(size as u64)) as usize;
                let e = (off.saturating_add(len as u64).min(size as u64)) as usize;
                let want = &files[fi].data[s..e];
                cx.ev(format!("read_data m{} off={} len={} buffer={} -> {:?}", fi, off, len, buf.len(), r.as_ref().map_err(|e| e.to_string())));
                cx.cell(format!("FileManager/read_data/{}", if s >= size { "beyond_eof" } else if off as usize + len > size { "straddles_eof" } else { "inside" }));
                match r {
                    Err(e) => {
                        cx.violate("read_refused", "FileManager.read_data", format!("read_data(m{}, off={}, len={}) into a buffer of {} bytes failed: {}", fi, off, len, buf.len(), e));
                        return;
                    }
                    Ok(n) => {
                        compared += 1;
                        if n != want.len() {
                            cx.violate(if n < want.len() { "short_read" } else { "long_read" }, "FileManager.read_data", format!("read_data(m{}, off={}, len={}) returned {}, the file (size {}) has {} bytes in that range", fi, off, len, n, size, want.len()));
                            return;
                        }
                        if let Some(i) = (0..n).find(|&i| buf[i] != want[i]) {
                            cx.violate("wrong_bytes", "FileManager.read_data", format!("read_data(m{}, off={}, len={}): byte {} (file offset {}) is {:#04x}, the file has {:#04x}", fi, off, len, i, off as usize + i, buf[i], want[i]));
                            return;
                        }
                    }
                }
            } else if kind < 80 {
                // read_page: a whole-page buffer (documented); the count is the valid prefix
                let pg = if (o[1] / 64) % 16 == 15 { [u32::MAX, u32::MAX / 2, 1 << 20][(o[1] / 1024) as usize % 3] } else { (o[1] % (npages as u64 + 2)) as u32 };
                let mut buf = vec![0xA5u8; PAGE_SIZE];
                let r = fm.read_page(files[fi].id, pg, &mut buf);
                let s = (pg as usize).saturating_mul(PAGE_SIZE).min(size);
                let e = (pg as usize).saturating_mul(PAGE_SIZE).saturating_add(PAGE_SIZE).min(size);
                let want = &files[fi].data[s..e];
                cx.ev(format!("read_page m{} page={} -> {:?}", fi, pg, r.as_ref().map_err(|e| e.to_string())));
                cx.cell(format!("FileManager/read_page/{}", if want.is_empty() { "beyond_eof" } else if want.len() < PAGE_SIZE { "last_partial" } else { "full" }));
                match r {
                    Err(e) => {
                        cx.violate("read_refused", "FileManager.read_page", format!("read_page(m{}, page {}) failed: {}", fi, pg, e));
                        return;
                    }
                    Ok(n) => {
                        compared += 1;
                        if n != want.len() {
                            cx.violate(if n < want.len() { "short_read" } else { "long_read" }, "FileManager.read_page", format!("read_page(m{}, page {}) returned {}, the file (size {}) has {} bytes in that page", fi, pg, n, size, want.len()));
                            return;
                        }
                        if let Some(i) = (0..n).find(|&i| buf[i] != want[i]) {
                            cx.violate("wrong_bytes", "FileManager.read_page", format!("read_page(m{}, page {}): byte {} is {:#04x}, the file has {:#04x}", fi, pg, i, buf[i], want[i]));
                            return;
                        }
                    }
                }
            } else if kind < 88 {
                let r = fm.file_size(files[fi].id);
                cx.ev(format!("file_size m{} -> {:?}", fi, r.as_ref().map_err(|e| e.to_string())));
                if r.as_ref().ok() != Some(&(size as u64)) {
                    cx.violate("wrong_file_size", "FileManager.file_size", format!("file_size(m{}) = {:?}, the file has {} bytes", fi, r.map_err(|e| e.to_string()), size));
                    return;
                }
            } else {
                // close, replace the file by one of another size (or leave it), open again
                if let Err(e) = fm.close_file(files[fi].id) {
                    cx.violate("close_refused", "FileManager.close_file", e.to_string());
                    return;
                }
                if o[1] % 2 == 0 {
                    let new = match o[2] % 5 {
                        0 => 0,
                        1 => 1,
                        2 => size + PAGE_SIZE + 100,
                        3 => size.saturating_sub(PAGE_SIZE),
                        _ => size / 2,
                    };
                    files[fi].gen += 1;
                    let gen = files[fi].gen;
                    files[fi].data = (0..new).map(|o| fill(fi, gen, o)).collect();
                    std::fs::write(&files[fi].path, &files[fi].data).expect("rewrite scratch file");
                    cx.ev(format!("close m{}, replace it: {} -> {} bytes, open", fi, size, new));
                } else {
                    cx.ev(format!("close m{}, open", fi));
                }
                match fm.open_file(&files[fi].path) {
                    Ok(id) => files[fi].id = id,
                    Err(e) => {
                        cx.violate("open_refused", "FileManager.open_file", e.to_string());
                        return;
                    }
                }
                cx.probe("close_reopen");
            }
        }
        cx.probe_n("reads_compared", compared);
        cx.nontrivial = compared >= 1;
    }
}

fn main() {
    let mut spec = CheckSpec::new(
        "C17",
        "exploration",
        "seeded operation histories (E5) over small key spaces / small caches, compared step by step with reference models; page cache over real scratch files with a seeded fault hook in FileManager::read_page; \
         non-trivial = at least one eviction (LRU maps), at least one page served from cache or evicted (page cache), at least one get compared (cached blob store), >= 3 operations (FSA cache), at least one read compared (file manager); \
         distinct = distinct hash of the (operation, observed result) trace",
    );
    spec.assumptions = vec![
        "operations on the sharded map are issued from different threads but never overlap (the statement quantifies over access sequences)".into(),
        "the shard a key is routed to is learned from the map's own per-shard statistics, not re-derived".into(),
        "a disk change is always followed by an invalidation of the changed range before the next read; a file never shrinks while it is open (one fault-free run in ten appends to an open file and invalidates the appended range)".into(),
        "ConcurrentLruMap without a callback (concurrent_lru/plain_ctor, lru_map/plain_ctor): what a put evicted is what contains_key no longer reports".into(),
        "cache/lru_cache.rs, cache/page_cache.rs and cache/sharding.rs are not compiled into the crate and are not exercised".into(),
    ];
    spec.components = vec![
        ("containers::specialized::LruMap", "real"),
        ("containers::specialized::ConcurrentLruMap", "real"),
        ("cache::LruPageCache / SingleLruPageCache / FileManager / CacheBuffer / BufferPool", "real"),
        ("blob_store::CachedBlobStore", "real"),
        ("blob_store::MemoryBlobStore", "real, behind a harness FaultyStore"),
        ("fsa::FsaCache", "real"),
        ("file system", "real files in a per-run scratch directory; read failures injected at the cache.read_page hook"),
        ("eviction callback", "stub (records key and value)"),
    ];
    spec.init = zsim_props::install_hooks;
    spec.scenarios.push(Box::new(LruMapSeq { plain_ctor: false }));
    spec.scenarios.push(Box::new(LruMapSeq { plain_ctor: true }));
    spec.scenarios.push(Box::new(ConcLru { strat: Strat::Hash, plain_ctor: false }));
    spec.scenarios.push(Box::new(ConcLru { strat: Strat::Hash, plain_ctor: true }));
    spec.scenarios.push(Box::new(ConcLru { strat: Strat::RoundRobin, plain_ctor: false }));
    spec.scenarios.push(Box::new(ConcLru { strat: Strat::ThreadAffinity, plain_ctor: false }));
    spec.scenarios.push(Box::new(PageCache { single: false, faulty: false }));
    spec.scenarios.push(Box::new(PageCache { single: false, faulty: true }));
    spec.scenarios.push(Box::new(PageCache { single: true, faulty: false }));
    spec.scenarios.push(Box::new(PageCache { single: true, faulty: true }));
    spec.scenarios.push(Box::new(PageCacheReaders));
    spec.scenarios.push(Box::new(CachedBlob { faulty: false }));
    spec.scenarios.push(Box::new(CachedBlob { faulty: true }));
    spec.scenarios.push(Box::new(FsaSeq));
    spec.scenarios.push(Box::new(FileMgr));
    zsim_core::driver::main(spec);
}
