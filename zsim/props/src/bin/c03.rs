//! C03 — blob stores return exactly what was stored, under stable ids.
//!
//! One seeded history per run against one store (or wrapper stack), compared step by step
//! with a `BTreeMap<id, bytes>` model; after every operation every id ever issued plus a
//! few never-issued ones are audited (`get`, `contains`, `size`, `len`).  Bulk-built stores
//! are checked record by record; save -> load must answer identically.  The fault family
//! puts a `FaultyStore` under each wrapper (fail-before / fail-after = lost acknowledgement)
//! and faulty byte streams under save/load.
//!
//! Beyond put/get/remove the histories contain `remove_batch`, reconfiguration and maintenance
//! calls of the concrete type in mid-history (`clear`, cache on/off, write strategy, a rebuilt
//! Huffman tree, `optimize`, `load_dictionary`, ...), a clone used as an independent second
//! handle, and the store's own iteration.  One record in five is derived from an earlier
//! record of the run (the same bytes again, one byte changed, a prefix, an extension); one
//! bulk build in five has 63..513 short records (around the block sizes of the offset index
//! and of the rank structure).

use std::collections::{BTreeMap, BTreeSet};
use std::path::PathBuf;
use std::sync::{Arc, Mutex};
use zipora::blob_store::cached_store::CacheWriteStrategy;
use zipora::blob_store::{
    BatchBlobStore, BlobStore, CachedBlobStore, IterableBlobStore, BatchZipOffsetBlobStoreBuilder, DictionaryBlobStore, HuffmanBlobStore, MemoryBlobStore, MixedLenBlobStore, NestLoudsTrieBlobStore, NestLoudsTrieBlobStoreBuilder, PlainBlobStore,
    RansBlobStore, SimpleZipBlobStore, SimpleZipConfig, SortedUintVecBuilder, SortedUintVecConfig, TrieBlobStoreConfig, ZeroLengthBlobStore, ZipOffsetBlobStore, ZipOffsetBlobStoreBuilder,
    ZipOffsetBlobStoreConfig, ZstdBlobStore,
};
use zipora::cache::PageCacheConfig;
use zipora::compression::dict_zip::{DictZipBlobStore, DictZipBlobStoreBuilder, DictZipConfig, DictionaryBuilderConfig, EntropyAlgorithm as DzEntropy};
use zipora::error::{Result as ZResult, ZiporaError};
use zipora::{RankSelectInterleaved256, RecordId};
use zsim_core::e3::{self, FaultyRead, FaultyWrite};
use zsim_core::rng::{hash_bytes, mix, splitmix};
use zsim_core::{Chan, CheckSpec, Run, Scenario, Tier};

// ---------------------------------------------------------------------------------------
// records

const CLASS: [&str; 6] = ["empty", "tiny", "equal", "compressible", "random", "text"];

/// Record generator: most non-empty records carry a per-run counter, so a wrong read is
/// attributable to one write.  One record in five is *derived* from an earlier record of the
/// same run instead (the same bytes again, one byte changed, a prefix, an extension, the same
/// length with other content): stores that deduplicate, cache or index by content must not
/// confuse two ids because their bytes agree.
struct Gen {
    n: u32,
    /// earlier non-empty records of this run (the sources of derived records)
    hist: Vec<Vec<u8>>,
}

const RELATION: [&str; 9] = ["same_again", "last_byte_changed", "first_byte_changed", "prefix", "extended", "same_length", "doubled", "behind_a_zstd_magic", "behind_an_lz4_magic"];

impl Gen {
    fn new(n: u32) -> Gen {
        Gen { n, hist: vec![] }
    }

    /// A record related to an earlier one; None if there is no earlier record.
    fn derived(&mut self, how: u64, which: u64, salt: u64) -> Option<(usize, Vec<u8>)> {
        if self.hist.is_empty() {
            return None;
        }
        self.n += 1;
        let src = self.hist[(which as usize) % self.hist.len()].clone();
        let k = (how % RELATION.len() as u64) as usize;
        let mut v = src.clone();
        match k {
            0 => {}
            1 => {
                let l = v.len();
                v[l - 1] = v[l - 1].wrapping_add(1 + (salt % 3) as u8);
            }
            2 => v[0] = v[0].wrapping_add(1 + (salt % 3) as u8),
            3 => {
                let keep = [v.len() - 1, v.len() / 2, 1][(salt % 3) as usize];
                v.truncate(keep);
            }
            4 => v.push((salt % 251) as u8),
            5 => {
                let mut x = mix(self.n as u64, salt);
                for b in v.iter_mut() {
                    *b = splitmix(&mut x) as u8;
                }
            }
            6 => {
                if v.len() <= 2500 {
                    v.extend_from_slice(&src);
                }
            }
            // a record that looks like the store's own container: already-compressed data is what
            // users put into blob stores, and a store must not take a record for its own framing
            7 => {
                let mut w = vec![0x28, 0xB5, 0x2F, 0xFD];
                w.extend_from_slice(&v);
                v = w;
            }
            _ => {
                let mut w = vec![0x04, 0x22, 0x4D, 0x18];
                w.extend_from_slice(&v);
                v = w;
            }
        }
        if !v.is_empty() && self.hist.len() < 12 {
            self.hist.push(v.clone());
        }
        Some((k, v))
    }

    fn make(&mut self, class: usize, a: u64, b: u64) -> Vec<u8> {
        let v = self.make_fresh(class, a, b);
        if !v.is_empty() && self.hist.len() < 12 {
            self.hist.push(v.clone());
        }
        v
    }

    fn make_fresh(&mut self, class: usize, a: u64, b: u64) -> Vec<u8> {
        self.n += 1;
        let c = self.n;
        match class {
            0 => vec![],
            1 => {
                let len = 1 + (a % 3) as usize;
                c.to_le_bytes()[..len].to_vec()
            }
            2 => {
                let mut v = vec![b'R'];
                v.extend_from_slice(&c.to_be_bytes());
                v.resize(16, (b % 251) as u8);
                v
            }
            3 => {
                // lengths around the powers of two that the stores use as limits (fragment length 256, page 4096)
                let len = [64usize, 65, 63, 300, 1000, 5000, 256, 255, 257, 4096, 4095, 512][(a % 12) as usize];
                let mut v = vec![b'Z'];
                v.extend_from_slice(&c.to_be_bytes());
                v.resize(len, [b'a', b'b', b'c', 0u8, 0xFF, b' '][(b % 6) as usize]);
                v
            }
            4 => {
                let len = [1usize, 7, 17, 63, 64, 65, 200, 128, 256, 255][(a % 10) as usize];
                let mut x = mix(c as u64, b);
                let mut v: Vec<u8> = (0..len).map(|_| splitmix(&mut x) as u8).collect();
                if len >= 7 {
                    v[..4].copy_from_slice(&c.to_be_bytes());
                }
                v
            }
            _ => {
                let reps = 1 + (a % 4) as usize;
                let mut s = String::new();
                for r in 0..reps {
                    s.push_str(&format!("user/{}/profile {} the quick brown fox jumps over the lazy dog\t{}\n", b % 3, c, r));
                }
                s.into_bytes()
            }
        }
    }
}

fn desc(b: &[u8]) -> String {
    format!("{}B#{:04x}", b.len(), hash_bytes(b) & 0xffff)
}

thread_local! {
    static SCRATCH: std::cell::RefCell<String> = std::cell::RefCell::new(String::new());
}

/// Error text with the (pid-dependent) scratch path removed, so event lines stay deterministic.
fn es(e: &ZiporaError) -> String {
    let s: String = e.to_string().chars().take(160).collect();
    SCRATCH.with(|d| {
        let d = d.borrow();
        if d.is_empty() {
            s.clone()
        } else {
            s.replace(d.as_str(), "<scratch>")
        }
    })
}

struct Scratch(PathBuf);

impl Scratch {
    fn new(seed: u64, tag: &str) -> Scratch {
        let p = std::env::temp_dir().join(format!("zsim-c03-{}-{:016x}-{}", std::process::id(), seed, tag));
        let _ = std::fs::remove_dir_all(&p);
        SCRATCH.with(|d| *d.borrow_mut() = p.to_string_lossy().to_string());
        Scratch(p)
    }
}

impl Drop for Scratch {
    fn drop(&mut self) {
        let _ = std::fs::remove_dir_all(&self.0);
        SCRATCH.with(|d| d.borrow_mut().clear());
    }
}

// ---------------------------------------------------------------------------------------
// model + audit

#[derive(Default, Clone)]
struct Model {
    live: BTreeMap<RecordId, Vec<u8>>,
    issued: BTreeSet<RecordId>,
    removed: BTreeSet<RecordId>,
    /// fault family only: a remove whose acknowledgement was lost — live or gone, both fine
    maybe: BTreeMap<RecordId, Vec<u8>>,
    /// fault family only: ids of puts applied below the wrapper whose acknowledgement was lost
    orphans: BTreeSet<RecordId>,
    /// only for the extra scenario that looks past a known len() defect
    skip_len: bool,
}

struct V {
    class: &'static str,
    op: &'static str,
    detail: String,
}

fn v(class: &'static str, op: &'static str, detail: String) -> Option<V> {
    Some(V { class, op, detail })
}

impl Model {
    fn probe_ids(&self) -> Vec<RecordId> {
        let mut s: BTreeSet<RecordId> = self.issued.clone();
        let max = self.issued.iter().next_back().copied().unwrap_or(0);
        let omax = self.orphans.iter().next_back().copied().unwrap_or(0).max(max);
        for x in [0u32, omax.saturating_add(1), omax.saturating_add(2), omax.saturating_add(9), u32::MAX - 1, u32::MAX] {
            s.insert(x);
        }
        s.into_iter().filter(|x| !self.orphans.contains(x)).collect()
    }

    /// Compare every id ever issued and a few never-issued ones with the store (fault-free calls).
    fn audit(&self, st: &dyn BlobStore) -> Option<V> {
        for id in self.probe_ids() {
            let c = st.contains(id);
            let g = st.get(id);
            let s = st.size(id);
            if let Some(d) = self.live.get(&id) {
                if !c {
                    return v("lost_record", "contains", format!("contains({}) = false for a live record ({})", id, desc(d)));
                }
                match &g {
                    Ok(b) if b == d => {}
                    Ok(b) => return v("wrong_value", "get", format!("get({}) returned {} but {} was stored", id, desc(b), desc(d))),
                    Err(e) => return v("lost_record", "get", format!("get({}) failed for a live record ({}): {}", id, desc(d), es(e))),
                }
                match &s {
                    Ok(Some(n)) if *n == d.len() => {}
                    Ok(Some(n)) => return v("size_mismatch", "size", format!("size({}) = {} but the record has {} bytes", id, n, d.len())),
                    Ok(None) => return v("size_mismatch", "size", format!("size({}) = None for a live record of {} bytes", id, d.len())),
                    Err(e) => return v("size_mismatch", "size", format!("size({}) failed for a live record of {} bytes: {}", id, d.len(), es(e))),
                }
            } else if let Some(d) = self.maybe.get(&id) {
                if let Ok(b) = &g {
                    if b != d {
                        return v("wrong_value", "get", format!("get({}) returned {} but {} was stored", id, desc(b), desc(d)));
                    }
                }
                if let Ok(Some(n)) = &s {
                    if *n != d.len() {
                        return v("size_mismatch", "size", format!("size({}) = {} but the record has {} bytes", id, n, d.len()));
                    }
                }
            } else {
                let class = if self.removed.contains(&id) { "removed_id_served" } else { "unknown_id_served" };
                let what = if self.removed.contains(&id) { "removed" } else { "never issued" };
                if c {
                    return v(class, "contains", format!("contains({}) = true but the id is {}", id, what));
                }
                if let Ok(b) = &g {
                    return v(class, "get", format!("get({}) returned {} but the id is {}", id, desc(b), what));
                }
                if let Ok(Some(n)) = &s {
                    return v(class, "size", format!("size({}) = Some({}) but the id is {}", id, n, what));
                }
            }
        }
        if self.skip_len {
            return None;
        }
        let n = st.len();
        let lo = self.live.len();
        let hi = lo + self.maybe.len() + self.orphans.len();
        if n < lo || n > hi {
            return v("len_mismatch", "len", format!("len() = {} with {} live records{}", n, lo, if hi > lo { format!(" (at most {} counting lost acknowledgements)", hi) } else { String::new() }));
        }
        if st.is_empty() != (n == 0) {
            return v("len_mismatch", "is_empty", format!("is_empty() = {} but len() = {}", st.is_empty(), n));
        }
        None
    }

    fn pick(&self, o1: u64, o2: u64) -> RecordId {
        let issued: Vec<RecordId> = self.issued.iter().copied().collect();
        if issued.is_empty() || o1 % 5 == 0 {
            let max = issued.last().copied().unwrap_or(0);
            let extras = [0u32, max.saturating_add(1), max.saturating_add(3), u32::MAX];
            let x = extras[(o2 % 4) as usize];
            if self.orphans.contains(&x) {
                u32::MAX
            } else {
                x
            }
        } else {
            issued[(o2 as usize) % issued.len()]
        }
    }

    fn state(&self, id: RecordId) -> &'static str {
        if self.live.contains_key(&id) {
            "live"
        } else if self.maybe.contains_key(&id) {
            "maybe"
        } else if self.removed.contains(&id) {
            "removed"
        } else {
            "never"
        }
    }

    /// A put was acknowledged with `id`.
    fn acked_put(&mut self, id: RecordId, data: Vec<u8>) -> Option<V> {
        if let Some(old) = self.live.get(&id) {
            return v("id_reused", "put", format!("put({}) returned id {} which still names the live record {}", desc(&data), id, desc(old)));
        }
        self.maybe.remove(&id);
        self.removed.remove(&id);
        self.issued.insert(id);
        self.live.insert(id, data);
        None
    }
}

// ---------------------------------------------------------------------------------------
// FaultyStore: fails put/get/remove/size before or after applying them to the inner store

struct FaultState {
    chan: Chan,
    pct: u64,
    enabled: bool,
    fired: u32,
    log: Vec<(&'static str, &'static str)>,
    orphans: Vec<RecordId>,
}

type Fs = Arc<Mutex<FaultState>>;

#[derive(PartialEq)]
enum Inj {
    No,
    Before,
    After,
}

struct FaultyStore<S: BlobStore> {
    inner: S,
    fs: Fs,
}

impl<S: BlobStore> FaultyStore<S> {
    fn decide(&self, op: &'static str, can_after: bool) -> Inj {
        let mut g = self.fs.lock().unwrap();
        if !g.enabled || !g.chan.chance(g.pct, 100) {
            return Inj::No;
        }
        let after = can_after && g.chan.chance(1, 2);
        g.fired += 1;
        g.log.push((op, if after { "fail_after" } else { "fail_before" }));
        if after {
            Inj::After
        } else {
            Inj::Before
        }
    }
    fn err(op: &str) -> ZiporaError {
        ZiporaError::io_error(format!("injected fault in {}", op))
    }
}

impl<S: BlobStore> BlobStore for FaultyStore<S> {
    fn get(&self, id: RecordId) -> ZResult<Vec<u8>> {
        match self.decide("get", true) {
            Inj::No => self.inner.get(id),
            Inj::Before => Err(Self::err("get")),
            Inj::After => {
                let _ = self.inner.get(id);
                Err(Self::err("get"))
            }
        }
    }
    fn put(&mut self, data: &[u8]) -> ZResult<RecordId> {
        match self.decide("put", true) {
            Inj::No => self.inner.put(data),
            Inj::Before => Err(Self::err("put")),
            Inj::After => {
                if let Ok(id) = self.inner.put(data) {
                    self.fs.lock().unwrap().orphans.push(id);
                }
                Err(Self::err("put"))
            }
        }
    }
    fn remove(&mut self, id: RecordId) -> ZResult<()> {
        match self.decide("remove", true) {
            Inj::No => self.inner.remove(id),
            Inj::Before => Err(Self::err("remove")),
            Inj::After => {
                let _ = self.inner.remove(id);
                Err(Self::err("remove"))
            }
        }
    }
    fn contains(&self, id: RecordId) -> bool {
        self.inner.contains(id)
    }
    fn size(&self, id: RecordId) -> ZResult<Option<usize>> {
        match self.decide("size", false) {
            Inj::No => self.inner.size(id),
            _ => Err(Self::err("size")),
        }
    }
    fn len(&self) -> usize {
        self.inner.len()
    }
    fn flush(&mut self) -> ZResult<()> {
        self.inner.flush()
    }
}

impl<S: BlobStore + BatchBlobStore> BatchBlobStore for FaultyStore<S> {
    fn put_batch<I: IntoIterator<Item = Vec<u8>>>(&mut self, blobs: I) -> ZResult<Vec<RecordId>> {
        match self.decide("put_batch", true) {
            Inj::No => self.inner.put_batch(blobs),
            Inj::Before => Err(Self::err("put_batch")),
            Inj::After => {
                if let Ok(ids) = self.inner.put_batch(blobs) {
                    self.fs.lock().unwrap().orphans.extend(ids);
                }
                Err(Self::err("put_batch"))
            }
        }
    }
    fn get_batch<I: IntoIterator<Item = RecordId>>(&self, ids: I) -> ZResult<Vec<Option<Vec<u8>>>> {
        match self.decide("get_batch", false) {
            Inj::No => self.inner.get_batch(ids),
            _ => Err(Self::err("get_batch")),
        }
    }
    fn remove_batch<I: IntoIterator<Item = RecordId>>(&mut self, ids: I) -> ZResult<usize> {
        self.inner.remove_batch(ids)
    }
}

fn new_fs(cx: &mut Run) -> Fs {
    let cfg = cx.src.chan("cfg");
    let pct = *cfg.pick(&[5u64, 15, 30, 60]);
    Arc::new(Mutex::new(FaultState { chan: cx.src.chan("fault"), pct, enabled: false, fired: 0, log: vec![], orphans: vec![] }))
}

// ---------------------------------------------------------------------------------------
// target adapter

/// What a reconfiguration / maintenance call is allowed to do to the records.
enum Effect {
    /// the records must be what they were
    Unchanged,
    /// documented to remove every record
    Cleared,
    /// records stored before may be gone (the documentation does not say); what is still served must be right
    Unknown,
}

type Pair = ZResult<(RecordId, Vec<u8>)>;

trait Tgt {
    fn st(&self) -> &dyn BlobStore;
    fn st_mut(&mut self) -> &mut dyn BlobStore;
    fn put_batch(&mut self, _v: Vec<Vec<u8>>) -> Option<ZResult<Vec<RecordId>>> {
        None
    }
    fn get_batch(&self, _ids: Vec<RecordId>) -> Option<ZResult<Vec<Option<Vec<u8>>>>> {
        None
    }
    fn remove_batch(&mut self, _ids: Vec<RecordId>) -> Option<ZResult<usize>> {
        None
    }
    /// drop the store and open / load it again; None = not supported
    fn restart(&mut self) -> Option<Result<(), String>> {
        None
    }
    /// a configuration / maintenance call of the concrete type, chosen by `k`
    fn tweak(&mut self, _k: [u64; 3]) -> Option<(String, Effect)> {
        None
    }
    /// (id, bytes) pairs as the store's own iteration yields them
    fn pairs(&self) -> Option<Vec<Pair>> {
        None
    }
    /// an independent second handle (`Clone`)
    fn snapshot(&self) -> Option<Box<dyn BlobStore>> {
        None
    }
}

type Restart<S> = Box<dyn FnMut(S) -> Result<S, String>>;
type Tweak<S> = Box<dyn FnMut(&mut S, [u64; 3]) -> Option<(String, Effect)>>;

struct T<S: BlobStore> {
    s: Option<S>,
    restart: Option<Restart<S>>,
    pb: Option<fn(&mut S, Vec<Vec<u8>>) -> ZResult<Vec<RecordId>>>,
    gb: Option<fn(&S, Vec<RecordId>) -> ZResult<Vec<Option<Vec<u8>>>>>,
    rb: Option<fn(&mut S, Vec<RecordId>) -> ZResult<usize>>,
    tweak: Option<Tweak<S>>,
    pairs: Option<fn(&S) -> Vec<Pair>>,
    snap: Option<fn(&S) -> Box<dyn BlobStore>>,
}

fn pb<S: BatchBlobStore>(s: &mut S, v: Vec<Vec<u8>>) -> ZResult<Vec<RecordId>> {
    s.put_batch(v)
}
fn gb<S: BatchBlobStore>(s: &S, ids: Vec<RecordId>) -> ZResult<Vec<Option<Vec<u8>>>> {
    s.get_batch(ids)
}
fn rb<S: BatchBlobStore>(s: &mut S, ids: Vec<RecordId>) -> ZResult<usize> {
    s.remove_batch(ids)
}
fn iter_pairs<S: IterableBlobStore>(s: &S) -> Vec<Pair> {
    s.iter_blobs().collect()
}
fn clone_of<S: BlobStore + Clone + 'static>(s: &S) -> Box<dyn BlobStore> {
    Box::new(s.clone())
}

impl<S: BlobStore> T<S> {
    fn plain(s: S) -> T<S> {
        T { s: Some(s), restart: None, pb: None, gb: None, rb: None, tweak: None, pairs: None, snap: None }
    }
}
impl<S: BlobStore + BatchBlobStore> T<S> {
    fn batch(s: S) -> T<S> {
        T { s: Some(s), restart: None, pb: Some(pb::<S>), gb: Some(gb::<S>), rb: Some(rb::<S>), tweak: None, pairs: None, snap: None }
    }
}
impl<S: BlobStore> T<S> {
    fn with_restart(mut self, r: Restart<S>) -> T<S> {
        self.restart = Some(r);
        self
    }
    fn with_tweak(mut self, t: Tweak<S>) -> T<S> {
        self.tweak = Some(t);
        self
    }
    fn with_pairs(mut self, f: fn(&S) -> Vec<Pair>) -> T<S> {
        self.pairs = Some(f);
        self
    }
    fn with_snap(mut self, f: fn(&S) -> Box<dyn BlobStore>) -> T<S> {
        self.snap = Some(f);
        self
    }
}

impl<S: BlobStore> Tgt for T<S> {
    fn st(&self) -> &dyn BlobStore {
        self.s.as_ref().unwrap()
    }
    fn st_mut(&mut self) -> &mut dyn BlobStore {
        self.s.as_mut().unwrap()
    }
    fn put_batch(&mut self, v: Vec<Vec<u8>>) -> Option<ZResult<Vec<RecordId>>> {
        let f = self.pb?;
        Some(f(self.s.as_mut().unwrap(), v))
    }
    fn get_batch(&self, ids: Vec<RecordId>) -> Option<ZResult<Vec<Option<Vec<u8>>>>> {
        let f = self.gb?;
        Some(f(self.s.as_ref().unwrap(), ids))
    }
    fn remove_batch(&mut self, ids: Vec<RecordId>) -> Option<ZResult<usize>> {
        let f = self.rb?;
        Some(f(self.s.as_mut().unwrap(), ids))
    }
    fn restart(&mut self) -> Option<Result<(), String>> {
        let r = self.restart.as_mut()?;
        let s = self.s.take().unwrap();
        Some(match r(s) {
            Ok(n) => {
                self.s = Some(n);
                Ok(())
            }
            Err(e) => Err(e),
        })
    }
    fn tweak(&mut self, k: [u64; 3]) -> Option<(String, Effect)> {
        let f = self.tweak.as_mut()?;
        f(self.s.as_mut().unwrap(), k)
    }
    fn pairs(&self) -> Option<Vec<Pair>> {
        let f = self.pairs?;
        Some(f(self.s.as_ref().unwrap()))
    }
    fn snapshot(&self) -> Option<Box<dyn BlobStore>> {
        let f = self.snap?;
        Some(f(self.s.as_ref().unwrap()))
    }
}

// ---------------------------------------------------------------------------------------
// generic history driver for mutable stores

#[derive(Clone, Copy)]
struct Caps {
    /// stable name of the target (type / wrapper stack), used in violation sites
    target: &'static str,
    /// the store documents that it accepts only empty records (ZeroLengthBlobStore)
    only_empty: bool,
    /// the store refuses empty records (DictZipBlobStore)
    no_empty: bool,
}

fn viol(cx: &mut Run, caps: &Caps, phase: &str, x: V) {
    cx.violate(x.class, &format!("{}.{}{}", caps.target, x.op, phase), x.detail);
}

fn drain_faults(cx: &mut Run, fs: Option<&Fs>) -> u32 {
    let Some(fs) = fs else { return 0 };
    let mut g = fs.lock().unwrap();
    g.enabled = false;
    let fired = g.fired;
    g.fired = 0;
    let log: Vec<_> = g.log.drain(..).collect();
    drop(g);
    for (op, kind) in log {
        cx.ev(format!("  fault below the wrapper: {} {}", op, kind));
        cx.fault(&format!("{}.{}", op, kind));
    }
    fired
}

fn arm_faults(fs: Option<&Fs>) {
    if let Some(fs) = fs {
        let mut g = fs.lock().unwrap();
        g.enabled = true;
        g.fired = 0;
    }
}

fn sync_orphans(m: &mut Model, fs: Option<&Fs>) {
    if let Some(fs) = fs {
        for id in fs.lock().unwrap().orphans.iter() {
            if !m.live.contains_key(id) {
                m.orphans.insert(*id);
            }
        }
    }
}

/// (label, bytes) of the next record to store.  `o[1] % 6` is the class; `(o[1] / 6) % 5 == 4`
/// asks for a record derived from an earlier one (the rare outcome is the non-zero one).
fn gen_record(caps: &Caps, gen: &mut Gen, o: &[u64; 4]) -> (&'static str, Vec<u8>) {
    let mut class = (o[1] % 6) as usize;
    if caps.only_empty {
        class = if o[1] % 4 == 3 { 1 } else { 0 };
    } else if (o[1] / 6) % 5 == 4 {
        if let Some((k, v)) = gen.derived(o[1] / 30, o[2], o[3]) {
            if !(caps.no_empty && v.is_empty()) {
                return (RELATION[k], v);
            }
        }
    }
    if caps.no_empty && class == 0 {
        // an empty record now and then: the store documents that it refuses them
        class = if o[2] % 4 == 0 { 0 } else { 5 };
    }
    (CLASS[class], gen.make(class, o[2], o[3]))
}

/// Runs the history; returns false if the run ended with a violation.
fn drive(cx: &mut Run, t: &mut dyn Tgt, caps: &Caps, m: &mut Model, gen: &mut Gen, fs: Option<&Fs>) -> bool {
    let cfg = cx.src.chan("cfg");
    // one run in eight is a long history (what only shows after many operations on one store)
    let planned = (4 + cfg.below(21)) * if cfg.chance(1, 8) { 4 } else { 1 };
    let mut ops = cx.src.ops("ops", planned);
    let mut prev = "start";
    let mut puts_ok = 0u64;
    // a clone of the store taken at some point, with the model as it was then
    let mut second: Option<(Box<dyn BlobStore>, Model)> = None;
    // audit of the initial state (bulk-initialised stores start non-empty)
    if let Some(x) = m.audit(t.st()) {
        viol(cx, caps, "@initial", x);
        return false;
    }
    while let Some(o) = ops.next() {
        cx.steps += 1;
        let mut phase = "";
        let kind = match o[0] % 20 {
            0..=4 => "put",
            5 => "put_batch",
            6 | 7 => "remove",
            8 | 9 => "get",
            10 => "size",
            11 => "contains",
            12 => "get_batch",
            13 => "restart",
            14 => "put",
            15 => "remove_live",
            16 => "remove_batch",
            17 => "tweak",
            18 => "second_handle",
            _ => "iterate",
        };
        let mut cell_class = "-";
        match kind {
            "put" => {
                let (class, data) = gen_record(caps, gen, &o);
                cell_class = class;
                arm_faults(fs);
                let r = t.st_mut().put(&data);
                let fired = drain_faults(cx, fs);
                match r {
                    Ok(id) => {
                        cx.ev(format!("put {} {} -> id {}", class, desc(&data), id));
                        if m.removed.contains(&id) {
                            cx.probe("id_of_removed_record_reissued");
                        }
                        if let Some(x) = m.acked_put(id, data) {
                            viol(cx, caps, "", x);
                            return false;
                        }
                        puts_ok += 1;
                    }
                    Err(e) => {
                        cx.ev(format!("put {} {} -> Err", class, desc(&data)));
                        if fired == 0 {
                            cx.probe("put_refused");
                            let _ = e;
                        }
                    }
                }
                sync_orphans(m, fs);
            }
            "put_batch" => {
                let n = (o[1] % 4) as usize;
                let mut batch = vec![];
                for k in 0..n {
                    let oo = [o[0], o[2].wrapping_add(k as u64 * 7), o[3].wrapping_add(k as u64), o[3] / 7 + k as u64];
                    let (class, mut data) = gen_record(caps, gen, &oo);
                    if caps.only_empty {
                        data.clear();
                    }
                    if caps.no_empty && data.is_empty() {
                        data = gen.make(5, 1, 1);
                    }
                    let _ = class;
                    batch.push(data);
                }
                arm_faults(fs);
                let r = t.put_batch(batch.clone());
                let fired = drain_faults(cx, fs);
                let Some(r) = r else { continue };
                let ds: Vec<String> = batch.iter().map(|d| desc(d)).collect();
                match r {
                    Ok(ids) => {
                        cx.ev(format!("put_batch [{}] -> ids {:?}", ds.join(", "), ids));
                        if ids.len() != batch.len() {
                            cx.violate("batch_shape", &format!("{}.put_batch", caps.target), format!("put_batch of {} records returned {} ids", batch.len(), ids.len()));
                            return false;
                        }
                        for (id, d) in ids.iter().zip(batch.into_iter()) {
                            if let Some(x) = m.acked_put(*id, d) {
                                viol(cx, caps, "", V { op: "put_batch", ..x });
                                return false;
                            }
                            puts_ok += 1;
                        }
                        cx.probe("put_batch_ok");
                    }
                    Err(_) => {
                        cx.ev(format!("put_batch [{}] -> Err", ds.join(", ")));
                        if fired == 0 && !batch.is_empty() {
                            // not promised to be atomic: what a refused batch left behind is unknown, stop here
                            cx.probe("put_batch_refused_run_cut");
                            break;
                        }
                    }
                }
                sync_orphans(m, fs);
            }
            "remove" | "remove_live" => {
                let id = if kind == "remove_live" && !m.live.is_empty() {
                    let ids: Vec<RecordId> = m.live.keys().copied().collect();
                    ids[(o[2] as usize) % ids.len()]
                } else {
                    m.pick(o[1], o[2])
                };
                let was = m.state(id);
                cell_class = was;
                arm_faults(fs);
                let r = t.st_mut().remove(id);
                let fired = drain_faults(cx, fs);
                cx.ev(format!("remove {} ({}) -> {}", id, was, if r.is_ok() { "Ok" } else { "Err" }));
                match r {
                    Ok(()) => {
                        if m.live.remove(&id).is_some() || m.maybe.remove(&id).is_some() {
                            m.removed.insert(id);
                            cx.probe("removed_live_record");
                        }
                    }
                    Err(_) => {
                        if fired > 0 {
                            if let Some(d) = m.live.remove(&id) {
                                m.maybe.insert(id, d);
                                cx.probe("remove_outcome_unknown_after_fault");
                            }
                        } else if was == "live" {
                            cx.probe("remove_of_live_record_refused");
                        }
                    }
                }
            }
            "get" => {
                let id = m.pick(o[1], o[2]);
                cell_class = m.state(id);
                arm_faults(fs);
                let r = t.st().get(id);
                let fired = drain_faults(cx, fs);
                match &r {
                    Ok(b) => cx.ev(format!("get {} ({}) -> {}", id, m.state(id), desc(b))),
                    Err(_) => cx.ev(format!("get {} ({}) -> Err", id, m.state(id))),
                }
                if fired > 0 {
                    // the call may fail, it may not lie
                    if let Ok(b) = &r {
                        let want = m.live.get(&id).or(m.maybe.get(&id));
                        match want {
                            Some(d) if d == b => {}
                            Some(d) => {
                                cx.violate("wrong_value", &format!("{}.get@faulted_call", caps.target), format!("get({}) returned {} during a faulted call but {} was stored", id, desc(b), desc(d)));
                                return false;
                            }
                            None => {
                                cx.violate("removed_id_served", &format!("{}.get@faulted_call", caps.target), format!("get({}) returned {} during a faulted call but the id is {}", id, desc(b), m.state(id)));
                                return false;
                            }
                        }
                    }
                }
            }
            "size" => {
                let id = m.pick(o[1], o[2]);
                cell_class = m.state(id);
                arm_faults(fs);
                let r = t.st().size(id);
                let fired = drain_faults(cx, fs);
                cx.ev(format!("size {} ({}) -> {}", id, m.state(id), match &r { Ok(Some(n)) => format!("Some({})", n), Ok(None) => "None".into(), Err(_) => "Err".into() }));
                if fired > 0 {
                    if let Ok(Some(n)) = r {
                        let want = m.live.get(&id).or(m.maybe.get(&id)).map(|d| d.len());
                        if want != Some(n) {
                            cx.violate("size_mismatch", &format!("{}.size@faulted_call", caps.target), format!("size({}) = Some({}) during a faulted call, model says {:?}", id, n, want));
                            return false;
                        }
                    } else if matches!(r, Ok(None)) && m.live.contains_key(&id) {
                        cx.probe("absent_reported_during_faulted_call");
                    }
                }
            }
            "contains" => {
                let id = m.pick(o[1], o[2]);
                cell_class = m.state(id);
                let r = t.st().contains(id);
                cx.ev(format!("contains {} ({}) -> {}", id, m.state(id), r));
            }
            "get_batch" => {
                let n = 1 + (o[1] % 4) as usize;
                let ids: Vec<RecordId> = (0..n).map(|k| m.pick(o[2] / (k as u64 + 1) + k as u64, o[3] / (k as u64 + 1) + k as u64)).collect();
                arm_faults(fs);
                let r = t.get_batch(ids.clone());
                let fired = drain_faults(cx, fs);
                let Some(r) = r else { continue };
                match r {
                    Ok(out) => {
                        let ds: Vec<String> = out.iter().map(|x| x.as_ref().map(|b| desc(b)).unwrap_or_else(|| "None".into())).collect();
                        cx.ev(format!("get_batch {:?} -> [{}]", ids, ds.join(", ")));
                        if out.len() != ids.len() {
                            cx.violate("batch_shape", &format!("{}.get_batch", caps.target), format!("get_batch of {} ids returned {} entries", ids.len(), out.len()));
                            return false;
                        }
                        for (id, got) in ids.iter().zip(out.iter()) {
                            let want = m.live.get(id);
                            let maybe = m.maybe.get(id);
                            match (got, want, maybe) {
                                (Some(b), Some(d), _) | (Some(b), None, Some(d)) => {
                                    if b != d {
                                        cx.violate("wrong_value", &format!("{}.get_batch", caps.target), format!("get_batch entry for id {} is {} but {} was stored", id, desc(b), desc(d)));
                                        return false;
                                    }
                                }
                                (Some(b), None, None) => {
                                    cx.violate(if m.removed.contains(id) { "removed_id_served" } else { "unknown_id_served" }, &format!("{}.get_batch", caps.target), format!("get_batch entry for id {} is {} but the id is {}", id, desc(b), m.state(*id)));
                                    return false;
                                }
                                (None, Some(d), _) => {
                                    if fired == 0 {
                                        cx.violate("lost_record", &format!("{}.get_batch", caps.target), format!("get_batch entry for live id {} ({}) is None", id, desc(d)));
                                        return false;
                                    }
                                }
                                (None, None, _) => {}
                            }
                        }
                        cx.probe("get_batch_ok");
                    }
                    Err(_) => {
                        cx.ev(format!("get_batch {:?} -> Err", ids));
                        if fired == 0 {
                            cx.probe("get_batch_refused");
                        }
                    }
                }
            }
            "remove_batch" => {
                let n = (o[1] % 4) as usize;
                let ids: Vec<RecordId> = (0..n)
                    .map(|k| {
                        let k = k as u64;
                        if (o[2] >> k) & 1 == 1 && !m.live.is_empty() {
                            let live: Vec<RecordId> = m.live.keys().copied().collect();
                            live[((o[3] / (k + 1)) as usize) % live.len()]
                        } else {
                            m.pick(o[2] / (k + 1) + k, o[3] / (k + 1) + k)
                        }
                    })
                    .collect();
                arm_faults(fs);
                let r = t.remove_batch(ids.clone());
                let fired = drain_faults(cx, fs);
                let Some(r) = r else { continue };
                let hit: BTreeSet<RecordId> = ids.iter().copied().filter(|i| m.live.contains_key(i)).collect();
                let maybe_hit: Vec<RecordId> = ids.iter().copied().filter(|i| m.maybe.contains_key(i)).collect();
                let states: Vec<String> = ids.iter().map(|i| format!("{}({})", i, m.state(*i))).collect();
                match r {
                    Ok(cnt) => {
                        cx.ev(format!("remove_batch [{}] -> Ok({})", states.join(", "), cnt));
                        if cnt == hit.len() && maybe_hit.is_empty() {
                            for i in &hit {
                                m.live.remove(i);
                                m.removed.insert(*i);
                            }
                            if !hit.is_empty() {
                                cx.probe("remove_batch_removed_live_records");
                            }
                        } else {
                            // the count is not part of the statement; which of the records went is unknown then
                            for i in &hit {
                                let d = m.live.remove(i).unwrap();
                                m.maybe.insert(*i, d);
                            }
                            if maybe_hit.is_empty() && fired == 0 {
                                cx.probe("remove_batch_count_differs_from_live_ids");
                            }
                        }
                    }
                    Err(_) => {
                        cx.ev(format!("remove_batch [{}] -> Err", states.join(", ")));
                        // not promised to be atomic
                        for i in &hit {
                            let d = m.live.remove(i).unwrap();
                            m.maybe.insert(*i, d);
                        }
                        if fired == 0 && !hit.is_empty() {
                            cx.probe("remove_batch_refused");
                        }
                    }
                }
            }
            "tweak" => {
                let Some((what, eff)) = t.tweak([o[1], o[2], o[3]]) else { continue };
                cx.ev(format!("{}", what));
                match eff {
                    Effect::Unchanged => cx.probe("reconfigured"),
                    Effect::Cleared => {
                        let ids: Vec<RecordId> = m.live.keys().chain(m.maybe.keys()).copied().collect();
                        for i in ids {
                            m.live.remove(&i);
                            m.maybe.remove(&i);
                            m.removed.insert(i);
                        }
                        cx.probe("cleared");
                    }
                    Effect::Unknown => {
                        let ids: Vec<RecordId> = m.live.keys().copied().collect();
                        for i in ids {
                            let d = m.live.remove(&i).unwrap();
                            m.maybe.insert(i, d);
                        }
                        cx.probe("reconfigured_records_may_be_gone");
                    }
                }
                phase = "@reconfigured";
            }
            "second_handle" => {
                if second.is_none() {
                    let Some(c) = t.snapshot() else { continue };
                    cx.ev("clone -> second handle");
                    cx.probe("cloned");
                    second = Some((c, m.clone()));
                } else {
                    // use the clone: neither handle may see what the other one does
                    let (c, cm) = second.as_mut().unwrap();
                    if o[1] % 2 == 0 || cm.live.is_empty() {
                        let (class, data) = gen_record(caps, gen, &[o[0], o[2], o[3], o[1]]);
                        match c.put(&data) {
                            Ok(id) => {
                                cx.ev(format!("clone: put {} {} -> id {}", class, desc(&data), id));
                                if let Some(x) = cm.acked_put(id, data) {
                                    viol(cx, caps, "@clone", x);
                                    return false;
                                }
                            }
                            Err(_) => cx.ev(format!("clone: put {} {} -> Err", class, desc(&data))),
                        }
                    } else {
                        let ids: Vec<RecordId> = cm.live.keys().copied().collect();
                        let id = ids[(o[2] as usize) % ids.len()];
                        let r = c.remove(id);
                        cx.ev(format!("clone: remove {} (live) -> {}", id, if r.is_ok() { "Ok" } else { "Err" }));
                        if r.is_ok() {
                            cm.live.remove(&id);
                            cm.removed.insert(id);
                        }
                    }
                    cx.probe("clone_used");
                }
                let (c, cm) = second.as_ref().unwrap();
                if let Some(x) = cm.audit(c.as_ref()) {
                    viol(cx, caps, "@clone", x);
                    return false;
                }
            }
            "iterate" => {
                let Some(pairs) = t.pairs() else { continue };
                let mut seen: BTreeSet<RecordId> = BTreeSet::new();
                let mut errs = 0;
                for p in &pairs {
                    match p {
                        Ok((id, b)) => {
                            seen.insert(*id);
                            match m.live.get(id).or(m.maybe.get(id)) {
                                Some(d) if d == b => {}
                                Some(d) => {
                                    cx.violate("wrong_value", &format!("{}.iter_blobs", caps.target), format!("iteration yielded id {} with {} but {} was stored", id, desc(b), desc(d)));
                                    return false;
                                }
                                None if m.orphans.contains(id) => {}
                                None => {
                                    cx.violate(if m.removed.contains(id) { "removed_id_served" } else { "unknown_id_served" }, &format!("{}.iter_blobs", caps.target), format!("iteration yielded id {} with {} but the id is {}", id, desc(b), m.state(*id)));
                                    return false;
                                }
                            }
                        }
                        Err(_) => errs += 1,
                    }
                }
                cx.ev(format!("iterate -> {} records, {} errors", seen.len(), errs));
                if m.live.keys().any(|i| !seen.contains(i)) {
                    // completeness of iteration is not part of the statement
                    cx.probe("iteration_missed_a_live_record");
                }
                cx.probe("iterated");
            }
            _ => {
                match t.restart() {
                    None => continue,
                    Some(Ok(())) => {
                        cx.ev("restart (drop, then open / load again) -> Ok");
                        cx.probe("restart");
                        phase = "@reloaded";
                    }
                    Some(Err(e)) => {
                        cx.ev("restart -> Err");
                        cx.violate("reload_failed", &format!("{}.restart", caps.target), format!("the store could not be opened / loaded again: {}", e));
                        return false;
                    }
                }
            }
        }
        cx.cell(format!("{}/{}>{}/{}", caps.target, prev, kind, cell_class));
        prev = kind;
        if let Some(x) = m.audit(t.st()) {
            viol(cx, caps, phase, x);
            return false;
        }
    }
    if let Some((c, cm)) = second.as_ref() {
        // whatever happened to the original since, the clone still answers as it did
        if let Some(x) = cm.audit(c.as_ref()) {
            viol(cx, caps, "@clone_at_end", x);
            return false;
        }
    }
    cx.nontrivial = cx.steps >= 3 && puts_ok >= 1;
    true
}

// ---------------------------------------------------------------------------------------
// mutable stores and wrapper stacks

macro_rules! json_roundtrip {
    ($s:expr, $t:ty) => {{
        let s = $s;
        match serde_json::to_vec(&s) {
            Err(e) => Err(format!("serialize: {}", e)),
            Ok(bytes) => {
                drop(s);
                serde_json::from_slice::<$t>(&bytes).map_err(|e| format!("deserialize: {}", e))
            }
        }
    }};
}

fn cache_cfg(cfg: &Chan) -> PageCacheConfig {
    match cfg.below(6) {
        0 => PageCacheConfig::balanced(),
        1 => PageCacheConfig::performance_optimized(),
        2 => PageCacheConfig::memory_optimized(),
        3 => PageCacheConfig::security_optimized(),
        // tiny caches: eviction on almost every step
        4 => PageCacheConfig::balanced().with_capacity(4096),
        _ => PageCacheConfig::balanced().with_capacity(4096 * 2),
    }
}

fn strategy(k: u64) -> CacheWriteStrategy {
    match k % 3 {
        0 => CacheWriteStrategy::WriteThrough,
        1 => CacheWriteStrategy::WriteBack,
        _ => CacheWriteStrategy::WriteAround,
    }
}

fn okerr<X>(r: &ZResult<X>) -> &'static str {
    if r.is_ok() {
        "Ok"
    } else {
        "Err"
    }
}

/// Reconfiguration calls of a CachedBlobStore; none of them may change what the store answers.
fn cached_tweak<S: BlobStore>(s: &mut CachedBlobStore<S>, k: [u64; 3]) -> Option<(String, Effect)> {
    let what = match k[0] % 6 {
        0 => format!("flush (trait) -> {}", okerr(&BlobStore::flush(s))),
        1 => {
            s.disable_cache();
            "disable_cache".to_string()
        }
        2 => {
            s.enable_cache();
            "enable_cache".to_string()
        }
        3 => {
            s.set_write_strategy(strategy(k[1]));
            format!("set_write_strategy({:?})", s.write_strategy())
        }
        4 => {
            let (off, len) = (k[1] % 10000, (k[2] % 9000) as usize);
            format!("prefetch_range({}, {}) -> {}", off, len, okerr(&s.prefetch_range(off, len)))
        }
        _ => format!("flush (cache) -> {}", okerr(&CachedBlobStore::flush(&*s))),
    };
    Some((what, Effect::Unchanged))
}

fn dz_pairs(s: &DictZipBlobStore) -> Vec<Pair> {
    match s.iter_blobs_vec() {
        Ok(mut v) => {
            // the store iterates a HashMap: order by id so that nothing depends on that order
            v.sort();
            v.into_iter().map(Ok).collect()
        }
        Err(e) => vec![Err(e)],
    }
}

fn flush_tweak<S: BlobStore>(s: &mut S, _k: [u64; 3]) -> Option<(String, Effect)> {
    Some((format!("flush -> {}", okerr(&s.flush())), Effect::Unchanged))
}

/// A piece of training data that differs from call to call (so a rebuilt code table differs too).
fn training_piece(k: [u64; 3]) -> Vec<u8> {
    let mut g = Gen::new(2000 + (k[1] % 50) as u32);
    match k[1] % 4 {
        0 => g.make_fresh(5, k[2], k[2]),
        1 => g.make_fresh(3, k[2] % 3, k[2]),
        2 => g.make_fresh(4, 6, k[2]),
        _ => b"zzzzzzzzyyyyxxw 0123456789".to_vec(),
    }
}

fn training_text() -> Vec<u8> {
    let mut g = Gen::new(1000);
    // skewed on purpose: with all 256 byte values equally likely the Huffman code is the identity
    let mut v: Vec<u8> = b"0123456789".to_vec();
    for k in 0..6 {
        v.extend(g.make(5, k, k));
        // short runs only: the entropy dictionary builder is quadratic on long runs of one byte
        v.extend(g.make(3, k % 3, k));
    }
    v
}

#[derive(Clone, Copy, PartialEq)]
enum Kind {
    Memory,
    Plain,
    ZstdMemory,
    ZstdPlain,
    HuffmanUntrained,
    HuffmanTrained,
    /// the code table is (re)built in the middle of the history
    HuffmanRetrained,
    Rans,
    Dictionary,
    Cached(u8),
    CachedZstd,
    ZstdCached,
    HuffmanZstd,
    ZeroLength,
    DictZip(u8),
    // fault family: FaultyStore<MemoryBlobStore> under the wrapper
    FZstd,
    FCached,
    FHuffman,
    FRans,
    FDictionary,
    FZstdCached,
    FCachedZstd,
}

struct Mutable {
    kind: Kind,
    name: &'static str,
    quick: u64,
}

fn dz_config(variant: u8, cfg: &Chan) -> DictZipConfig {
    let small = DictionaryBuilderConfig { target_dict_size: 1024, max_dict_size: 8192, validate_result: cfg.below(2) == 0, use_parallel: false, sample_ratio: 1.0, ..Default::default() };
    let mut c = match variant {
        0 | 1 | 2 => DictZipConfig { dict_builder_config: small, min_compression_size: *cfg.pick(&[1usize, 10, 64]), ..Default::default() },
        _ => {
            // the library's presets, with the dictionary size brought down to test scale
            let mut p = match cfg.below(4) {
                0 => DictZipConfig::text_compression(),
                1 => DictZipConfig::binary_compression(),
                2 => DictZipConfig::log_compression(),
                _ => DictZipConfig::realtime_compression(),
            };
            p.dict_builder_config.target_dict_size = 4096;
            p.dict_builder_config.max_dict_size = 16384;
            p.dict_builder_config.use_parallel = false;
            p
        }
    };
    match variant {
        1 => {
            c.entropy_algorithm = DzEntropy::HuffmanO1;
            c.entropy_interleaved = *cfg.pick(&[0u8, 1, 2, 4, 8]);
            c.entropy_zip_ratio_require = *cfg.pick(&[0.8f32, 1.0]);
        }
        2 => {
            c.entropy_algorithm = DzEntropy::Fse;
            c.entropy_interleaved = *cfg.pick(&[0u8, 1, 2, 4, 8]);
            c.entropy_zip_ratio_require = *cfg.pick(&[0.8f32, 1.0]);
        }
        _ => {}
    }
    c.cache_size_bytes = *cfg.pick(&[1024usize, 2048, 16 * 1024 * 1024]);
    c
}

impl Scenario for Mutable {
    fn name(&self) -> String {
        self.name.to_string()
    }
    fn budget(&self, tier: Tier) -> u64 {
        match tier {
            Tier::Quick => self.quick,
            Tier::Thorough => self.quick * 30,
        }
    }
    fn run(&self, cx: &mut Run) {
        let cfg = cx.src.chan("cfg");
        let seed = cx.src.seed;
        let mut m = Model::default();
        let mut gen = Gen::new(0);
        let mut fs: Option<Fs> = None;
        let mut scratch: Option<Scratch> = None;
        let mut caps = Caps { target: "", only_empty: false, no_empty: false };
        let mem = || MemoryBlobStore::new();
        let faulty = |cx: &mut Run, fs: &mut Option<Fs>| {
            let f = new_fs(cx);
            *fs = Some(f.clone());
            FaultyStore { inner: MemoryBlobStore::new(), fs: f }
        };
        let mut t: Box<dyn Tgt> = match self.kind {
            Kind::Memory => {
                caps.target = "MemoryBlobStore";
                let s = match cfg.below(3) {
                    0 => mem(),
                    1 => MemoryBlobStore::with_capacity(2),
                    _ => {
                        // bulk construction from existing data
                        let mut data = std::collections::HashMap::new();
                        for id in [3u32, 7] {
                            let d = gen.make(if id == 3 { 2 } else { 0 }, 0, 0);
                            cx.ev(format!("from_data: id {} = {}", id, desc(&d)));
                            data.insert(id, d.clone());
                            m.issued.insert(id);
                            m.live.insert(id, d);
                        }
                        MemoryBlobStore::from_data(data)
                    }
                };
                let how = cfg.below(2);
                Box::new(
                    T::batch(s)
                        .with_restart(Box::new(move |s: MemoryBlobStore| if how == 0 { json_roundtrip!(s, MemoryBlobStore) } else { Ok(s.clone()) }))
                        .with_pairs(iter_pairs::<MemoryBlobStore>)
                        .with_snap(clone_of::<MemoryBlobStore>)
                        .with_tweak(Box::new(|s: &mut MemoryBlobStore, k| {
                            Some(match k[0] % 5 {
                                4 => {
                                    s.clear();
                                    ("clear".to_string(), Effect::Cleared)
                                }
                                1 => {
                                    s.reserve((k[1] % 64) as usize);
                                    ("reserve".to_string(), Effect::Unchanged)
                                }
                                2 => {
                                    s.shrink_to_fit();
                                    ("shrink_to_fit".to_string(), Effect::Unchanged)
                                }
                                _ => (format!("flush -> {}", okerr(&s.flush())), Effect::Unchanged),
                            })
                        })),
                )
            }
            Kind::Plain => {
                caps.target = "PlainBlobStore";
                let sc = Scratch::new(seed, "plain");
                let dir = sc.0.clone();
                scratch = Some(sc);
                let s = if cfg.below(2) == 0 { PlainBlobStore::new(&dir) } else { PlainBlobStore::create_new(&dir) }.expect("scratch dir");
                Box::new(
                    T::batch(s)
                        .with_restart(Box::new(move |s: PlainBlobStore| {
                            drop(s);
                            PlainBlobStore::new(&dir).map_err(|e| es(&e))
                        }))
                        .with_pairs(iter_pairs::<PlainBlobStore>)
                        .with_tweak(Box::new(flush_tweak::<PlainBlobStore>)),
                )
            }
            Kind::ZstdMemory => {
                caps.target = "ZstdBlobStore<MemoryBlobStore>";
                let level = *cfg.pick(&[1i32, 3, 9, 0, -7]);
                Box::new(
                    T::batch(ZstdBlobStore::new(mem(), level))
                        .with_restart(Box::new(|s: ZstdBlobStore<MemoryBlobStore>| json_roundtrip!(s, ZstdBlobStore<MemoryBlobStore>)))
                        .with_pairs(iter_pairs::<ZstdBlobStore<MemoryBlobStore>>)
                        .with_tweak(Box::new(flush_tweak::<ZstdBlobStore<MemoryBlobStore>>)),
                )
            }
            Kind::ZstdPlain => {
                caps.target = "ZstdBlobStore<PlainBlobStore>";
                let sc = Scratch::new(seed, "zplain");
                let dir = sc.0.clone();
                scratch = Some(sc);
                let level = *cfg.pick(&[1i32, 3, 9]);
                let s = ZstdBlobStore::new(PlainBlobStore::new(&dir).expect("scratch dir"), level);
                Box::new(
                    T::batch(s)
                        .with_restart(Box::new(move |s: ZstdBlobStore<PlainBlobStore>| {
                            drop(s);
                            Ok(ZstdBlobStore::new(PlainBlobStore::new(&dir).map_err(|e| es(&e))?, level))
                        }))
                        .with_pairs(iter_pairs::<ZstdBlobStore<PlainBlobStore>>),
                )
            }
            Kind::HuffmanUntrained => {
                caps.target = "HuffmanBlobStore<MemoryBlobStore>";
                Box::new(T::plain(HuffmanBlobStore::new(mem())).with_tweak(Box::new(flush_tweak::<HuffmanBlobStore<MemoryBlobStore>>)))
            }
            Kind::HuffmanRetrained => {
                caps.target = "HuffmanBlobStore<MemoryBlobStore>[tree rebuilt]";
                let mut s = HuffmanBlobStore::new(mem());
                if cfg.below(2) == 1 {
                    s.add_training_data(&training_text());
                    s.build_tree().expect("build_tree on non-empty training data");
                }
                Box::new(T::plain(s).with_tweak(Box::new(|s: &mut HuffmanBlobStore<MemoryBlobStore>, k| {
                    let piece = training_piece(k);
                    s.add_training_data(&piece);
                    let r = s.build_tree();
                    Some((format!("add_training_data({}); build_tree -> {}", desc(&piece), okerr(&r)), Effect::Unchanged))
                })))
            }
            Kind::HuffmanTrained => {
                caps.target = "HuffmanBlobStore<MemoryBlobStore>[tree built]";
                let mut s = HuffmanBlobStore::new(mem());
                s.add_training_data(&training_text());
                s.build_tree().expect("build_tree on non-empty training data");
                Box::new(T::plain(s))
            }
            Kind::Rans => {
                caps.target = "RansBlobStore<MemoryBlobStore>";
                let mut s = RansBlobStore::new(mem());
                if cfg.below(2) == 1 {
                    s.train(&training_text()).expect("train");
                }
                Box::new(T::plain(s).with_tweak(Box::new(|s: &mut RansBlobStore<MemoryBlobStore>, k| {
                    let piece = training_piece(k);
                    Some((format!("train({}) -> {}", desc(&piece), okerr(&s.train(&piece))), Effect::Unchanged))
                })))
            }
            Kind::Dictionary => {
                caps.target = "DictionaryBlobStore<MemoryBlobStore>";
                let mut s = DictionaryBlobStore::new(mem());
                if cfg.below(2) == 1 {
                    s.train(&training_text()).expect("train");
                }
                Box::new(T::plain(s).with_tweak(Box::new(|s: &mut DictionaryBlobStore<MemoryBlobStore>, k| {
                    let piece = training_piece(k);
                    Some((format!("train({}) -> {}", desc(&piece), okerr(&s.train(&piece))), Effect::Unchanged))
                })))
            }
            Kind::Cached(k) => {
                caps.target = ["CachedBlobStore<MemoryBlobStore>[write_through]", "CachedBlobStore<MemoryBlobStore>[write_back]", "CachedBlobStore<MemoryBlobStore>[write_around]"][k as usize % 3];
                let mut s = CachedBlobStore::with_write_strategy(mem(), cache_cfg(&cfg), strategy(k as u64)).expect("cache config");
                if cfg.below(6) == 0 {
                    s.disable_cache();
                }
                Box::new(T::plain(s).with_tweak(Box::new(cached_tweak::<MemoryBlobStore>)))
            }
            Kind::CachedZstd => {
                caps.target = "CachedBlobStore<ZstdBlobStore<MemoryBlobStore>>";
                let s = CachedBlobStore::with_write_strategy(ZstdBlobStore::new(mem(), 3), cache_cfg(&cfg), strategy(cfg.below(3))).expect("cache config");
                Box::new(T::plain(s).with_tweak(Box::new(cached_tweak::<ZstdBlobStore<MemoryBlobStore>>)))
            }
            Kind::ZstdCached => {
                caps.target = "ZstdBlobStore<CachedBlobStore<MemoryBlobStore>>";
                let s = ZstdBlobStore::new(CachedBlobStore::with_write_strategy(mem(), cache_cfg(&cfg), strategy(cfg.below(3))).expect("cache config"), 3);
                Box::new(T::plain(s).with_tweak(Box::new(|s: &mut ZstdBlobStore<CachedBlobStore<MemoryBlobStore>>, k| cached_tweak(s.inner_mut(), k).map(|(w, e)| (format!("inner: {}", w), e)))))
            }
            Kind::HuffmanZstd => {
                caps.target = "HuffmanBlobStore<ZstdBlobStore<MemoryBlobStore>>";
                Box::new(T::plain(HuffmanBlobStore::new(ZstdBlobStore::new(mem(), 3))))
            }
            Kind::ZeroLength => {
                caps.target = "ZeroLengthBlobStore";
                caps.only_empty = true;
                let n0 = cfg.biased_zero(4, 1, 2) as usize;
                let s = if n0 == 0 && cfg.below(2) == 0 { ZeroLengthBlobStore::new() } else { ZeroLengthBlobStore::finish(n0) };
                for i in 0..n0 {
                    m.issued.insert(i as RecordId);
                    m.live.insert(i as RecordId, vec![]);
                }
                cx.ev(format!("ZeroLengthBlobStore with {} initial records", n0));
                Box::new(
                    T::batch(s)
                        .with_restart(Box::new(|s: ZeroLengthBlobStore| json_roundtrip!(s, ZeroLengthBlobStore)))
                        .with_pairs(iter_pairs::<ZeroLengthBlobStore>)
                        .with_snap(clone_of::<ZeroLengthBlobStore>)
                        .with_tweak(Box::new(flush_tweak::<ZeroLengthBlobStore>)),
                )
            }
            Kind::DictZip(variant) => {
                caps.target = ["DictZipBlobStore[entropy=none]", "DictZipBlobStore[entropy=huffman_o1]", "DictZipBlobStore[entropy=fse]", "DictZipBlobStore[preset]"][variant as usize % 4];
                caps.no_empty = true;
                let c = dz_config(variant, &cfg);
                // 3 = the store is opened from a saved dictionary file instead of coming out of the builder
                let how = cfg.below(4);
                let sc = Scratch::new(seed, "dictzip");
                let dir = sc.0.clone();
                scratch = Some(sc);
                let mut b = DictZipBlobStoreBuilder::with_config(c.clone()).expect("valid config");
                let mut tg = Gen::new(5000);
                let nsamples = 2 + cfg.below(5);
                for k in 0..nsamples {
                    b.add_training_sample(&tg.make(if k % 3 == 2 { 3 } else { 5 }, k, k)).expect("non-empty sample");
                }
                let s0 = match b.finish() {
                    Ok(s) => s,
                    Err(e) => {
                        // building the dictionary is outside the property; a refusal here ends the run
                        cx.ev(format!("DictZipBlobStoreBuilder::finish -> Err({})", es(&e)));
                        cx.probe("dict_zip_build_refused");
                        return;
                    }
                };
                let s = if how == 3 {
                    let _ = std::fs::create_dir_all(&dir);
                    let path = dir.join("dict0");
                    match s0.save_dictionary(&path).and_then(|_| DictZipBlobStore::from_dictionary_file(&path, c.clone())) {
                        Ok(s1) => {
                            cx.ev("save_dictionary; from_dictionary_file -> Ok: this store is used");
                            cx.probe("opened_from_dictionary_file");
                            s1
                        }
                        Err(e) => {
                            cx.ev(format!("save_dictionary; from_dictionary_file -> Err({})", es(&e)));
                            cx.probe("dictionary_file_refused");
                            s0
                        }
                    }
                } else {
                    s0
                };
                let (dir2, c2) = (dir.clone(), c.clone());
                let mut other_built = false;
                Box::new(T::batch(s).with_pairs(dz_pairs).with_tweak(Box::new(move |s: &mut DictZipBlobStore, k| {
                    Some(match k[0] % 4 {
                        0 => (format!("optimize -> {}", okerr(&s.optimize())), Effect::Unchanged),
                        1 => (format!("validate -> {}", okerr(&s.validate())), Effect::Unchanged),
                        2 => {
                            // its own dictionary, saved and loaded again
                            let _ = std::fs::create_dir_all(&dir2);
                            let p = dir2.join("own");
                            if s.save_dictionary(&p).is_err() {
                                return Some(("save_dictionary -> Err".to_string(), Effect::Unchanged));
                            }
                            (format!("save_dictionary; load_dictionary(the same) -> {}", okerr(&s.load_dictionary(&p))), Effect::Unknown)
                        }
                        _ => {
                            // a dictionary trained on other samples
                            let _ = std::fs::create_dir_all(&dir2);
                            let p = dir2.join("other");
                            if !other_built {
                                let Ok(mut b) = DictZipBlobStoreBuilder::with_config(c2.clone()) else { return None };
                                let mut tg = Gen::new(7000);
                                for j in 0..3u64 {
                                    if b.add_training_sample(&tg.make(if j == 1 { 4 } else { 5 }, j + 6, j + 1)).is_err() {
                                        return None;
                                    }
                                }
                                let Ok(o) = b.finish() else { return Some(("another dictionary could not be built".to_string(), Effect::Unchanged)) };
                                if o.save_dictionary(&p).is_err() {
                                    return Some(("save_dictionary(other) -> Err".to_string(), Effect::Unchanged));
                                }
                                other_built = true;
                            }
                            (format!("load_dictionary(trained on other samples) -> {}", okerr(&s.load_dictionary(&p))), Effect::Unknown)
                        }
                    })
                })))
            }
            Kind::FZstd => {
                caps.target = "ZstdBlobStore<FaultyStore<MemoryBlobStore>>";
                Box::new(T::batch(ZstdBlobStore::new(faulty(cx, &mut fs), 3)))
            }
            Kind::FCached => {
                caps.target = "CachedBlobStore<FaultyStore<MemoryBlobStore>>";
                Box::new(T::plain(CachedBlobStore::with_write_strategy(faulty(cx, &mut fs), cache_cfg(&cfg), strategy(cfg.below(3))).expect("cache config")).with_tweak(Box::new(cached_tweak::<FaultyStore<MemoryBlobStore>>)))
            }
            Kind::FHuffman => {
                caps.target = "HuffmanBlobStore<FaultyStore<MemoryBlobStore>>";
                Box::new(T::plain(HuffmanBlobStore::new(faulty(cx, &mut fs))))
            }
            Kind::FRans => {
                caps.target = "RansBlobStore<FaultyStore<MemoryBlobStore>>";
                Box::new(T::plain(RansBlobStore::new(faulty(cx, &mut fs))))
            }
            Kind::FDictionary => {
                caps.target = "DictionaryBlobStore<FaultyStore<MemoryBlobStore>>";
                Box::new(T::plain(DictionaryBlobStore::new(faulty(cx, &mut fs))))
            }
            Kind::FZstdCached => {
                caps.target = "ZstdBlobStore<CachedBlobStore<FaultyStore<MemoryBlobStore>>>";
                Box::new(T::plain(ZstdBlobStore::new(CachedBlobStore::with_write_strategy(faulty(cx, &mut fs), cache_cfg(&cfg), strategy(cfg.below(3))).expect("cache config"), 3)))
            }
            Kind::FCachedZstd => {
                caps.target = "CachedBlobStore<ZstdBlobStore<FaultyStore<MemoryBlobStore>>>";
                Box::new(T::plain(CachedBlobStore::with_write_strategy(ZstdBlobStore::new(faulty(cx, &mut fs), 3), cache_cfg(&cfg), strategy(cfg.below(3))).expect("cache config")))
            }
        };
        drive(cx, t.as_mut(), &caps, &mut m, &mut gen, fs.as_ref());
        drop(t);
        drop(scratch);
    }
}

// ---------------------------------------------------------------------------------------
// NestLoudsTrieBlobStore: ids and keys

type TrieStore = NestLoudsTrieBlobStore<RankSelectInterleaved256>;

/// keys that are prefixes of each other, the empty key, a key with a NUL inside, and one longer than any
/// inline / path-compression limit (70 bytes)
const LONG_KEY: &[u8] = b"user/12/a-very-long-key-that-goes-on-and-on-and-on-and-on-and-on/0123456789";
const KEYS: [&[u8]; 13] = [b"a", b"ab", b"abc", b"abd", b"b", b"user/1", b"user/12", b"user/2", b"\x00", b"\xff\xfe", b"", b"ab\x00c", LONG_KEY];
const PREFIXES: [&[u8]; 10] = [b"", b"a", b"ab", b"user/", b"user/1", b"zz", b"\xff", b"ab\x00", b"user/12/a-very-long-key", LONG_KEY];

fn trie_config(preset: u8) -> TrieBlobStoreConfig {
    match preset {
        0 => TrieBlobStoreConfig::default(),
        1 => TrieBlobStoreConfig::performance_optimized(),
        2 => TrieBlobStoreConfig::memory_optimized(),
        _ => TrieBlobStoreConfig::security_optimized(),
    }
}

const TRIE_PRESET: [&str; 4] = ["default", "performance_optimized", "memory_optimized", "security_optimized"];

#[derive(Default)]
struct KeyModel {
    /// key -> record ids put under it, in put order
    by_key: BTreeMap<Vec<u8>, Vec<RecordId>>,
    /// keys under which two live records existed at the same time: the statement does not
    /// say which one `get_by_key` names, so only "one of the live ones" is required there
    ambiguous: BTreeSet<Vec<u8>>,
    /// ids stored through the key-less `put` (the store invents a key for them)
    keyless: BTreeSet<RecordId>,
}

impl KeyModel {
    fn live_ids(&self, m: &Model, key: &[u8]) -> Vec<RecordId> {
        self.by_key.get(key).map(|v| v.iter().copied().filter(|i| m.live.contains_key(i)).collect()).unwrap_or_default()
    }
    /// Check one (key, result) observation of get_by_key / get_by_prefix.
    fn check(&self, m: &Model, key: &[u8], got: Option<&[u8]>, op: &'static str) -> Option<V> {
        let live = self.live_ids(m, key);
        let k = String::from_utf8_lossy(key).to_string();
        match got {
            Some(b) => {
                if live.is_empty() {
                    return v("removed_key_served", op, format!("{} for key {:?} returned {} but no live record has that key", op, k, desc(b)));
                }
                if !live.iter().any(|i| m.live[i] == b) {
                    return v("wrong_value", op, format!("{} for key {:?} returned {} which is not the record stored under it ({})", op, k, desc(b), live.iter().map(|i| desc(&m.live[i])).collect::<Vec<_>>().join(" / ")));
                }
                None
            }
            None => {
                if live.len() == 1 && !self.ambiguous.contains(key) {
                    return v("lost_record", op, format!("{} does not find key {:?} whose record (id {}, {}) is live", op, k, live[0], desc(&m.live[&live[0]])));
                }
                None
            }
        }
    }
}

struct Trie {
    preset: u8,
    /// extra scenario: same history, len() not checked (looks past the len() defect of the preset without statistics)
    skip_len: bool,
}

impl Scenario for Trie {
    fn name(&self) -> String {
        format!("trie/{}{}", TRIE_PRESET[self.preset as usize], if self.skip_len { "_without_len" } else { "" })
    }
    fn budget(&self, tier: Tier) -> u64 {
        match tier {
            Tier::Quick => 3000,
            Tier::Thorough => 90000,
        }
    }
    fn run(&self, cx: &mut Run) {
        let cfg = cx.src.chan("cfg");
        let target: &'static str = ["NestLoudsTrieBlobStore[default]", "NestLoudsTrieBlobStore[performance_optimized]", "NestLoudsTrieBlobStore[memory_optimized]", "NestLoudsTrieBlobStore[security_optimized]"][self.preset as usize];
        let caps = Caps { target, only_empty: false, no_empty: false };
        let mut s: TrieStore = match TrieStore::new(trie_config(self.preset)) {
            Ok(s) => s,
            Err(e) => {
                cx.ev(format!("new -> Err({})", es(&e)));
                cx.probe("trie_store_creation_refused");
                return;
            }
        };
        let mut m = Model { skip_len: self.skip_len, ..Default::default() };
        let mut km = KeyModel::default();
        let mut gen = Gen::new(0);
        let planned = 4 + cfg.below(17);
        let mut ops = cx.src.ops("ops", planned);
        let mut prev = "start";
        let mut puts_ok = 0u64;
        let mut finalized = false;
        while let Some(o) = ops.next() {
            cx.steps += 1;
            let kind = match o[0] % 20 {
                0..=4 => "put_with_key",
                5 => "put",
                6 | 7 => "remove",
                8 | 9 => "get_by_key",
                10 | 11 => "get_by_prefix",
                12 => "get_batch",
                13 => "put_batch_with_keys",
                14 => "finalize",
                15 => "remove_live",
                16 => "remove_batch",
                17 => "contains_key",
                18 => "keys_with_prefix",
                _ => "put_batch",
            };
            match kind {
                "put_with_key" | "put" => {
                    let (_, data) = gen_record(&caps, &mut gen, &o);
                    let key: Vec<u8> = KEYS[(o[2] % KEYS.len() as u64) as usize].to_vec();
                    let r = if kind == "put" { s.put(&data) } else { s.put_with_key(&key, &data) };
                    let ks = String::from_utf8_lossy(&key).to_string();
                    match r {
                        Ok(id) => {
                            if kind == "put" {
                                cx.ev(format!("put {} -> id {}", desc(&data), id));
                                km.keyless.insert(id);
                            } else {
                                cx.ev(format!("put_with_key {:?} {} -> id {}", ks, desc(&data), id));
                                if !km.live_ids(&m, &key).is_empty() {
                                    km.ambiguous.insert(key.clone());
                                    cx.probe("duplicate_key_put");
                                }
                                km.by_key.entry(key).or_default().push(id);
                            }
                            if let Some(x) = m.acked_put(id, data) {
                                viol(cx, &caps, "", x);
                                return;
                            }
                            puts_ok += 1;
                        }
                        Err(_) => {
                            cx.ev(format!("{} {:?} {} -> Err{}", kind, ks, desc(&data), if finalized { " (finalized)" } else { "" }));
                            cx.probe("put_refused");
                        }
                    }
                }
                "put_batch_with_keys" => {
                    let n = (o[1] % 3) as usize + 1;
                    // distinct keys inside one batch; a refused batch is not promised to be atomic
                    let entries: Vec<(Vec<u8>, Vec<u8>)> = (0..n).map(|k| (KEYS[((o[2] as usize) + k) % KEYS.len()].to_vec(), gen.make(((o[3] as usize) + k) % 6, o[2] + k as u64, o[3]))).collect();
                    match s.put_batch_with_keys(entries.clone()) {
                        Ok(ids) => {
                            cx.ev(format!("put_batch_with_keys {} entries -> ids {:?}", n, ids));
                            if ids.len() != n {
                                cx.violate("batch_shape", &format!("{}.put_batch_with_keys", target), format!("{} entries, {} ids", n, ids.len()));
                                return;
                            }
                            for (id, (key, data)) in ids.iter().zip(entries.into_iter()) {
                                if !km.live_ids(&m, &key).is_empty() {
                                    km.ambiguous.insert(key.clone());
                                }
                                km.by_key.entry(key).or_default().push(*id);
                                if let Some(x) = m.acked_put(*id, data) {
                                    viol(cx, &caps, "", V { op: "put_batch_with_keys", ..x });
                                    return;
                                }
                                puts_ok += 1;
                            }
                        }
                        Err(_) => {
                            cx.ev(format!("put_batch_with_keys {} entries -> Err{}", n, if finalized { " (finalized)" } else { "" }));
                            if !finalized {
                                cx.probe("put_batch_refused_run_cut");
                                break;
                            }
                        }
                    }
                }
                "remove" | "remove_live" => {
                    let id = if kind == "remove_live" && !m.live.is_empty() {
                        let ids: Vec<RecordId> = m.live.keys().copied().collect();
                        ids[(o[2] as usize) % ids.len()]
                    } else {
                        m.pick(o[1], o[2])
                    };
                    let was = m.state(id);
                    let r = s.remove(id);
                    cx.ev(format!("remove {} ({}) -> {}", id, was, if r.is_ok() { "Ok" } else { "Err" }));
                    if r.is_ok() {
                        if m.live.remove(&id).is_some() {
                            m.removed.insert(id);
                            cx.probe("removed_live_record");
                        }
                    } else if was == "live" {
                        cx.probe("remove_of_live_record_refused");
                    }
                }
                "get_by_key" => {
                    let key = KEYS[(o[1] % KEYS.len() as u64) as usize];
                    let r = s.get_by_key(key);
                    let ks = String::from_utf8_lossy(key).to_string();
                    match &r {
                        Ok(b) => cx.ev(format!("get_by_key {:?} -> {}", ks, desc(b))),
                        Err(_) => cx.ev(format!("get_by_key {:?} -> Err", ks)),
                    }
                    if let Some(x) = km.check(&m, key, r.as_ref().ok().map(|b| b.as_slice()), "get_by_key") {
                        viol(cx, &caps, "", x);
                        return;
                    }
                }
                "get_by_prefix" => {
                    let p = PREFIXES[(o[1] % PREFIXES.len() as u64) as usize];
                    let ps = String::from_utf8_lossy(p).to_string();
                    match s.get_by_prefix(p) {
                        Ok(pairs) => {
                            cx.ev(format!("get_by_prefix {:?} -> [{}]", ps, pairs.iter().map(|(k, d)| format!("{:?}={}", String::from_utf8_lossy(k), desc(d))).collect::<Vec<_>>().join(", ")));
                            let mut seen: BTreeSet<Vec<u8>> = BTreeSet::new();
                            for (k, d) in &pairs {
                                if !k.starts_with(p) {
                                    cx.violate("wrong_value", &format!("{}.get_by_prefix", target), format!("prefix {:?} returned key {:?}", ps, String::from_utf8_lossy(k)));
                                    return;
                                }
                                if !seen.insert(k.clone()) {
                                    cx.violate("wrong_value", &format!("{}.get_by_prefix", target), format!("prefix {:?} returned key {:?} twice", ps, String::from_utf8_lossy(k)));
                                    return;
                                }
                                if !KEYS.contains(&k.as_slice()) {
                                    // a key the store invented for a key-less put: its data must be a live key-less record
                                    if !km.keyless.iter().any(|i| m.live.get(i) == Some(d)) {
                                        cx.violate("removed_key_served", &format!("{}.get_by_prefix", target), format!("prefix {:?} returned the store-made key {:?} with {} which is no live key-less record", ps, String::from_utf8_lossy(k), desc(d)));
                                        return;
                                    }
                                    continue;
                                }
                                if let Some(x) = km.check(&m, k, Some(d.as_slice()), "get_by_prefix") {
                                    viol(cx, &caps, "", x);
                                    return;
                                }
                            }
                            for k in km.by_key.keys().filter(|k| k.starts_with(p)) {
                                if !seen.contains(k) {
                                    if let Some(x) = km.check(&m, k, None, "get_by_prefix") {
                                        viol(cx, &caps, "", x);
                                        return;
                                    }
                                }
                            }
                        }
                        Err(_) => {
                            cx.ev(format!("get_by_prefix {:?} -> Err", ps));
                            cx.probe("prefix_query_refused");
                        }
                    }
                }
                "remove_batch" => {
                    let n = (o[1] % 4) as usize;
                    let ids: Vec<RecordId> = (0..n)
                        .map(|k| {
                            let k = k as u64;
                            if (o[2] >> k) & 1 == 1 && !m.live.is_empty() {
                                let live: Vec<RecordId> = m.live.keys().copied().collect();
                                live[((o[3] / (k + 1)) as usize) % live.len()]
                            } else {
                                m.pick(o[2] / (k + 1) + k, o[3] / (k + 1) + k)
                            }
                        })
                        .collect();
                    let hit: BTreeSet<RecordId> = ids.iter().copied().filter(|i| m.live.contains_key(i)).collect();
                    let states: Vec<String> = ids.iter().map(|i| format!("{}({})", i, m.state(*i))).collect();
                    match s.remove_batch(ids.clone()) {
                        Ok(cnt) => {
                            cx.ev(format!("remove_batch [{}] -> Ok({})", states.join(", "), cnt));
                            if finalized && cnt == 0 {
                                // a finalized store refuses every removal
                            } else if cnt == hit.len() {
                                for i in &hit {
                                    m.live.remove(i);
                                    m.removed.insert(*i);
                                }
                                if !hit.is_empty() {
                                    cx.probe("remove_batch_removed_live_records");
                                }
                            } else {
                                // the count is not part of the statement, and which records went is unknown: stop here
                                cx.probe("remove_batch_count_differs_run_cut");
                                break;
                            }
                        }
                        Err(_) => {
                            cx.ev(format!("remove_batch [{}] -> Err", states.join(", ")));
                            if !hit.is_empty() {
                                cx.probe("remove_batch_refused_run_cut");
                                break;
                            }
                        }
                    }
                }
                "contains_key" => {
                    let key = KEYS[(o[1] % KEYS.len() as u64) as usize];
                    let r = s.contains_key(key);
                    let ks = String::from_utf8_lossy(key).to_string();
                    cx.ev(format!("contains_key {:?} -> {}", ks, r));
                    // only the direction the statement covers: a key whose (single) record is live is there
                    if !r {
                        if let Some(x) = km.check(&m, key, None, "contains_key") {
                            viol(cx, &caps, "", x);
                            return;
                        }
                    }
                }
                "keys_with_prefix" => {
                    let p = PREFIXES[(o[1] % PREFIXES.len() as u64) as usize];
                    let ps = String::from_utf8_lossy(p).to_string();
                    let r = if p.is_empty() && o[2] % 2 == 0 { s.keys() } else { s.keys_with_prefix(p) };
                    match r {
                        Ok(keys) => {
                            cx.ev(format!("keys_with_prefix {:?} -> {} keys", ps, keys.len()));
                            if let Some(k) = keys.iter().find(|k| !k.starts_with(p)) {
                                cx.violate("wrong_value", &format!("{}.keys_with_prefix", target), format!("prefix {:?} returned key {:?}", ps, String::from_utf8_lossy(k)));
                                return;
                            }
                            let seen: BTreeSet<&Vec<u8>> = keys.iter().collect();
                            for k in km.by_key.keys().filter(|k| k.starts_with(p)) {
                                if !seen.contains(k) {
                                    if let Some(x) = km.check(&m, k, None, "keys_with_prefix") {
                                        viol(cx, &caps, "", x);
                                        return;
                                    }
                                }
                            }
                        }
                        Err(_) => {
                            cx.ev(format!("keys_with_prefix {:?} -> Err", ps));
                            cx.probe("prefix_query_refused");
                        }
                    }
                }
                "put_batch" => {
                    let n = (o[1] % 3) as usize + 1;
                    let batch: Vec<Vec<u8>> = (0..n).map(|k| gen_record(&caps, &mut gen, &[o[0], o[2] + 7 * k as u64, o[3] + k as u64, o[3] / 7]).1).collect();
                    match s.put_batch(batch.clone()) {
                        Ok(ids) => {
                            cx.ev(format!("put_batch [{}] -> ids {:?}", batch.iter().map(|d| desc(d)).collect::<Vec<_>>().join(", "), ids));
                            if ids.len() != n {
                                cx.violate("batch_shape", &format!("{}.put_batch", target), format!("{} records, {} ids", n, ids.len()));
                                return;
                            }
                            for (id, data) in ids.iter().zip(batch.into_iter()) {
                                km.keyless.insert(*id);
                                if let Some(x) = m.acked_put(*id, data) {
                                    viol(cx, &caps, "", V { op: "put_batch", ..x });
                                    return;
                                }
                                puts_ok += 1;
                            }
                        }
                        Err(_) => {
                            cx.ev(format!("put_batch {} records -> Err{}", n, if finalized { " (finalized)" } else { "" }));
                            if !finalized {
                                cx.probe("put_batch_refused_run_cut");
                                break;
                            }
                        }
                    }
                }
                "get_batch" => {
                    let ids: Vec<RecordId> = (0..3).map(|k| m.pick(o[1] + k, o[2] / (k + 1))).collect();
                    match s.get_batch(ids.clone()) {
                        Ok(out) => {
                            cx.ev(format!("get_batch {:?} -> [{}]", ids, out.iter().map(|x| x.as_ref().map(|b| desc(b)).unwrap_or_else(|| "None".into())).collect::<Vec<_>>().join(", ")));
                            if out.len() != ids.len() {
                                cx.violate("batch_shape", &format!("{}.get_batch", target), format!("{} ids, {} entries", ids.len(), out.len()));
                                return;
                            }
                            for (id, got) in ids.iter().zip(out.iter()) {
                                match (got, m.live.get(id)) {
                                    (Some(b), Some(d)) if b == d => {}
                                    (None, None) => {}
                                    (Some(b), Some(d)) => {
                                        cx.violate("wrong_value", &format!("{}.get_batch", target), format!("entry for id {} is {} but {} was stored", id, desc(b), desc(d)));
                                        return;
                                    }
                                    (Some(b), None) => {
                                        cx.violate(if m.removed.contains(id) { "removed_id_served" } else { "unknown_id_served" }, &format!("{}.get_batch", target), format!("entry for id {} is {} but the id is {}", id, desc(b), m.state(*id)));
                                        return;
                                    }
                                    (None, Some(d)) => {
                                        cx.violate("lost_record", &format!("{}.get_batch", target), format!("entry for live id {} ({}) is None", id, desc(d)));
                                        return;
                                    }
                                }
                            }
                        }
                        Err(_) => cx.ev(format!("get_batch {:?} -> Err", ids)),
                    }
                }
                _ => {
                    let r = s.finalize();
                    cx.ev(format!("finalize -> {}", if r.is_ok() { "Ok" } else { "Err" }));
                    if r.is_ok() {
                        finalized = true;
                        cx.probe("finalized");
                    }
                }
            }
            cx.cell(format!("{}/{}>{}", target, prev, kind));
            prev = kind;
            if let Some(x) = m.audit(&s) {
                viol(cx, &caps, if finalized { "@finalized" } else { "" }, x);
                return;
            }
        }
        cx.nontrivial = cx.steps >= 3 && puts_ok >= 1;
    }
}

// ---------------------------------------------------------------------------------------
// stores built in bulk

/// Input records of a bulk build.  One run in five is a *large* build: a record count around the
/// block sizes of the index structures (64 / 128 offsets per block, 256 bits per rank block) made
/// of short records; the others have up to `max_n` records of every class.  One record in five
/// is derived from an earlier one (see `Gen::derived`).
fn gen_inputs(cx: &mut Run, gen: &mut Gen, max_n: u64, text_bias: bool, allow_empty_set: bool) -> Vec<Vec<u8>> {
    let cfg = cx.src.chan("cfg");
    let mut planned = if allow_empty_set { cfg.below(max_n + 1) } else { 1 + cfg.below(max_n) };
    let large = cfg.chance(1, 5);
    if large {
        planned = *cfg.pick(&[63u64, 64, 65, 127, 128, 129, 200, 255, 256, 257, 300, 513]);
    }
    let mut ops = cx.src.ops("ops", planned);
    let mut out: Vec<Vec<u8>> = vec![];
    let mut digest = 0u64;
    while let Some(o) = ops.next() {
        let mut class = (o[0] % 6) as usize;
        if text_bias && o[1] % 2 == 0 {
            class = 5;
        }
        if large {
            // short records, mostly of one length, so that the structures stay small and the equal-length path is the common one
            class = [2usize, 2, 1, 0, 2, 1, 2, 4][(o[0] % 8) as usize];
        }
        let (label, d) = match if (o[0] / 8) % 5 == 4 { gen.derived(o[0] / 40, o[2], o[3]) } else { None } {
            Some((k, v)) => (RELATION[k], v),
            None => (CLASS[class], gen.make(class, if large && class == 4 { o[2] % 3 } else { o[2] }, o[3])),
        };
        if large {
            digest = mix(digest, hash_bytes(&d));
        } else {
            cx.ev(format!("input {} = {} {}", out.len(), label, desc(&d)));
        }
        out.push(d);
    }
    if large {
        cx.ev(format!("{} short input records (digest {:016x})", out.len(), digest));
        cx.probe("large_build");
    }
    cx.steps = out.len() as u64;
    out
}

/// record i == input i, absent beyond, len/contains/size agree.
fn check_bulk(cx: &mut Run, st: &dyn BlobStore, inputs: &[Vec<u8>], target: &str, phase: &str) -> bool {
    let mut m = Model::default();
    for (i, d) in inputs.iter().enumerate() {
        m.issued.insert(i as RecordId);
        m.live.insert(i as RecordId, d.clone());
    }
    // len first: a store that lost everything is reported as such, not as "record 0 missing"
    if st.len() != inputs.len() {
        cx.violate("len_mismatch", &format!("{}.len{}", target, phase), format!("built from {} records, len() = {}", inputs.len(), st.len()));
        return false;
    }
    if let Some(x) = m.audit(st) {
        cx.violate(x.class, &format!("{}.{}{}", target, x.op, phase), x.detail);
        return false;
    }
    true
}

struct ZipOffsetBulk;

fn zo_config(cfg: &Chan) -> (ZipOffsetBlobStoreConfig, String) {
    match cfg.below(6) {
        0 => (ZipOffsetBlobStoreConfig::default(), "default".into()),
        1 => (ZipOffsetBlobStoreConfig::performance_optimized(), "performance_optimized".into()),
        2 => (ZipOffsetBlobStoreConfig::compression_optimized(), "compression_optimized".into()),
        3 => (ZipOffsetBlobStoreConfig::security_optimized(), "security_optimized".into()),
        _ => {
            let mut c = ZipOffsetBlobStoreConfig { compress_level: *cfg.pick(&[0u8, 0, 1, 3]), checksum_level: cfg.below(4) as u8, ..Default::default() };
            let mut n = format!("compress={} checksum={}", c.compress_level, c.checksum_level);
            if cfg.chance(1, 2) {
                // the offset index with other block sizes and bit widths than the presets have (sample widths 58..63 are
                // left to sorted_uint_vec/bulk, where they are a known finding of SortedUintVecBuilder)
                c.offset_config = SortedUintVecConfig { log2_block_units: 4 + cfg.below(5) as u8, offset_width: *cfg.pick(&[16u8, 12, 13, 20, 31, 32]), sample_width: *cfg.pick(&[32u8, 24, 17, 33, 40, 57, 64]), use_simd: cfg.below(2) == 0 };
                n = format!("{} offsets(log2_block={} offset_width={} sample_width={} simd={})", n, c.offset_config.log2_block_units, c.offset_config.offset_width, c.offset_config.sample_width, c.offset_config.use_simd);
            }
            (c, n)
        }
    }
}

impl Scenario for ZipOffsetBulk {
    fn name(&self) -> String {
        "zip_offset/bulk".into()
    }
    fn budget(&self, tier: Tier) -> u64 {
        match tier {
            Tier::Quick => 1200,
            Tier::Thorough => 36000,
        }
    }
    fn run(&self, cx: &mut Run) {
        let cfg = cx.src.chan("cfg");
        let (c, cname) = zo_config(&cfg);
        cx.ev(format!("config {}", cname));
        let mut gen = Gen::new(0);
        let inputs = gen_inputs(cx, &mut gen, 8, false, true);
        let mut b = ZipOffsetBlobStoreBuilder::with_config(c).expect("preset config is valid");
        // how the records reach the builder: one by one, or some of them through add_records / after reserve
        let how = cfg.below(3);
        let split = if how == 0 { inputs.len() } else { (cfg.below(inputs.len() as u64 + 1)) as usize };
        if how == 2 {
            let _ = b.reserve(inputs.len());
        }
        for (i, d) in inputs.iter().enumerate().take(split) {
            match b.add_record(d) {
                Ok(id) => {
                    if id as usize != i {
                        cx.violate("id_mismatch", "ZipOffsetBlobStoreBuilder.add_record", format!("record {} was given id {}", i, id));
                        return;
                    }
                }
                Err(e) => {
                    cx.ev(format!("add_record {} -> Err({})", i, es(&e)));
                    cx.probe("add_record_refused");
                    return;
                }
            }
        }
        if split < inputs.len() {
            match b.add_records(inputs[split..].iter()) {
                Ok(ids) => {
                    cx.ev(format!("add_records({} records) -> {} ids", inputs.len() - split, ids.len()));
                    let want: Vec<RecordId> = (split as RecordId..inputs.len() as RecordId).collect();
                    if ids != want {
                        cx.violate("id_mismatch", "ZipOffsetBlobStoreBuilder.add_records", format!("records {}..{} were given ids {:?}", split, inputs.len(), ids));
                        return;
                    }
                }
                Err(e) => {
                    cx.ev(format!("add_records -> Err({})", es(&e)));
                    cx.probe("add_record_refused");
                    return;
                }
            }
        }
        let st = match b.finish() {
            Ok(s) => s,
            Err(e) => {
                cx.ev(format!("finish -> Err({})", es(&e)));
                cx.probe("finish_refused");
                return;
            }
        };
        cx.ev(format!("finish -> store with len {}", st.len()));
        cx.nontrivial = !inputs.is_empty();
        cx.cell(format!("zip_offset/{}/{}", cname, inputs.len().min(3)));
        check_bulk(cx, &st, &inputs, "ZipOffsetBlobStoreBuilder.finish", "");
    }
}

/// The batching front end of the builder: record i of the built store == input i.
struct ZipOffsetBatchBuilder;

impl Scenario for ZipOffsetBatchBuilder {
    fn name(&self) -> String {
        "zip_offset/batch_builder".into()
    }
    fn budget(&self, tier: Tier) -> u64 {
        match tier {
            Tier::Quick => 800,
            Tier::Thorough => 24000,
        }
    }
    fn run(&self, cx: &mut Run) {
        let cfg = cx.src.chan("cfg");
        let (c, cname) = zo_config(&cfg);
        let batch = *cfg.pick(&[1usize, 2, 3, 8, 1000]);
        cx.ev(format!("config {} batch_size={}", cname, batch));
        let mut gen = Gen::new(0);
        let inputs = gen_inputs(cx, &mut gen, 8, false, true);
        let Ok(mut b) = BatchZipOffsetBlobStoreBuilder::with_config(c, batch) else {
            cx.probe("builder_refused");
            return;
        };
        for (i, d) in inputs.iter().enumerate() {
            if let Err(e) = b.add_record(d) {
                cx.ev(format!("add_record {} -> Err({})", i, es(&e)));
                cx.probe("add_record_refused");
                return;
            }
        }
        let st = match b.finish() {
            Ok(s) => s,
            Err(e) => {
                cx.ev(format!("finish -> Err({})", es(&e)));
                cx.probe("finish_refused");
                return;
            }
        };
        cx.ev(format!("finish -> store with len {}", st.len()));
        cx.nontrivial = !inputs.is_empty();
        cx.cell(format!("zip_offset_batch/{}/{}/{}", cname, batch.min(9), inputs.len().min(3)));
        check_bulk(cx, &st, &inputs, "BatchZipOffsetBlobStoreBuilder.finish", "");
    }
}

/// save_to_writer -> load_from_reader: the loaded store answers like the saved one.
struct ZipOffsetSaveLoad {
    hard: bool,
}

impl Scenario for ZipOffsetSaveLoad {
    fn name(&self) -> String {
        format!("zip_offset_save_load/{}", if self.hard { "faulty" } else { "clean" })
    }
    fn budget(&self, tier: Tier) -> u64 {
        match tier {
            Tier::Quick => 1200,
            Tier::Thorough => 36000,
        }
    }
    fn run(&self, cx: &mut Run) {
        let cfg = cx.src.chan("cfg");
        let (c, cname) = zo_config(&cfg);
        cx.ev(format!("config {}", cname));
        let mut gen = Gen::new(0);
        let inputs = gen_inputs(cx, &mut gen, 6, false, true);
        let mut b = ZipOffsetBlobStoreBuilder::with_config(c).expect("preset config is valid");
        for d in &inputs {
            if b.add_record(d).is_err() {
                cx.probe("add_record_refused");
                return;
            }
        }
        let Ok(orig) = b.finish() else {
            cx.probe("finish_refused");
            return;
        };
        // reference bytes through a plain Vec
        let mut plain: Vec<u8> = vec![];
        if let Err(e) = orig.save_to_writer(&mut plain) {
            cx.ev(format!("save_to_writer(Vec) -> Err({})", es(&e)));
            cx.probe("save_refused");
            return;
        }
        let fchan = cx.src.chan("fault");
        let wcfg = e3::draw_cfg(&cfg, self.hard && cfg.below(2) == 0, plain.len() as u64);
        let wlog = e3::new_log();
        let mut w = FaultyWrite::new(Vec::<u8>::new(), wcfg.clone(), fchan.clone(), wlog.clone());
        let wr = orig.save_to_writer(&mut w);
        let wl = wlog.lock().unwrap().clone();
        for (k, n) in [("write.short", wl.short), ("write.eintr", wl.eintr), ("write.error", wl.errors), ("write.cut", wl.cut)] {
            for _ in 0..n {
                cx.fault(k);
            }
        }
        cx.ev(format!("save_to_writer -> {} (short={} eintr={} error={} cut={})", if wr.is_ok() { "Ok" } else { "Err" }, wl.short, wl.eintr, wl.errors, wl.cut));
        let saved = w.into_inner();
        cx.nontrivial = true;
        match wr {
            Ok(()) => {
                if wl.errors + wl.cut > 0 {
                    cx.violate("error_swallowed", "ZipOffsetBlobStore.save_to_writer", format!("the writer failed hard ({} errors, {} storage-full) and save_to_writer returned Ok", wl.errors, wl.cut));
                    return;
                }
                if saved != plain {
                    cx.violate("wrong_value", "ZipOffsetBlobStore.save_to_writer", format!("bytes written through a chunking writer differ from those written to a Vec ({} vs {} bytes)", saved.len(), plain.len()));
                    return;
                }
            }
            Err(_) => {
                if wl.hard_faults() == 0 {
                    cx.violate("spurious_error", "ZipOffsetBlobStore.save_to_writer", "save_to_writer failed although the writer only made short writes".to_string());
                }
                return;
            }
        }
        let rcfg = e3::draw_cfg(&cfg, self.hard, plain.len() as u64);
        let rlog = e3::new_log();
        let mut r = FaultyRead::new(std::io::Cursor::new(plain.clone()), rcfg, fchan, rlog.clone());
        let lr = ZipOffsetBlobStore::load_from_reader(&mut r);
        let rl = rlog.lock().unwrap().clone();
        for (k, n) in [("read.short", rl.short), ("read.eintr", rl.eintr), ("read.error", rl.errors), ("read.cut", rl.cut)] {
            for _ in 0..n {
                cx.fault(k);
            }
        }
        cx.ev(format!("load_from_reader -> {} (short={} eintr={} error={} cut={})", if lr.is_ok() { "Ok" } else { "Err" }, rl.short, rl.eintr, rl.errors, rl.cut));
        let loaded = match lr {
            Ok(s) => {
                if rl.errors + rl.cut > 0 {
                    cx.violate("error_swallowed", "ZipOffsetBlobStore.load_from_reader", format!("the reader failed hard ({} errors, {} early EOF) and load_from_reader returned Ok", rl.errors, rl.cut));
                    return;
                }
                s
            }
            Err(e) => {
                if rl.hard_faults() == 0 {
                    cx.violate("reload_failed", "ZipOffsetBlobStore.load_from_reader", format!("loading what save_to_writer wrote failed: {}", es(&e)));
                }
                return;
            }
        };
        // identical answers
        if loaded.len() != orig.len() {
            cx.violate("len_mismatch", "ZipOffsetBlobStore.len@reloaded", format!("len() = {} before saving, {} after loading", orig.len(), loaded.len()));
            return;
        }
        for id in 0..(inputs.len() as RecordId + 2) {
            let (a, b2) = (orig.get(id), loaded.get(id));
            if a.as_ref().ok() != b2.as_ref().ok() {
                cx.violate("wrong_value", "ZipOffsetBlobStore.get@reloaded", format!("get({}) answers {:?} before saving and {:?} after loading", id, a.as_ref().ok().map(|b| desc(b)), b2.as_ref().ok().map(|b| desc(b))));
                return;
            }
            if orig.contains(id) != loaded.contains(id) || orig.size(id).ok() != loaded.size(id).ok() {
                cx.violate("size_mismatch", "ZipOffsetBlobStore.size@reloaded", format!("contains/size of id {} differ after loading", id));
                return;
            }
        }
    }
}

struct SimpleZipBulk;

impl Scenario for SimpleZipBulk {
    fn name(&self) -> String {
        "simple_zip/bulk".into()
    }
    fn budget(&self, tier: Tier) -> u64 {
        match tier {
            Tier::Quick => 5000,
            Tier::Thorough => 150000,
        }
    }
    fn run(&self, cx: &mut Run) {
        let cfg = cx.src.chan("cfg");
        let config = if cfg.below(3) == 0 {
            SimpleZipConfig::default()
        } else {
            let min = *cfg.pick(&[1usize, 2, 8, 16]);
            let max = min + *cfg.pick(&[0usize, 1, 4, 16, 240]);
            let delims = match cfg.below(3) {
                0 => vec![b'\n', b'\r', b'\t', b' '],
                1 => vec![b'/'],
                _ => vec![],
            };
            cx.ev(format!("config min_frag_len={} max_frag_len={} delimiters={:?}", min, max, delims));
            match SimpleZipConfig::builder().min_frag_len(min).max_frag_len(max).delimiters(delims).build() {
                Ok(c) => c,
                Err(_) => {
                    cx.probe("config_refused");
                    return;
                }
            }
        };
        let mut gen = Gen::new(0);
        let inputs = gen_inputs(cx, &mut gen, 8, true, true);
        let st = match SimpleZipBlobStore::build_from(&inputs, &config) {
            Ok(s) => s,
            Err(e) => {
                cx.ev(format!("build_from -> Err({})", es(&e)));
                cx.probe("build_refused");
                return;
            }
        };
        cx.nontrivial = !inputs.is_empty();
        cx.cell(format!("simple_zip/{}", inputs.len().min(4)));
        if !check_bulk(cx, &st, &inputs, "SimpleZipBlobStore", "") {
            return;
        }
        check_get_batch(cx, &st, &inputs, "SimpleZipBlobStore");
    }
}

fn check_get_batch<S: BatchBlobStore>(cx: &mut Run, st: &S, inputs: &[Vec<u8>], target: &str) {
    let n = inputs.len() as RecordId;
    let ids: Vec<RecordId> = (0..n + 2).rev().collect();
    match st.get_batch(ids.clone()) {
        Ok(out) => {
            if out.len() != ids.len() {
                cx.violate("batch_shape", &format!("{}.get_batch", target), format!("{} ids, {} entries", ids.len(), out.len()));
                return;
            }
            for (id, got) in ids.iter().zip(out.iter()) {
                let want = inputs.get(*id as usize);
                if got.as_ref() != want {
                    cx.violate(if want.is_some() { "wrong_value" } else { "unknown_id_served" }, &format!("{}.get_batch", target), format!("entry for id {} is {:?}, expected {:?}", id, got.as_ref().map(|b| desc(b)), want.map(|b| desc(b))));
                    return;
                }
            }
        }
        Err(_) => cx.probe("get_batch_refused"),
    }
}

struct MixedLenBulk;

impl Scenario for MixedLenBulk {
    fn name(&self) -> String {
        "mixed_len/bulk".into()
    }
    fn budget(&self, tier: Tier) -> u64 {
        match tier {
            Tier::Quick => 5000,
            Tier::Thorough => 150000,
        }
    }
    fn run(&self, cx: &mut Run) {
        let cfg = cx.src.chan("cfg");
        let mut gen = Gen::new(0);
        let inputs = gen_inputs(cx, &mut gen, 10, false, true);
        // length histogram: when the most common length is not unique, build_from's choice
        // depends on hash iteration order; name the length explicitly then (same code path)
        let mut hist: BTreeMap<usize, usize> = BTreeMap::new();
        for d in &inputs {
            *hist.entry(d.len()).or_insert(0) += 1;
        }
        let top = hist.values().copied().max().unwrap_or(0);
        let tied: Vec<usize> = hist.iter().filter(|(_, c)| **c == top).map(|(l, _)| *l).collect();
        let mode = cfg.below(4);
        let r = if tied.len() > 1 || mode == 0 {
            let l = if tied.is_empty() { 0 } else { tied[(cfg.below(tied.len() as u64)) as usize] };
            let l = if mode == 1 { *cfg.pick(&[0usize, 16, 3]) } else { l };
            cx.ev(format!("build_from_with_fixed_len({})", l));
            MixedLenBlobStore::build_from_with_fixed_len(&inputs, l)
        } else {
            cx.ev("build_from");
            MixedLenBlobStore::build_from(&inputs)
        };
        let st = match r {
            Ok(s) => s,
            Err(e) => {
                cx.ev(format!("build -> Err({})", es(&e)));
                cx.probe("build_refused");
                return;
            }
        };
        cx.nontrivial = !inputs.is_empty();
        cx.cell(format!("mixed_len/{}/{}", inputs.len().min(4), tied.len().min(3)));
        if !check_bulk(cx, &st, &inputs, "MixedLenBlobStore", "") {
            return;
        }
        check_get_batch(cx, &st, &inputs, "MixedLenBlobStore");
    }
}

struct TrieBuilder;

impl Scenario for TrieBuilder {
    fn name(&self) -> String {
        "trie/builder".into()
    }
    fn budget(&self, tier: Tier) -> u64 {
        match tier {
            Tier::Quick => 1600,
            Tier::Thorough => 48000,
        }
    }
    fn run(&self, cx: &mut Run) {
        let cfg = cx.src.chan("cfg");
        // presets that keep statistics (len() is derived from them; the preset without is trie/memory_optimized)
        let preset = *cfg.pick(&[0u8, 1, 3]);
        let mut c = trie_config(preset);
        let sorted = cfg.below(2) == 0;
        c.enable_batch_optimization = sorted;
        cx.ev(format!("config {} batch_optimization={}", TRIE_PRESET[preset as usize], sorted));
        let mut gen = Gen::new(0);
        let inputs = gen_inputs(cx, &mut gen, 8, false, true);
        let dup = cfg.below(4) == 0;
        let keys: Vec<Vec<u8>> = (0..inputs.len()).map(|i| if dup { KEYS[(i * 3) % 4].to_vec() } else { KEYS[(i * 7 + 3) % KEYS.len()].to_vec() }).collect();
        let Ok(mut b) = NestLoudsTrieBlobStoreBuilder::<RankSelectInterleaved256>::new(c) else {
            cx.probe("builder_refused");
            return;
        };
        for (k, d) in keys.iter().zip(inputs.iter()) {
            cx.ev(format!("add {:?}", String::from_utf8_lossy(k)));
            if b.add(k, d).is_err() {
                cx.probe("add_refused");
                return;
            }
        }
        let mut st = match b.finish() {
            Ok(s) => s,
            Err(e) => {
                cx.ev(format!("finish -> Err({})", es(&e)));
                cx.probe("finish_refused");
                return;
            }
        };
        cx.nontrivial = !inputs.is_empty();
        let target = "NestLoudsTrieBlobStoreBuilder.finish";
        if sorted {
            // ids follow the builder's key order: compare as a multiset, and by key below
            if st.len() != inputs.len() {
                cx.violate("len_mismatch", &format!("{}.len", target), format!("built from {} records, len() = {}", inputs.len(), st.len()));
                return;
            }
            let mut got: Vec<Vec<u8>> = vec![];
            for id in 0..inputs.len() as RecordId {
                match st.get(id) {
                    Ok(b) => got.push(b),
                    Err(e) => {
                        cx.violate("lost_record", &format!("{}.get", target), format!("get({}) failed on a store built from {} records: {}", id, inputs.len(), es(&e)));
                        return;
                    }
                }
            }
            let mut want = inputs.clone();
            want.sort();
            got.sort();
            if want != got {
                cx.violate("wrong_value", &format!("{}.get", target), "the records of the built store are not the inputs".to_string());
                return;
            }
        } else if !check_bulk(cx, &st, &inputs, target, "") {
            return;
        }
        // by key
        let mut by_key: BTreeMap<Vec<u8>, Vec<&Vec<u8>>> = BTreeMap::new();
        for (k, d) in keys.iter().zip(inputs.iter()) {
            by_key.entry(k.clone()).or_default().push(d);
        }
        for (k, ds) in &by_key {
            match st.get_by_key(k) {
                Ok(b) => {
                    if !ds.iter().any(|d| **d == b) {
                        cx.violate("wrong_value", &format!("{}.get_by_key", target), format!("key {:?} returned {} which was not added under it", String::from_utf8_lossy(k), desc(&b)));
                        return;
                    }
                }
                Err(e) => {
                    cx.violate("lost_record", &format!("{}.get_by_key", target), format!("key {:?} not found in the built store: {}", String::from_utf8_lossy(k), es(&e)));
                    return;
                }
            }
        }
    }
}

/// The offset index of ZipOffsetBlobStore: value i == input i.
struct OffsetIndex;

impl Scenario for OffsetIndex {
    fn name(&self) -> String {
        "sorted_uint_vec/bulk".into()
    }
    fn budget(&self, tier: Tier) -> u64 {
        match tier {
            Tier::Quick => 5000,
            Tier::Thorough => 150000,
        }
    }
    fn run(&self, cx: &mut Run) {
        let cfg = cx.src.chan("cfg");
        let c = match cfg.below(4) {
            0 => SortedUintVecConfig::default(),
            1 => SortedUintVecConfig::performance_optimized(),
            2 => SortedUintVecConfig::memory_optimized(),
            // every width the configuration accepts, not only whole bytes: 9, 13, 31 / 17, 33, 57, 63 put fields across byte boundaries
            _ => SortedUintVecConfig { log2_block_units: 4 + cfg.below(5) as u8, offset_width: *cfg.pick(&[8u8, 12, 16, 20, 32, 9, 13, 25, 31]), sample_width: *cfg.pick(&[16u8, 24, 32, 40, 64, 17, 33, 57, 63]), use_simd: cfg.below(2) == 0 },
        };
        cx.ev(format!("config log2_block_units={} offset_width={} sample_width={} simd={}", c.log2_block_units, c.offset_width, c.sample_width, c.use_simd));
        let n = match cfg.below(4) {
            0 => cfg.below(4),
            1 => cfg.below(40),
            _ => cfg.below(3 * c.block_size() as u64 + 2),
        };
        // record lengths -> offsets (what ZipOffsetBlobStoreBuilder pushes), kept inside the documented sample range
        let limit: u64 = if c.sample_width >= 64 { u64::MAX } else { (1u64 << c.sample_width) - 1 };
        let start = if cfg.below(4) == 0 { limit / 2 } else { 0 };
        let lens = cx.src.chan("ops");
        let step = *cfg.pick(&[1u64, 16, 300, 5000]);
        let mut vals: Vec<u64> = vec![];
        let mut cur = start;
        for _ in 0..n {
            vals.push(cur);
            let l = if lens.below(4) == 0 { 0 } else { lens.below(step + 1) };
            cur = cur.saturating_add(l).min(limit);
        }
        cx.steps = n;
        let mut b = SortedUintVecBuilder::with_config(c);
        for x in &vals {
            if b.push(*x).is_err() {
                cx.violate("spurious_error", "SortedUintVecBuilder.push", format!("push({}) refused although values are non-decreasing", x));
                return;
            }
        }
        let sv = match b.finish() {
            Ok(s) => s,
            Err(e) => {
                cx.ev(format!("finish -> Err({})", es(&e)));
                cx.probe("finish_refused");
                return;
            }
        };
        cx.ev(format!("built {} values from {} to {}", vals.len(), vals.first().copied().unwrap_or(0), vals.last().copied().unwrap_or(0)));
        cx.nontrivial = n >= 1;
        cx.cell(format!("suv/{}/{}/{}", c.log2_block_units, c.offset_width, (n / c.block_size() as u64).min(3)));
        if sv.len() != vals.len() {
            cx.violate("len_mismatch", "SortedUintVec.len", format!("{} values pushed, len() = {}", vals.len(), sv.len()));
            return;
        }
        for (i, x) in vals.iter().enumerate() {
            match sv.get(i) {
                Ok(g) if g == *x => {}
                Ok(g) => {
                    cx.violate("wrong_value", "SortedUintVec.get", format!("get({}) = {} but {} was pushed", i, g, x));
                    return;
                }
                Err(e) => {
                    cx.violate("lost_record", "SortedUintVec.get", format!("get({}) failed: {}", i, es(&e)));
                    return;
                }
            }
            if i + 1 < vals.len() {
                match sv.get2(i) {
                    Ok(g) if g == (*x, vals[i + 1]) => {}
                    Ok(g) => {
                        cx.violate("wrong_value", "SortedUintVec.get2", format!("get2({}) = {:?} but ({}, {}) was pushed", i, g, x, vals[i + 1]));
                        return;
                    }
                    Err(e) => {
                        cx.violate("lost_record", "SortedUintVec.get2", format!("get2({}) failed: {}", i, es(&e)));
                        return;
                    }
                }
            }
        }
        if sv.get(vals.len()).is_ok() {
            cx.violate("unknown_id_served", "SortedUintVec.get", format!("get({}) succeeded on {} values", vals.len(), vals.len()));
            return;
        }
        let bs = c.block_size();
        let mut buf = vec![0u64; bs];
        for blk in 0..sv.num_blocks() {
            if sv.get_block(blk, &mut buf).is_err() {
                cx.violate("lost_record", "SortedUintVec.get_block", format!("get_block({}) failed", blk));
                return;
            }
            let lo = blk * bs;
            let hi = (lo + bs).min(vals.len());
            if lo < hi && buf[..hi - lo] != vals[lo..hi] {
                let k = (0..hi - lo).find(|k| buf[*k] != vals[lo + *k]).unwrap();
                cx.violate("wrong_value", "SortedUintVec.get_block", format!("get_block({}) entry {} = {} but {} was pushed", blk, k, buf[k], vals[lo + k]));
                return;
            }
        }
    }
}

fn main() {
    let mut spec = CheckSpec::new(
        "C03",
        "exploration",
        "seeded histories of put/put_batch/remove/remove_batch/get/size/contains/get_batch/restart/reconfiguration calls/clone as second handle/iteration (and put_with_key/get_by_key/get_by_prefix/\
         contains_key/keys_with_prefix/finalize for the trie store) over records that are empty, tiny, equal-length, highly compressible, incompressible, text, or derived from an earlier record \
         (same again, one byte changed, prefix, extension), against a BTreeMap model audited after every step; bulk-built stores (up to 513 records) checked record by record; \
         non-trivial = at least 3 operations of which one put was acknowledged (bulk: at least one input record); distinct = distinct hash of the event trace plus (target, op-bigram, record-class) cells",
    );
    spec.assumptions = vec![
        "one client, no concurrency; file-backed stores use a private scratch directory nobody else touches".into(),
        "an id may be handed out again once its record has been removed (the statement only forbids reuse for a different live record)".into(),
        "during a call in which an injected fault fired the store may fail or report absence; it may not return wrong bytes, and later fault-free calls are checked strictly".into(),
        "serde (JSON) round trip counts as save -> load for MemoryBlobStore, ZstdBlobStore<MemoryBlobStore>, ZeroLengthBlobStore".into(),
        "the count remove_batch returns is not checked; when it differs from the number of live ids in the batch, or the batch fails, those records may be live or gone (what is served must still be right)".into(),
        "configuration and maintenance calls (cache on/off, write strategy, flush, prefetch, reserve, train / build_tree, optimize, validate) must leave every record as it was; MemoryBlobStore::clear removes all records; after DictZipBlobStore::load_dictionary earlier records may be gone, later ones are checked strictly".into(),
        "iteration (iter_blobs / iter_blobs_vec) is only required to yield right bytes for live ids, not to be complete".into(),
    ];
    spec.components = vec![
        ("blob_store::{Memory,Plain,Zstd,Huffman,Rans,Dictionary,Cached,ZeroLength,SimpleZip,MixedLen,ZipOffset(+Builder),NestLoudsTrie(+Builder)}BlobStore, SortedUintVec, DictZipBlobStore", "real"),
        ("file system under std::env::temp_dir()", "real"),
        ("inner store of the fault family", "real MemoryBlobStore behind FaultyStore (fail-before / lost acknowledgement)"),
        ("byte streams of save/load", "FaultyWrite / FaultyRead over memory"),
    ];
    spec.init = zsim_props::install_hooks;
    let mutable: Vec<(Kind, &'static str, u64)> = vec![
        (Kind::Memory, "memory/clean", 6000),
        (Kind::Plain, "plain/clean", 800),
        (Kind::ZstdMemory, "zstd_memory/clean", 3000),
        (Kind::ZstdPlain, "zstd_plain/clean", 600),
        (Kind::HuffmanUntrained, "huffman_memory/untrained", 3000),
        (Kind::HuffmanTrained, "huffman_memory/trained", 1200),
        (Kind::HuffmanRetrained, "huffman_memory/retrained", 1500),
        (Kind::Rans, "rans_memory/clean", 3000),
        (Kind::Dictionary, "dictionary_memory/clean", 2000),
        (Kind::Cached(0), "cached_memory/write_through", 3000),
        (Kind::Cached(1), "cached_memory/write_back", 3000),
        (Kind::Cached(2), "cached_memory/write_around", 3000),
        (Kind::CachedZstd, "cached_zstd_memory/clean", 2000),
        (Kind::ZstdCached, "zstd_cached_memory/clean", 2000),
        (Kind::HuffmanZstd, "huffman_zstd_memory/clean", 2000),
        (Kind::ZeroLength, "zero_length/clean", 6000),
        (Kind::DictZip(0), "dict_zip/entropy_none", 500),
        (Kind::DictZip(1), "dict_zip/entropy_huffman_o1", 500),
        (Kind::DictZip(2), "dict_zip/entropy_fse", 500),
        (Kind::DictZip(3), "dict_zip/presets", 500),
        (Kind::FZstd, "zstd_faulty_memory/faulty", 4000),
        (Kind::FCached, "cached_faulty_memory/faulty", 4000),
        (Kind::FHuffman, "huffman_faulty_memory/faulty", 3000),
        (Kind::FRans, "rans_faulty_memory/faulty", 2000),
        (Kind::FDictionary, "dictionary_faulty_memory/faulty", 2000),
        (Kind::FZstdCached, "zstd_cached_faulty_memory/faulty", 3000),
        (Kind::FCachedZstd, "cached_zstd_faulty_memory/faulty", 3000),
    ];
    for (kind, name, quick) in mutable {
        spec.scenarios.push(Box::new(Mutable { kind, name, quick }));
    }
    for preset in 0..4u8 {
        spec.scenarios.push(Box::new(Trie { preset, skip_len: false }));
    }
    spec.scenarios.push(Box::new(Trie { preset: 2, skip_len: true }));
    spec.scenarios.push(Box::new(TrieBuilder));
    spec.scenarios.push(Box::new(ZipOffsetBulk));
    spec.scenarios.push(Box::new(ZipOffsetBatchBuilder));
    spec.scenarios.push(Box::new(ZipOffsetSaveLoad { hard: false }));
    spec.scenarios.push(Box::new(ZipOffsetSaveLoad { hard: true }));
    spec.scenarios.push(Box::new(SimpleZipBulk));
    spec.scenarios.push(Box::new(MixedLenBulk));
    spec.scenarios.push(Box::new(OffsetIndex));
    // development aid: restrict to scenarios whose name contains the given text
    if let Ok(only) = std::env::var("ZSIM_C03_ONLY") {
        spec.scenarios.retain(|s| s.name().contains(&only));
    }
    zsim_core::driver::main(spec);
}
