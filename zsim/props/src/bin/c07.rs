//! C07 — live allocations from any pool never overlap and keep their contents.
//!
//! Single-threaded histories of allocate(size)/free against every pool of `zipora::memory`,
//! compared step by step with a shadow interval map.  Oracle per step:
//!   * a new block does not intersect a live one                      (`overlap`)
//!   * it lies inside memory the pool obtained                         (`outside_pool_memory`)
//!   * it satisfies the requested / configured alignment               (`misaligned`)
//!   * it is at least as large as requested                            (`too_small`)
//!   * every live block still holds the pattern written at its birth   (`content_corrupted`)
//!   * the pool does not release memory that holds a live block        (`freed_while_live`)
//!   * a request that cannot fit is refused                            (`accepted_beyond_capacity`)
//!   * a validating pool rejects a pointer it never issued             (`foreign_free_accepted`)
//!   * a freed block is kept for reuse (SecureMemoryPool)              (`freed_block_not_reused`)
//!   * freeing a live block succeeds                                   (`free_rejected`)
//! Panics / crashes are picked up by the driver.
//!
//! Beyond plain allocate/free the histories also drive (audit round, see REPORT of the audit):
//!   * `clear()` / `clear_caches()` in the middle of a history and continued use afterwards
//!     (MemoryPool, SecureMemoryPool, ThreadLocalMemoryPool), two ThreadLocalMemoryPools and two
//!     TieredMemoryAllocators on one thread (they share `thread_local!` state), a second handle
//!     to an AdaptiveFiveLevelPool (`get_handle`);
//!   * the bulk / hinted allocation entry points (LockFreeMemoryPool::allocate_bulk_simd,
//!     SecureMemoryPool::{allocate_with_hint, allocate_bulk_with_prefetch}), the RAII wrapper
//!     LockFreeAllocation, the library's LockFreePoolConfig presets, MemoryMappedAllocator::default;
//!   * per-run knob `full`: blocks are filled and overlap-checked for every byte the handle
//!     exposes (FixedCapacityAllocation::size(), MmapAllocation::actual_size()), not only the request;
//!   * per-run knob `drop_pool_first`: the harness' handle to a SecureMemoryPool is dropped while
//!     blocks are live;
//!   * pointers never issued that lie directly before / after the LockFreeMemoryPool's region;
//!   * typed bump allocations with element types whose size differs from their alignment and
//!     over-aligned ones, through BumpAllocator, BumpArena and BumpScope;
//!   * PooledVec<T> (several element types) next to PooledBuffer over the global pools;
//!   * SecureMemoryPool's error counters around every free (its guard's Drop swallows the verdict).
//!
//! Mechanics worth knowing:
//!   * this binary installs its own `#[global_allocator]` (malloc + 16-byte header).  While a
//!     pool call is in progress (`IN_POOL`) every heap allocation is (a) recorded, so that
//!     "memory the pool owns" and "pool released memory under a live block" are decided
//!     without touching the memory, and (b) placed at an address that has *exactly* the
//!     alignment the pool asked the allocator for (address mod 4096 = align * odd, the odd
//!     factor drawn from the seed), so that a pool relying on the allocator's
//!     over-alignment is caught deterministically instead of by luck.  A region found
//!     released under a live block is quarantined (not freed), so the harness never reads
//!     freed memory.
//!   * pools that keep state in `thread_local!` statics shared by all instances are either
//!     reset through their API before and after a run (ThreadLocalMemoryPool::clear_caches)
//!     or, where no reset exists (tiered MEDIUM_POOLS, five-level THREAD_CACHE), run on a
//!     fresh OS thread per run.
//!   * scenarios whose target can corrupt itself badly enough to kill the process
//!     (LockFreeMemoryPool, SecureMemoryPool with an odd chunk size) first execute the history
//!     in a forked copy of the worker (`run_in(.., canary = true, ..)`); a copy killed by a
//!     signal is the verdict `crash:<signal>`, with the events it streamed back, and the worker
//!     itself survives (no lost statistics, the tapes can be shrunk).
//!   * memory is only ever touched inside blocks that passed the containment + overlap
//!     checks, and only for the requested length.

use std::alloc::{GlobalAlloc, Layout};
use std::panic::{catch_unwind, AssertUnwindSafe};
use std::ptr::NonNull;
use std::sync::atomic::Ordering::Relaxed;
use std::sync::Arc;
use zsim_core::{CheckSpec, Run, Scenario, Tier};

// -----------------------------------------------------------------------------------------
// global allocator: header + tracking + exact alignment + quarantine

mod ga {
    use super::*;
    use std::sync::atomic::{AtomicBool, AtomicUsize};

    pub const NT: usize = 4096;
    pub const NL: usize = 64;
    pub static IN_POOL: AtomicBool = AtomicBool::new(false);
    pub static SKEW_J: AtomicUsize = AtomicUsize::new(0);
    pub static T_PTR: [AtomicUsize; NT] = [const { AtomicUsize::new(0) }; NT];
    pub static T_LEN: [AtomicUsize; NT] = [const { AtomicUsize::new(0) }; NT];
    pub static T_HWM: AtomicUsize = AtomicUsize::new(0);
    pub static T_OVERFLOW: AtomicBool = AtomicBool::new(false);
    pub static L_LO: [AtomicUsize; NL] = [const { AtomicUsize::new(0) }; NL];
    pub static L_HI: [AtomicUsize; NL] = [const { AtomicUsize::new(0) }; NL];
    /// 0 = nothing; otherwise 1 + index of the live slot found inside a region being released
    pub static FREED_LIVE: AtomicUsize = AtomicUsize::new(0);
    pub static FREED_LEN: AtomicUsize = AtomicUsize::new(0);
    pub static FREED_OFF: AtomicUsize = AtomicUsize::new(0);

    pub struct Skew;

    unsafe impl GlobalAlloc for Skew {
        unsafe fn alloc(&self, l: Layout) -> *mut u8 {
            let (size, align) = (l.size(), l.align());
            let inpool = IN_POOL.load(Relaxed);
            let p;
            let raw;
            if inpool && align <= 2048 {
                let a = align.max(8);
                let total = match size.checked_add(2 * 4096 + 16) {
                    Some(t) => t,
                    None => return std::ptr::null_mut(),
                };
                raw = libc::malloc(total) as usize;
                if raw == 0 {
                    return std::ptr::null_mut();
                }
                let base = (raw + 16 + 4095) & !4095;
                let j = SKEW_J.load(Relaxed);
                let r = (a * (2 * j + 1)) % 4096;
                p = base + r;
            } else {
                let a = align.max(16);
                let total = match size.checked_add(a).and_then(|t| t.checked_add(16)) {
                    Some(t) => t,
                    None => return std::ptr::null_mut(),
                };
                raw = libc::malloc(total) as usize;
                if raw == 0 {
                    return std::ptr::null_mut();
                }
                p = (raw + 16 + a - 1) & !(a - 1);
            }
            *((p - 8) as *mut usize) = raw;
            if inpool && size > 0 {
                let i = T_HWM.load(Relaxed);
                if i < NT {
                    T_PTR[i].store(p, Relaxed);
                    T_LEN[i].store(size, Relaxed);
                    T_HWM.store(i + 1, Relaxed);
                } else {
                    // table full (only possible when it is kept across runs): reuse a released slot
                    let mut done = false;
                    for k in 0..NT {
                        if T_PTR[k].load(Relaxed) == 0 {
                            T_LEN[k].store(size, Relaxed);
                            T_PTR[k].store(p, Relaxed);
                            done = true;
                            break;
                        }
                    }
                    if !done {
                        T_OVERFLOW.store(true, Relaxed);
                    }
                }
            }
            p as *mut u8
        }

        unsafe fn dealloc(&self, p: *mut u8, _l: Layout) {
            let pu = p as usize;
            let hwm = T_HWM.load(Relaxed);
            for i in 0..hwm {
                if T_PTR[i].load(Relaxed) == pu {
                    let len = T_LEN[i].load(Relaxed);
                    T_PTR[i].store(0, Relaxed);
                    for s in 0..NL {
                        let lo = L_LO[s].load(Relaxed);
                        if lo != 0 {
                            let hi = L_HI[s].load(Relaxed);
                            if lo < pu + len && pu < hi {
                                if FREED_LIVE.load(Relaxed) == 0 {
                                    FREED_LIVE.store(s + 1, Relaxed);
                                    FREED_LEN.store(len, Relaxed);
                                    FREED_OFF.store(lo.wrapping_sub(pu), Relaxed);
                                }
                                // quarantine: the region stays mapped, nobody reads freed memory
                                return;
                            }
                        }
                    }
                    break;
                }
            }
            let raw = *((pu - 8) as *const usize);
            libc::free(raw as *mut libc::c_void);
        }
    }

    pub fn reset(keep_table: bool) {
        IN_POOL.store(false, Relaxed);
        if !keep_table {
            T_HWM.store(0, Relaxed);
            T_OVERFLOW.store(false, Relaxed);
        }
        for s in 0..NL {
            L_LO[s].store(0, Relaxed);
            L_HI[s].store(0, Relaxed);
        }
        FREED_LIVE.store(0, Relaxed);
    }

    /// the recorded region that wholly contains [addr, addr+len)
    pub fn region_of(addr: usize, len: usize) -> Option<(usize, usize)> {
        let hwm = T_HWM.load(Relaxed);
        for i in 0..hwm {
            let p = T_PTR[i].load(Relaxed);
            if p != 0 {
                let l = T_LEN[i].load(Relaxed);
                if addr >= p && addr + len <= p + l {
                    return Some((p, l));
                }
            }
        }
        None
    }

    pub fn live_add(lo: usize, hi: usize) -> usize {
        for s in 0..NL {
            if L_LO[s].load(Relaxed) == 0 {
                L_HI[s].store(hi, Relaxed);
                L_LO[s].store(lo, Relaxed);
                return s;
            }
        }
        usize::MAX
    }
    pub fn live_del(s: usize) {
        if s < NL {
            L_LO[s].store(0, Relaxed);
        }
    }
}

#[global_allocator]
static GA: ga::Skew = ga::Skew;

struct InPool;
impl InPool {
    fn enter() -> InPool {
        ga::IN_POOL.store(true, Relaxed);
        InPool
    }
}
impl Drop for InPool {
    fn drop(&mut self) {
        ga::IN_POOL.store(false, Relaxed);
    }
}
/// run a call into the pool under test with allocation tracking switched on
fn pc<R>(f: impl FnOnce() -> R) -> R {
    let _g = InPool::enter();
    f()
}

// -----------------------------------------------------------------------------------------
// shadow model

#[derive(Clone, Copy, PartialEq)]
enum Mem {
    /// real address; `contain`: the block must lie inside a heap region the pool obtained
    Ptr { contain: bool },
    /// offset into an opaque region of `bound` bytes (None: unknown)
    Off { bound: Option<usize> },
}

struct Blk<H> {
    id: u32,
    addr: usize,
    len: usize,
    /// the size that was requested (= `len` unless the run tracks the handle's whole usable length)
    req: usize,
    /// never dropped implicitly: after a panic inside the pool nothing is handed back to it
    h: std::mem::ManuallyDrop<H>,
    slot: usize,
    mem: Mem,
    birth: u64,
}

struct Shadow<H> {
    t: &'static str,
    blocks: Vec<Blk<H>>,
    next_id: u32,
    clock: u64,
    allocs_ok: u64,
    frees: u64,
    alloc_after_free: bool,
}

fn pat(id: u32, i: usize) -> u8 {
    ((id as usize).wrapping_mul(167).wrapping_add(i.wrapping_mul(31)).wrapping_add(i >> 7) as u8) ^ 0x5a
}

fn for_idx(len: usize, mut f: impl FnMut(usize) -> bool) {
    if len <= 4096 {
        for i in 0..len {
            if !f(i) {
                return;
            }
        }
    } else {
        for i in 0..512 {
            if !f(i) {
                return;
            }
        }
        let mut i = 512;
        while i < len - 512 {
            if !f(i) {
                return;
            }
            i += 253;
        }
        for i in len - 512..len {
            if !f(i) {
                return;
            }
        }
    }
}

fn where_is(addr: usize, len: usize) -> String {
    match ga::region_of(addr, len) {
        Some((p, l)) => format!("@+{} of a {}-byte region", addr - p, l),
        None => "@(no recorded region)".to_string(),
    }
}

impl<H> Shadow<H> {
    fn new(t: &'static str) -> Self {
        Shadow { t, blocks: vec![], next_id: 1, clock: 0, allocs_ok: 0, frees: 0, alloc_after_free: false }
    }

    /// Check a block the pool just returned and, if it is sound, start tracking it and fill it.
    /// On a violation the handle is leaked (never handed back to a pool in an unknown state).
    fn admit(&mut self, cx: &mut Run, h: H, addr: usize, len: usize, align: usize, mem: Mem, what: &str) -> Option<u32> {
        let id = self.next_id;
        self.next_id += 1;
        self.clock += 1;
        let site = format!("{}.allocate", self.t);
        let is_ptr = matches!(mem, Mem::Ptr { .. });
        if len > 0 {
            match mem {
                Mem::Ptr { contain: true } => {
                    if !ga::T_OVERFLOW.load(Relaxed) && ga::region_of(addr, len).is_none() {
                        ev(cx, format!("{} -> block #{} ({} bytes)", what, id, len));
                        cx.violate("outside_pool_memory", &site, format!("block #{} ({} bytes) does not lie inside any heap region the pool obtained and still holds", id, len));
                        std::mem::forget(h);
                        return None;
                    }
                }
                Mem::Off { bound: Some(b) } => {
                    if addr + len > b {
                        ev(cx, format!("{} -> block #{} offset {} ({} bytes)", what, id, addr, len));
                        cx.violate("outside_pool_memory", &site, format!("block #{} = offsets [{}, {}) exceeds the pool's capacity {}", id, addr, addr + len, b));
                        std::mem::forget(h);
                        return None;
                    }
                }
                _ => {}
            }
            for b in &self.blocks {
                if b.len > 0 && (is_ptr == matches!(b.mem, Mem::Ptr { .. })) && addr < b.addr + b.len && b.addr < addr + len {
                    let d = addr as i128 - b.addr as i128;
                    ev(cx, format!("{} -> block #{} ({} bytes)", what, id, len));
                    cx.violate("overlap", &site, format!("new block #{} ({} bytes) starts {} bytes {} live block #{} ({} bytes): the ranges intersect", id, len, d.abs(), if d >= 0 { "after the start of" } else { "before the start of" }, b.id, b.len));
                    std::mem::forget(h);
                    return None;
                }
            }
        }
        let place = match mem {
            Mem::Ptr { .. } => where_is(addr, len),
            Mem::Off { .. } => format!("offset {}", addr),
        };
        ev(cx, format!("{} -> block #{} ({} bytes) {}", what, id, len, place));
        if align > 1 && addr % align != 0 {
            cx.violate("misaligned", &site, format!("block #{} ({} bytes) is not aligned to {} bytes", id, len, align));
            std::mem::forget(h);
            return None;
        }
        let mut slot = usize::MAX;
        if is_ptr && len > 0 {
            slot = ga::live_add(addr, addr + len);
            let p = addr as *mut u8;
            for_idx(len, |i| {
                unsafe { p.add(i).write_volatile(pat(id, i)) };
                true
            });
        }
        self.blocks.push(Blk { id, addr, len, req: len, h: std::mem::ManuallyDrop::new(h), slot, mem, birth: self.clock });
        self.allocs_ok += 1;
        if self.frees > 0 {
            self.alloc_after_free = true;
        }
        Some(id)
    }

    fn check_blk(b: &Blk<H>) -> Option<(usize, u8, u8)> {
        if !matches!(b.mem, Mem::Ptr { .. }) || b.len == 0 {
            return None;
        }
        let p = b.addr as *const u8;
        let mut bad = None;
        for_idx(b.len, |i| {
            let got = unsafe { p.add(i).read_volatile() };
            let want = pat(b.id, i);
            if got != want {
                bad = Some((i, got, want));
                false
            } else {
                true
            }
        });
        bad
    }

    /// every live block still holds what was written into it
    fn verify(&self, cx: &mut Run, after: &str) -> bool {
        for b in &self.blocks {
            if let Some((i, got, want)) = Self::check_blk(b) {
                cx.violate("content_corrupted", &format!("{}.contents", self.t), format!("live block #{} ({} bytes): byte {} is {:#04x}, written {:#04x}; first seen after {}", b.id, b.len, i, got, want, after));
                return false;
            }
        }
        true
    }

    /// stop tracking block `idx` (it is about to be freed); contents are verified first
    fn take(&mut self, cx: &mut Run, idx: usize) -> Option<Blk<H>> {
        let b = self.blocks.remove(idx);
        if let Some((i, got, want)) = Self::check_blk(&b) {
            cx.violate("content_corrupted", &format!("{}.contents", self.t), format!("block #{} ({} bytes) about to be freed: byte {} is {:#04x}, written {:#04x}", b.id, b.len, i, got, want));
            ga::live_del(b.slot);
            return None;
        }
        ga::live_del(b.slot);
        self.frees += 1;
        Some(b)
    }

    fn abandon(self) {
        for b in self.blocks {
            ga::live_del(b.slot);
        }
    }
}

/// In a forked canary (see `run_in`) every event is also streamed to the parent, so that the
/// history up to a process-killing crash is not lost.
static EV_FD: std::sync::atomic::AtomicI32 = std::sync::atomic::AtomicI32::new(-1);
/// Dry mode: after a canary died, the parent walks through the same history without calling
/// the pool, only to consume exactly the random draws the canary consumed (the recorded
/// tapes are the replay file); events are taken from the canary's stream instead.
static DRY: std::sync::atomic::AtomicBool = std::sync::atomic::AtomicBool::new(false);
fn ev(cx: &mut Run, s: impl AsRef<str>) {
    if DRY.load(Relaxed) {
        return;
    }
    let s = s.as_ref();
    let fd = EV_FD.load(Relaxed);
    if fd >= 0 {
        let mut line = Vec::with_capacity(s.len() + 1);
        line.extend_from_slice(s.as_bytes());
        line.push(b'\n');
        unsafe { libc::write(fd, line.as_ptr() as *const libc::c_void, line.len()) };
    }
    cx.ev(s);
}

/// the pool call in progress, so that a panic inside it still shows up in the event list
static PENDING: std::sync::Mutex<String> = std::sync::Mutex::new(String::new());
fn pending(s: &str) {
    if let Ok(mut g) = PENDING.lock() {
        g.clear();
        g.push_str(s);
    }
    // in a forked canary the parent also learns which call was in progress when the copy died
    let fd = EV_FD.load(Relaxed);
    if fd >= 0 && !DRY.load(Relaxed) {
        let mut line = Vec::with_capacity(s.len() + 2);
        line.push(1u8);
        line.extend_from_slice(s.as_bytes());
        line.push(b'\n');
        unsafe { libc::write(fd, line.as_ptr() as *const libc::c_void, line.len()) };
    }
}

/// did the pool release a heap region under a live block during the last call?
fn hook_violation<H>(cx: &mut Run, sh: &Shadow<H>) -> bool {
    let f = ga::FREED_LIVE.load(Relaxed);
    if f == 0 {
        return false;
    }
    let slot = f - 1;
    let id = sh.blocks.iter().find(|b| b.slot == slot).map(|b| b.id).unwrap_or(0);
    cx.violate(
        "freed_while_live",
        &format!("{}.backing_memory", sh.t),
        format!("the pool released a {}-byte heap region while live block #{} lies inside it (at +{})", ga::FREED_LEN.load(Relaxed), id, ga::FREED_OFF.load(Relaxed)),
    );
    true
}

// -----------------------------------------------------------------------------------------
// generic history driver

struct Got<H> {
    h: H,
    addr: usize,
    /// bytes the caller may use according to the handle (>= requested expected)
    usable: usize,
    mem: Mem,
    /// alignment the block must satisfy (1 = none promised)
    align: usize,
}

struct Params {
    sizes: Vec<usize>,
    aligns: Vec<usize>,
    max_live: usize,
    w_alloc: u64,
    w_free: u64,
    min_ops: u64,
    max_ops: u64,
    /// track (fill, verify, overlap-check) every byte the handle exposes (`Got::usable`), not only the
    /// requested length: the handle's safe slice view may be longer than the request
    full: bool,
    /// at wind-down give up the harness' own handle to the pool *before* the live blocks are freed
    /// (only targets whose `release_handle` supports it)
    drop_pool_first: bool,
}

trait Target {
    type H;
    fn t(&self) -> &'static str;
    fn alloc(&mut self, size: usize, align: usize) -> Result<Got<Self::H>, String>;
    fn free(&mut self, h: Self::H, size: usize) -> Result<(), String>;
    fn can_free(&self) -> bool {
        true
    }
    /// the request cannot possibly fit: Ok would be a violation
    fn must_refuse(&self, _size: usize, _align: usize, _live: usize) -> Option<String> {
        None
    }
    /// a violation noticed by the target's own bookkeeping during the last call
    fn pending(&mut self) -> Option<(String, String, String)> {
        None
    }
    /// target-specific operation; returns false if it has none (an allocation is done instead)
    fn extra(&mut self, _cx: &mut Run, _sh: &mut Shadow<Self::H>, _o: [u64; 4]) -> bool {
        false
    }
    fn alloc_name(&self, size: usize, align: usize) -> String {
        let _ = align;
        format!("allocate({})", size)
    }
    /// drop the harness' own handle to the pool (live blocks keep whatever they hold); false = not supported
    fn release_handle(&mut self) -> bool {
        false
    }
    /// housekeeping of the harness after a clean run, before the pool is dropped (no oracle involved)
    fn before_drop(&mut self) {}
}

fn history<T: Target>(cx: &mut Run, t: T, p: &Params) {
    // the pool is dropped explicitly at the end of a clean run and leaked otherwise
    let mut t = std::mem::ManuallyDrop::new(t);
    let cfg = cx.src.chan("cfg");
    let planned = p.min_ops + cfg.below(p.max_ops - p.min_ops + 1);
    let mut ops = cx.src.ops("ops", planned);
    if DRY.load(Relaxed) {
        while ops.next().is_some() {}
        return;
    }
    let mut sh: Shadow<T::H> = Shadow::new(t.t());
    let tn = t.t();
    let mut refused = 0u64;
    while let Some(o) = ops.next() {
        cx.steps += 1;
        let k = o[0] % 100;
        let mut last = String::new();
        let want_alloc = k < p.w_alloc;
        let want_free = !want_alloc && k < p.w_alloc + p.w_free;
        let mut do_alloc = want_alloc;
        let mut do_free = want_free;
        if !want_alloc && !want_free {
            pending("a pool-specific operation");
            let did = t.extra(cx, &mut sh, o);
            pending("");
            if did {
                if cx.failed() || hook_violation(cx, &sh) {
                    break;
                }
                if let Some((c, s, d)) = t.pending() {
                    cx.violate(&c, &s, d);
                    break;
                }
                if !sh.verify(cx, "the pool-specific operation above") {
                    break;
                }
                continue;
            }
            do_alloc = true;
        }
        if do_alloc && sh.blocks.len() >= p.max_live {
            do_alloc = false;
            do_free = true;
        }
        if do_free && (sh.blocks.is_empty() || !t.can_free()) {
            do_free = false;
            do_alloc = sh.blocks.len() < p.max_live;
        }
        if do_alloc {
            let size = p.sizes[(o[1] as usize) % p.sizes.len()];
            let align = p.aligns[(o[2] as usize) % p.aligns.len()];
            let name = t.alloc_name(size, align);
            let refuse = t.must_refuse(size, align, sh.blocks.len());
            pending(&name);
            let r = pc(|| t.alloc(size, align));
            pending("");
            if hook_violation(cx, &sh) {
                ev(cx, format!("{} (during this call)", name));
                if let Ok(g) = r {
                    std::mem::forget(g.h);
                }
                break;
            }
            match r {
                Ok(g) => {
                    cx.cell(format!("{}/alloc/ok", tn));
                    if let Some(why) = refuse {
                        ev(cx, format!("{} -> ok", name));
                        cx.violate("accepted_beyond_capacity", &format!("{}.allocate", tn), format!("{} succeeded although {}", name, why));
                        std::mem::forget(g.h);
                        break;
                    }
                    if g.usable < size {
                        ev(cx, format!("{} -> ok, handle reports {} usable bytes", name, g.usable));
                        cx.violate("too_small", &format!("{}.allocate", tn), format!("{} returned a block of {} bytes", name, g.usable));
                        std::mem::forget(g.h);
                        break;
                    }
                    let len = if p.full { g.usable } else { size };
                    if len > size {
                        cx.probe("handle_exposes_more_than_requested");
                    }
                    if sh.admit(cx, g.h, g.addr, len, g.align, g.mem, &name).is_none() {
                        break;
                    }
                    if let Some(b) = sh.blocks.last_mut() {
                        b.req = size;
                    }
                    if sh.blocks.len() >= 2 {
                        cx.probe("two_or_more_blocks_live");
                    }
                }
                Err(e) => {
                    refused += 1;
                    cx.cell(format!("{}/alloc/refused", tn));
                    ev(cx, format!("{} -> refused ({})", name, e.chars().take(60).collect::<String>()));
                    if refuse.is_some() {
                        cx.fault("request_beyond_capacity_refused");
                    }
                }
            }
            last = name;
        } else if do_free {
            let idx = (o[1] as usize) % sh.blocks.len();
            let b = match sh.take(cx, idx) {
                Some(b) => b,
                None => break,
            };
            let name = format!("free(block #{}, {} bytes)", b.id, b.req);
            let blen = b.req;
            pending(&name);
            let r = pc(|| t.free(std::mem::ManuallyDrop::into_inner(b.h), blen));
            pending("");
            ev(cx, match &r {
                Ok(()) => name.clone(),
                Err(e) => format!("{} -> error ({})", name, e.chars().take(60).collect::<String>()),
            });
            cx.cell(format!("{}/free/{}", tn, if r.is_ok() { "ok" } else { "err" }));
            if hook_violation(cx, &sh) {
                break;
            }
            if let Err(e) = r {
                cx.violate("free_rejected", &format!("{}.deallocate", tn), format!("{} of a live block issued by this pool failed: {}", name, e));
                break;
            }
            last = name;
        }
        if let Some((c, s, d)) = t.pending() {
            cx.violate(&c, &s, d);
            break;
        }
        if !sh.verify(cx, &last) {
            break;
        }
    }
    if refused > 0 {
        cx.probe_n("allocations_refused", refused);
    }
    if sh.alloc_after_free {
        cx.probe("allocation_after_a_free");
    }
    cx.nontrivial = sh.allocs_ok >= 2 && sh.alloc_after_free;
    if cx.failed() {
        sh.abandon();
        return;
    }
    // wind down: free what is still live (contents verified first), then drop the pool
    if p.drop_pool_first && !sh.blocks.is_empty() {
        let did = pc(|| t.release_handle());
        if did {
            cx.probe("pool_handle_dropped_before_live_blocks");
            ev(cx, format!("drop(the pool handle) with {} block(s) live", sh.blocks.len()));
            if hook_violation(cx, &sh) || !sh.verify(cx, "dropping the pool handle") {
                sh.abandon();
                return;
            }
        }
    }
    while !sh.blocks.is_empty() && t.can_free() {
        let b = match sh.take(cx, sh.blocks.len() - 1) {
            Some(b) => b,
            None => break,
        };
        let blen = b.req;
        let r = pc(|| t.free(std::mem::ManuallyDrop::into_inner(b.h), blen));
        if hook_violation(cx, &sh) {
            break;
        }
        if let Err(e) = r {
            ev(cx, format!("free(block #{}) at wind-down -> error", b.id));
            cx.violate("free_rejected", &format!("{}.deallocate", tn), format!("free of live block #{} failed: {}", b.id, e));
            break;
        }
        if !sh.verify(cx, "a wind-down free") {
            break;
        }
    }
    if cx.failed() {
        sh.abandon();
        return;
    }
    sh.abandon(); // only non-freeable handles (bump) are left; they own nothing
    ga::reset(true);
    pc(|| t.before_drop());
    if ga::FREED_LIVE.load(Relaxed) != 0 {
        // (blocks the housekeeping itself held while it dropped the pool handle)
        ev(cx, "drop(the pool handle) while the harness held blocks it had just obtained from the pool");
        cx.violate("freed_while_live", &format!("{}.backing_memory", tn), format!("the pool released a {}-byte heap region while a live block lies inside it (at +{})", ga::FREED_LEN.load(Relaxed), ga::FREED_OFF.load(Relaxed)));
        return;
    }
    pc(|| drop(std::mem::ManuallyDrop::into_inner(t)));
}

/// choose `n` values out of `all` with the cfg channel (small per-run alphabets)
fn choose(cfg: &zsim_core::Chan, all: &[usize], n: usize) -> Vec<usize> {
    let mut v = vec![];
    for _ in 0..n {
        v.push(*cfg.pick(all));
    }
    v
}

/// Run one history.
/// `thread`: on a fresh OS thread (clean `thread_local!` state for the pools that keep
/// process-wide thread-local statics which cannot be reset through their API).
/// `canary`: the history is first executed in a forked copy of this (single-threaded) process;
/// if the copy is killed by a signal, that is the run's verdict (`crash:<signal>`), with the
/// events the copy streamed back; otherwise the history runs here as usual.  This keeps a
/// pool that corrupts itself from killing the worker (and lets such runs be shrunk).
/// A panic is converted into the same (class, site) the driver would have produced, after
/// the event naming the call that panicked.
fn run_in(cx: &mut Run, thread: bool, keep_table: bool, canary: bool, f: impl FnOnce(&mut Run) + Send) {
    fn body(cx: &mut Run, keep_table: bool, f: impl FnOnce(&mut Run)) -> Option<zsim_core::Violation> {
        ga::reset(keep_table);
        let j = cx.src.chan("cfg").below(8) as usize;
        ga::SKEW_J.store(j, Relaxed);
        pending("");
        let r = catch_unwind(AssertUnwindSafe(|| f(&mut *cx)));
        ga::reset(true);
        match r {
            Ok(()) => None,
            Err(p) => {
                let op = PENDING.lock().map(|g| g.clone()).unwrap_or_default();
                if !op.is_empty() {
                    ev(cx, format!("{} -> panicked", op));
                }
                zsim_core::e1::panic_violation(&p)
            }
        }
    }
    if canary && !thread {
        let mut fds = [0i32; 2];
        if unsafe { libc::pipe(fds.as_mut_ptr()) } == 0 {
            let pid = unsafe { libc::fork() };
            if pid == 0 {
                unsafe { libc::close(fds[0]) };
                EV_FD.store(fds[1], Relaxed);
                let _ = body(&mut *cx, keep_table, f);
                unsafe { libc::_exit(0) };
            }
            unsafe { libc::close(fds[1]) };
            if pid > 0 {
                let mut out: Vec<u8> = vec![];
                let mut buf = [0u8; 4096];
                loop {
                    let n = unsafe { libc::read(fds[0], buf.as_mut_ptr() as *mut libc::c_void, buf.len()) };
                    if n > 0 {
                        out.extend_from_slice(&buf[..n as usize]);
                    } else if n == 0 || std::io::Error::last_os_error().kind() != std::io::ErrorKind::Interrupted {
                        break;
                    }
                }
                unsafe { libc::close(fds[0]) };
                let mut st = 0i32;
                while unsafe { libc::waitpid(pid, &mut st, 0) } < 0 && std::io::Error::last_os_error().kind() == std::io::ErrorKind::Interrupted {}
                if libc::WIFSIGNALED(st) {
                    let sig = libc::WTERMSIG(st);
                    let name = match sig {
                        libc::SIGSEGV => "SIGSEGV".to_string(),
                        libc::SIGABRT => "SIGABRT".to_string(),
                        libc::SIGBUS => "SIGBUS".to_string(),
                        libc::SIGILL => "SIGILL".to_string(),
                        x => format!("SIG{}", x),
                    };
                    // consume the draws of the whole planned history (no pool calls), so that the
                    // recorded tapes replay this run
                    DRY.store(true, Relaxed);
                    let _ = body(&mut *cx, keep_table, f);
                    DRY.store(false, Relaxed);
                    let mut n = 0;
                    let mut died_in = String::new();
                    let text = String::from_utf8_lossy(&out).into_owned();
                    let lines: Vec<&str> = text.lines().collect();
                    for (i, line) in lines.iter().enumerate() {
                        // '\x01<op>' marks the start of a pool call ('\x01' alone: it returned)
                        if let Some(op) = line.strip_prefix('\u{1}') {
                            if i + 1 == lines.len() && !op.is_empty() {
                                cx.ev(format!("{} -> the process died inside this call", op));
                                died_in = format!("; the call in progress was {}", op);
                                n += 1;
                            }
                            continue;
                        }
                        cx.ev(line);
                        n += 1;
                    }
                    cx.steps = n;
                    cx.violate(&format!("crash:{}", name), "process", format!("a forked copy of the process executing this history was killed by {} after the events above{}", name, if died_in.is_empty() { " (the pool call in progress is the last one not listed)".to_string() } else { died_in }));
                    return;
                }
            } else {
                unsafe { libc::close(fds[0]) };
            }
        }
    }
    let res = if thread {
        std::thread::scope(|s| std::thread::Builder::new().stack_size(256 * 1024).spawn_scoped(s, || body(&mut *cx, keep_table, f)).expect("spawn").join())
    } else {
        Ok(body(&mut *cx, keep_table, f))
    };
    match res {
        Ok(Some(v)) => cx.violate(&v.class, &v.site, v.detail),
        Ok(None) => {}
        Err(_) => cx.violate("panic", "<thread>", "run thread died outside catch_unwind"),
    }
}

// -----------------------------------------------------------------------------------------
// targets

// ---- LockFreeMemoryPool
use zipora::memory::lockfree_pool::{BackoffStrategy, LockFreeAllocation, LockFreeMemoryPool, LockFreePoolConfig};

struct TLockFree {
    pool: Arc<LockFreeMemoryPool>,
    memory_size: usize,
    zero: bool,
    foreign: Box<[u64; 16]>,
    small_sizes: Vec<usize>,
    foreign_large: bool,
    /// free through the RAII wrapper `LockFreeAllocation` (its Drop swallows the result)
    raii: bool,
    /// [start, start+len) of the pool's backing region, learnt from the first block it issued
    region: Option<(usize, usize)>,
    bulk_sizes: Vec<usize>,
}

impl Target for TLockFree {
    type H = NonNull<u8>;
    fn t(&self) -> &'static str {
        "LockFreeMemoryPool"
    }
    fn alloc(&mut self, size: usize, _align: usize) -> Result<Got<NonNull<u8>>, String> {
        let p = self.pool.allocate(size).map_err(|e| e.to_string())?;
        if self.region.is_none() {
            self.region = ga::region_of(p.as_ptr() as usize, 1);
        }
        Ok(Got { h: p, addr: p.as_ptr() as usize, usable: size, mem: Mem::Ptr { contain: true }, align: 8 })
    }
    fn free(&mut self, h: NonNull<u8>, size: usize) -> Result<(), String> {
        if self.raii {
            drop(LockFreeAllocation::new(h, size, self.pool.clone()));
            Ok(())
        } else if self.zero {
            self.pool.deallocate_with_zero(h, size).map_err(|e| e.to_string())
        } else {
            self.pool.deallocate(h, size).map_err(|e| e.to_string())
        }
    }
    fn must_refuse(&self, size: usize, _a: usize, _l: usize) -> Option<String> {
        if size > self.memory_size {
            Some(format!("the pool's whole backing region is {} bytes", self.memory_size))
        } else {
            None
        }
    }
    fn extra(&mut self, cx: &mut Run, sh: &mut Shadow<NonNull<u8>>, o: [u64; 4]) -> bool {
        let variant = o[3] % 8;
        if variant >= 6 {
            // allocate_bulk_simd: every block it returns is an allocation like any other
            let room = 8usize.saturating_sub(sh.blocks.len());
            let n = (1 + (o[1] % 3) as usize).min(room);
            if n == 0 {
                return false;
            }
            let sizes: Vec<usize> = (0..n).map(|i| self.bulk_sizes[((o[2] >> (8 * i)) as usize) % self.bulk_sizes.len()]).collect();
            let name = format!("allocate_bulk_simd({:?})", sizes);
            pending(&name);
            let r = pc(|| self.pool.allocate_bulk_simd(&sizes));
            pending("");
            match r {
                Ok(v) => {
                    cx.probe("bulk_allocation");
                    if v.len() != sizes.len() {
                        ev(cx, format!("{} -> {} blocks", name, v.len()));
                        cx.violate("too_small", "LockFreeMemoryPool.allocate_bulk_simd", format!("{} returned {} blocks", name, v.len()));
                        return true;
                    }
                    for (i, p) in v.into_iter().enumerate() {
                        if self.region.is_none() {
                            self.region = ga::region_of(p.as_ptr() as usize, 1);
                        }
                        if sizes[i] > self.memory_size {
                            ev(cx, format!("{} -> ok", name));
                            cx.violate("accepted_beyond_capacity", "LockFreeMemoryPool.allocate", format!("{} succeeded although the pool's whole backing region is {} bytes", name, self.memory_size));
                            return true;
                        }
                        if sh.admit(cx, p, p.as_ptr() as usize, sizes[i], 8, Mem::Ptr { contain: true }, &format!("{}[{}]", name, i)).is_none() {
                            return true;
                        }
                    }
                }
                Err(e) => ev(cx, format!("{} -> refused ({})", name, e.to_string().chars().take(60).collect::<String>())),
            }
            return true;
        }
        // a pointer the pool never issued
        let size = if self.foreign_large && o[1] % 2 == 0 { 9000 } else { self.small_sizes[(o[2] as usize) % self.small_sizes.len()].max(1) };
        let large = size > 8192;
        let (p, what) = match (variant, self.region) {
            // just outside the pool's own backing region: the boundary cases of a range check.
            // Both addresses lie inside the harness allocator's slack around the region, never
            // inside memory handed to anybody.
            (4, Some((start, len))) => (NonNull::new((start + len) as *mut u8).unwrap(), "<the first byte after the pool's backing region>"),
            (5, Some((start, _))) => (NonNull::new((start - 16) as *mut u8).unwrap(), "<16 bytes before the pool's backing region>"),
            // (it points into a buffer owned by the harness)
            _ => (NonNull::new(self.foreign.as_mut_ptr() as *mut u8).unwrap(), "<pointer never issued by this pool>"),
        };
        if variant == 4 || variant == 5 {
            if self.region.is_some() {
                cx.probe("foreign_pointer_adjacent_to_region");
            }
        }
        let r = pc(|| self.pool.deallocate(p, size));
        cx.fault("foreign_pointer_free");
        ev(cx, format!("deallocate({}, {}) -> {}", what, size, if r.is_ok() { "ok" } else { "error" }));
        cx.cell(format!("LockFreeMemoryPool/foreign_free/{}", if r.is_ok() { "ok" } else { "err" }));
        if r.is_ok() {
            let site = if large { "LockFreeMemoryPool.deallocate(large)" } else { "LockFreeMemoryPool.deallocate" };
            cx.violate("foreign_free_accepted", site, format!("deallocate of a pointer outside the pool's memory ({}) with size {} returned Ok", what, size));
        }
        true
    }
}

const LF_SIZES: &[usize] = &[
    1, 7, 8, 9, 16, 24, 100, 120, 121, 128, 129, 136, 137, 144, 145, 160, 250, 256, 257, 280, 288, 500, 512, 513, 570, 576, 1000, 1024, 1025, 1100, 1152, 4000, 4096, 4097, 4600, 8185, 8192, 8193,
];

struct LockFreeSc {
    huge: bool,
}

impl Scenario for LockFreeSc {
    fn name(&self) -> String {
        format!("LockFreeMemoryPool/{}", if self.huge { "huge_requests" } else { "bins" })
    }
    fn budget(&self, tier: Tier) -> u64 {
        // huge_requests: a corrupted pool occasionally kills the worker (reported as crash:*);
        // the budget keeps those deaths far below the driver's restart limit
        match (tier, self.huge) {
            (Tier::Quick, false) => 16_000,
            (Tier::Thorough, false) => 1_000_000,
            (Tier::Quick, true) => 4_000,
            (Tier::Thorough, true) => 120_000,
        }
    }
    fn run(&self, cx: &mut Run) {
        let huge = self.huge;
        run_in(cx, false, false, true, move |cx| {
            let cfg = cx.src.chan("cfg");
            let mut memory_size = *cfg.pick(&[64usize, 136, 256, 520, 1024, 4096, 20000]);
            let zero = cfg.chance(1, 3);
            let cache_al = cfg.chance(1, 3);
            let mut config = LockFreePoolConfig {
                memory_size,
                enable_stats: !cfg.chance(1, 4),
                max_cas_retries: 100,
                backoff_strategy: BackoffStrategy::None,
                enable_cache_alignment: cache_al,
                cache_config: if cache_al { Some(zipora::memory::CacheLayoutConfig::new()) } else { None },
                enable_numa_awareness: false,
                enable_huge_pages: false,
                huge_page_threshold: 2 << 20,
                enable_simd_optimization: cfg.chance(1, 2),
                zero_on_free: zero,
            };
            // the library's own presets (16-256 MiB regions, never touched beyond the blocks issued)
            let preset = if huge { 0 } else { cfg.biased_zero(4, 1, 12) };
            if preset != 0 {
                config = match preset {
                    1 => LockFreePoolConfig::default(),
                    2 => LockFreePoolConfig::compact(),
                    _ => LockFreePoolConfig::high_performance(),
                };
                config.zero_on_free = zero;
                // cache-layout detection executes CPUID (slow under virtualisation) and has no effect on the memory handed out
                config.enable_cache_alignment = false;
                config.cache_config = None;
                memory_size = config.memory_size;
                cx.probe("library_preset_config");
            }
            let (sizes, small_sizes) = if huge {
                // sizes <= 128 round to an exact bin, so the bin-rounding defect cannot fire here
                let small = choose(&cfg, &[1, 8, 9, 16, 64, 100, 128], 3);
                let mut s = small.clone();
                s.extend(choose(&cfg, &[1 << 20, 1 << 31, (1usize << 32) - 16, (1usize << 32) - 8, 1usize << 32, (1usize << 32) + 8, 3usize << 30, (1usize << 33) - 8], 2));
                (s, small)
            } else {
                let mut s = choose(&cfg, LF_SIZES, 4);
                s.push(8);
                if cfg.chance(1, 4) {
                    s.push(memory_size + 1);
                }
                (s.clone(), s)
            };
            let raii = cfg.chance(1, 4);
            ev(cx, format!("LockFreeMemoryPool::new(memory_size={}, zero_on_free={}, cache_alignment={}, preset={}) sizes={:?}{}", memory_size, zero, cache_al, preset, sizes, if raii { " free through LockFreeAllocation" } else { "" }));
            let pool = match pc(|| LockFreeMemoryPool::new(config)) {
                Ok(p) => Arc::new(p),
                Err(e) => {
                    ev(cx, format!("new -> error {}", e));
                    return;
                }
            };
            let foreign_large = cfg.chance(1, 10);
            let bulk_sizes: Vec<usize> = sizes.iter().copied().filter(|&s| s <= 1 << 20).chain([8]).collect();
            let t = TLockFree { pool, memory_size, zero, foreign: Box::new([0u64; 16]), small_sizes: small_sizes.into_iter().filter(|&s| s <= 8192).chain([8]).collect(), foreign_large, raii, region: None, bulk_sizes };
            let p = Params { sizes, aligns: vec![1], max_live: 8, w_alloc: 55, w_free: 35, min_ops: 4, max_ops: 40, full: false, drop_pool_first: false };
            history(cx, t, &p);
        });
    }
}

// ---- SecureMemoryPool
use zipora::memory::secure_pool::{SecureMemoryPool, SecurePoolConfig, SecurePooledPtr};

struct TSecure {
    /// None after `release_handle` (the live blocks then hold the only, weak, references)
    pool: Option<Arc<SecureMemoryPool>>,
    chunk: usize,
    align: usize,
    /// chunks the pool should be holding for reuse
    free_model: u64,
    pend: Option<(String, String, String)>,
    /// `clear()` in the middle of the history: 0 = never, 1 = only while no block is live, 2 = at any time
    allow_clear: u8,
    /// clear() was called while blocks were live: what their frees do afterwards is booked on its own site
    cleared_with_live: bool,
    max_live: usize,
    /// see `before_drop`
    drain: bool,
}

impl TSecure {
    fn dealloc_site(&self) -> String {
        if self.cleared_with_live { "SecureMemoryPool.deallocate(after clear() with live blocks)".into() } else { "SecureMemoryPool.deallocate".into() }
    }
    /// bookkeeping common to every way of obtaining one chunk; `before`/`after` = pool_misses around the call
    fn took_one(&mut self, before: u64, after: u64) {
        if self.free_model > 0 {
            self.free_model -= 1;
            if after != before {
                self.pend = Some((
                    "freed_block_not_reused".into(),
                    self.dealloc_site(),
                    format!("{} freed chunk(s) should be available for reuse, yet allocate() had to obtain a new chunk (pool_misses {} -> {})", self.free_model + 1, before, after),
                ));
            }
        }
    }
}

impl Target for TSecure {
    type H = SecurePooledPtr;
    fn t(&self) -> &'static str {
        "SecureMemoryPool"
    }
    fn alloc(&mut self, _size: usize, _align: usize) -> Result<Got<SecurePooledPtr>, String> {
        let pool = self.pool.clone().ok_or("no pool handle")?;
        let before = pool.stats().pool_misses;
        let p = pool.allocate().map_err(|e| e.to_string())?;
        let after = pool.stats().pool_misses;
        self.took_one(before, after);
        let addr = p.as_ptr() as usize;
        let usable = p.size();
        Ok(Got { h: p, addr, usable, mem: Mem::Ptr { contain: true }, align: self.align })
    }
    fn free(&mut self, h: SecurePooledPtr, _size: usize) -> Result<(), String> {
        // SecurePooledPtr::drop swallows the pool's verdict; the pool's counters are the only witness
        let before = self.pool.as_ref().map(|p| {
            let s = p.stats();
            (s.double_free_detected, s.corruption_detected)
        });
        drop(h);
        if let (Some(b), Some(p)) = (before, self.pool.as_ref()) {
            let s = p.stats();
            if (s.double_free_detected, s.corruption_detected) != b && self.pend.is_none() {
                self.pend = Some((
                    "free_rejected".into(),
                    self.dealloc_site(),
                    format!("the free of a live block issued by this pool was rejected and the chunk dropped: double_free_detected {} -> {}, corruption_detected {} -> {}", b.0, s.double_free_detected, b.1, s.corruption_detected),
                ));
            }
        }
        self.free_model += 1;
        Ok(())
    }
    fn pending(&mut self) -> Option<(String, String, String)> {
        self.pend.take()
    }
    fn alloc_name(&self, _s: usize, _a: usize) -> String {
        format!("allocate() [chunk_size {}]", self.chunk)
    }
    fn release_handle(&mut self) -> bool {
        // the freed chunks go with the pool; live ones are released by their guards without it
        self.pool.take().is_some()
    }
    fn before_drop(&mut self) {
        // Dropping a SecureMemoryPool leaks the chunks in its thread-local cache (SecureChunk has no
        // Drop).  With the 64 KiB / 1 MiB chunks of the presets that is gigabytes per worker over a
        // thorough run, so the harness takes every cached chunk out again, drops the pool and lets
        // the guards release the chunks themselves.  One small-chunk pool in four is still
        // dropped with its caches filled.
        if self.chunk < 16 * 1024 && !self.drain {
            return;
        }
        if let Some(pool) = self.pool.take() {
            let mut held = vec![];
            for _ in 0..80 {
                let before = pool.stats().pool_misses;
                match pool.allocate() {
                    Ok(p) => {
                        held.push(p);
                        if pool.stats().pool_misses != before {
                            break;
                        }
                    }
                    Err(_) => break,
                }
            }
            // the held chunks are live blocks like any other while the pool goes away
            let slots: Vec<usize> = held.iter().map(|p| ga::live_add(p.as_ptr() as usize, p.as_ptr() as usize + p.size().max(1))).collect();
            drop(pool);
            if ga::FREED_LIVE.load(Relaxed) != 0 {
                // reported by `history`; nothing is handed back to a pool in an unknown state
                std::mem::forget(held);
                return;
            }
            slots.into_iter().for_each(ga::live_del);
            drop(held);
        }
    }
    fn extra(&mut self, cx: &mut Run, sh: &mut Shadow<SecurePooledPtr>, o: [u64; 4]) -> bool {
        let Some(pool) = self.pool.clone() else { return false };
        let room = self.max_live.saturating_sub(sh.blocks.len());
        let site = "SecureMemoryPool.allocate";
        match o[1] % 4 {
            0 if self.allow_clear == 2 || (self.allow_clear == 1 && sh.blocks.is_empty()) => {
                // clear(): releases the chunks the pool holds for reuse; live blocks are not its business
                pending("clear()");
                let r = pc(|| pool.clear());
                pending("");
                ev(cx, format!("clear() -> {} with {} block(s) live", if r.is_ok() { "ok" } else { "error" }, sh.blocks.len()));
                cx.probe("clear_midway");
                if !sh.blocks.is_empty() {
                    cx.probe("clear_with_live_blocks");
                    self.cleared_with_live = true;
                }
                // nothing is demanded about chunks freed before the clear
                self.free_model = 0;
                true
            }
            1 | 2 if room > 0 => {
                // allocate_bulk_with_prefetch; `bad` puts one size the pool must refuse at position j
                let n = (1 + (o[2] % 3) as usize).min(room);
                let bad = (o[3] % 5 == 0).then(|| ((o[3] / 5) as usize) % n);
                let sizes: Vec<usize> = (0..n).map(|i| if Some(i) == bad { self.chunk + 8 } else { self.chunk }).collect();
                let name = format!("allocate_bulk_with_prefetch({:?})", sizes);
                pending(&name);
                let before = pool.stats().pool_misses;
                let r = pc(|| pool.allocate_bulk_with_prefetch(&sizes));
                let after = pool.stats().pool_misses;
                pending("");
                match r {
                    Ok(v) => {
                        cx.probe("bulk_allocation");
                        if bad.is_some() || v.len() != n {
                            ev(cx, format!("{} -> ok, {} blocks", name, v.len()));
                            cx.violate("too_small", site, format!("{} returned {} blocks of {} bytes", name, v.len(), self.chunk));
                            std::mem::forget(v);
                            return true;
                        }
                        // of the n chunks, min(n, free_model) had to come from the freed ones
                        let reuse = (n as u64).min(self.free_model);
                        self.free_model -= reuse;
                        if after - before > n as u64 - reuse {
                            self.pend = Some(("freed_block_not_reused".into(), self.dealloc_site(), format!("{} freed chunk(s) should have been reused by {}, yet pool_misses went {} -> {}", reuse, name, before, after)));
                        }
                        let mut rest = v.into_iter().enumerate();
                        while let Some((i, h)) = rest.next() {
                            let (addr, usable) = (h.as_ptr() as usize, h.size());
                            if usable < self.chunk {
                                cx.violate("too_small", site, format!("{}[{}] is a block of {} bytes", name, i, usable));
                                std::mem::forget(h);
                            } else if sh.admit(cx, h, addr, self.chunk, self.align, Mem::Ptr { contain: true }, &format!("{}[{}]", name, i)).is_some() {
                                continue;
                            }
                            rest.for_each(|(_, h)| std::mem::forget(h));
                            return true;
                        }
                    }
                    Err(e) => {
                        ev(cx, format!("{} -> refused ({})", name, e.to_string().chars().take(60).collect::<String>()));
                        // the chunks taken before the refusal were released again inside the call
                        if let Some(j) = bad {
                            self.free_model = self.free_model.max(j as u64);
                            cx.fault("request_beyond_capacity_refused");
                        }
                    }
                }
                true
            }
            _ if room > 0 => {
                let hot = o[2] % 2 == 0;
                let name = format!("allocate_with_hint({}) [chunk_size {}]", hot, self.chunk);
                pending(&name);
                let before = pool.stats().pool_misses;
                let r = pc(|| pool.allocate_with_hint(hot));
                let after = pool.stats().pool_misses;
                pending("");
                match r {
                    Ok(h) => {
                        self.took_one(before, after);
                        let (addr, usable) = (h.as_ptr() as usize, h.size());
                        if usable < self.chunk {
                            cx.violate("too_small", site, format!("{} returned a block of {} bytes", name, usable));
                            std::mem::forget(h);
                        } else {
                            sh.admit(cx, h, addr, self.chunk, self.align, Mem::Ptr { contain: true }, &name);
                        }
                    }
                    Err(e) => ev(cx, format!("{} -> refused ({})", name, e.to_string().chars().take(60).collect::<String>())),
                }
                true
            }
            _ => false,
        }
    }
}

struct SecureSc {
    aligned: bool,
    /// chunk sizes that are not a multiple of 8 (tiny budget: see the scenario's note)
    odd: bool,
    /// `clear()` is called in the middle of histories (own scenario: what it finds must not hide the rest)
    clear: bool,
}

impl Scenario for SecureSc {
    fn name(&self) -> String {
        if self.odd {
            return "SecureMemoryPool/chunk_size_not_multiple_of_8".into();
        }
        if self.clear {
            return "SecureMemoryPool/clear_midway".into();
        }
        format!("SecureMemoryPool/{}", if self.aligned { "alignment16+" } else { "alignment8" })
    }
    fn budget(&self, tier: Tier) -> u64 {
        match (tier, self.odd) {
            (_, true) => 16,
            (Tier::Quick, _) if self.clear => 4_000,
            (Tier::Thorough, _) if self.clear => 200_000,
            (Tier::Quick, _) => 10_000,
            (Tier::Thorough, _) => 600_000,
        }
    }
    fn run(&self, cx: &mut Run) {
        let odd = self.odd;
        let clear = self.clear;
        let aligned_sc = self.aligned;
        run_in(cx, false, false, odd, move |cx| {
            let cfg = cx.src.chan("cfg");
            let aligned = if clear { cfg.chance(1, 3) } else { aligned_sc };
            let preset = if odd { 0 } else { cfg.biased_zero(3, 1, 8) };
            let mut config = if preset == 1 {
                if aligned { SecurePoolConfig::medium_secure() } else { SecurePoolConfig::small_secure() }
            } else if preset == 2 && aligned {
                SecurePoolConfig::large_secure()
            } else {
                let chunk = if odd { *cfg.pick(&[100usize, 12, 1001, 30]) } else { *cfg.pick(&[8usize, 16, 24, 64, 104, 256, 1024]) };
                let align = if aligned { *cfg.pick(&[16usize, 32, 64]) } else { 8 };
                SecurePoolConfig::new(chunk, 100, align)
                    .with_local_cache_size(*cfg.pick(&[1usize, 2, 3, 2, 64, 1, 0]))
                    .with_zero_on_free(!cfg.chance(1, 3))
                    .with_zero_on_alloc(cfg.chance(1, 3))
                    .with_simd_ops(!cfg.chance(1, 3))
                    .with_simd_threshold(*cfg.pick(&[64usize, 16, 0]))
                    .with_guard_pages(cfg.chance(1, 4))
            };
            // cache-layout detection executes CPUID (slow under virtualisation); it has no
            // effect on which memory is handed out
            if !cfg.chance(1, 8) {
                config = config.with_cache_alignment(false).with_cache_config(None).with_hot_cold_separation(false);
            }
            config = config.with_huge_pages(false).with_numa_awareness(false);
            let (chunk, align, lc) = (config.chunk_size, config.alignment, config.local_cache_size);
            ev(cx, format!("SecureMemoryPool::new(chunk_size={}, alignment={}, local_cache_size={}, zero_on_free={}, zero_on_alloc={})", chunk, align, lc, config.zero_on_free, config.zero_on_alloc));
            if lc <= 2 {
                cx.probe("local_cache_size<=2");
            }
            let pool = match pc(|| SecureMemoryPool::new(config)) {
                Ok(p) => p,
                Err(e) => {
                    ev(cx, format!("new -> error {}", e));
                    return;
                }
            };
            let allow_clear = if !clear { 0 } else if cfg.chance(1, 3) { 2 } else { 1 };
            if allow_clear == 2 {
                ev(cx, "clear() also while blocks are live");
            }
            let t = TSecure { pool: Some(pool), chunk, align, free_model: 0, pend: None, allow_clear, cleared_with_live: false, max_live: 6, drain: !cfg.chance(1, 4) };
            let p = Params { sizes: vec![chunk], aligns: vec![1], max_live: 6, w_alloc: 48, w_free: 42, min_ops: 4, max_ops: 30, full: false, drop_pool_first: cfg.chance(1, 4) };
            history(cx, t, &p);
        });
    }
}

// ---- ThreadLocalMemoryPool
use zipora::memory::threadlocal_pool::{ThreadLocalAllocation, ThreadLocalMemoryPool, ThreadLocalPoolConfig};

struct TTls {
    pool: Arc<ThreadLocalMemoryPool>,
}

/// CURRENT_CACHE is one thread_local! static for all pools; clear_caches() is its documented reset
impl Drop for TTls {
    fn drop(&mut self) {
        self.pool.clear_caches();
    }
}

impl Target for TTls {
    type H = ThreadLocalAllocation;
    fn t(&self) -> &'static str {
        "ThreadLocalMemoryPool"
    }
    fn alloc(&mut self, size: usize, _a: usize) -> Result<Got<ThreadLocalAllocation>, String> {
        let a = self.pool.allocate(size).map_err(|e| e.to_string())?;
        let addr = a.as_ptr() as usize;
        let usable = a.size();
        Ok(Got { h: a, addr, usable, mem: Mem::Ptr { contain: true }, align: 1 })
    }
    fn free(&mut self, h: ThreadLocalAllocation, _s: usize) -> Result<(), String> {
        drop(h);
        Ok(())
    }
}

const TLS_CLASSES: &[usize] = &[16, 32, 48, 64, 96, 128, 192, 256, 384, 512, 768, 1024, 1536, 2048, 3072, 4096];

struct TlsSc {
    class_sizes: bool,
}

impl Scenario for TlsSc {
    fn name(&self) -> String {
        format!("ThreadLocalMemoryPool/{}", if self.class_sizes { "class_sizes" } else { "mixed_sizes" })
    }
    fn budget(&self, tier: Tier) -> u64 {
        match tier {
            Tier::Quick => 12_000,
            Tier::Thorough => 800_000,
        }
    }
    fn run(&self, cx: &mut Run) {
        let class_sizes = self.class_sizes;
        run_in(cx, false, false, false, move |cx| {
            let cfg = cx.src.chan("cfg");
            let preset = cfg.biased_zero(4, 1, 10);
            let mut config = match preset {
                1 => ThreadLocalPoolConfig::compact(),
                2 => ThreadLocalPoolConfig::default(),
                3 => ThreadLocalPoolConfig::high_performance(),
                _ => ThreadLocalPoolConfig {
                    arena_size: *cfg.pick(&[64usize, 256, 1024, 4096, 32768]),
                    max_threads: 4,
                    enable_stats: !cfg.chance(1, 4),
                    sync_threshold: *cfg.pick(&[64isize, 1024, 256 * 1024]),
                    max_cached_chunks: *cfg.pick(&[64usize, 2, 1]),
                    use_secure_memory: cfg.chance(1, 4),
                },
            };
            if preset != 0 {
                // the SecureMemoryPool created for `use_secure_memory` is never used for memory; skip its CPUID cost
                config.use_secure_memory = cfg.chance(1, 8);
            }
            let arena = config.arena_size;
            let quarter = arena / 4;
            let sizes: Vec<usize> = if class_sizes {
                let mut all: Vec<usize> = TLS_CLASSES.iter().copied().filter(|&s| s <= quarter).collect();
                if preset != 0 {
                    all.extend([quarter, quarter / 2, quarter / 4]);
                }
                if all.is_empty() {
                    all.push(16.min(quarter.max(1)));
                }
                choose(&cfg, &all, 3)
            } else {
                let mut all: Vec<usize> = [1usize, 8, 15, 16, 17, 24, 31, 32, 33, 40, 48, 49, 64, 65, 96, 100, 128, 200, 256, 1000, 4096, 4097, 5000].iter().copied().filter(|&s| s <= quarter).collect();
                if preset != 0 {
                    all.extend([quarter, quarter - 1, quarter / 2 + 1]);
                }
                if all.is_empty() {
                    all.push(quarter.max(1));
                }
                let mut s = choose(&cfg, &all, 4);
                if cfg.chance(1, 4) {
                    s.push(quarter + 1); // documented to be served by the global pool
                }
                if cfg.chance(1, 8) {
                    s.push(0);
                }
                s
            };
            ev(cx, format!("ThreadLocalMemoryPool::new(arena_size={}, max_cached_chunks={}, use_secure_memory={}) sizes={:?}", arena, config.max_cached_chunks, config.use_secure_memory, sizes));
            let pool = match pc(|| ThreadLocalMemoryPool::new(config)) {
                Ok(p) => p,
                Err(e) => {
                    ev(cx, format!("new -> error {}", e));
                    return;
                }
            };
            // whatever an earlier (abandoned) run on this thread left in the thread-local cache goes first
            pc(|| pool.clear_caches());
            let t = TTls { pool };
            let p = Params { sizes, aligns: vec![1], max_live: 8, w_alloc: 60, w_free: 40, min_ops: 4, max_ops: 40, full: false, drop_pool_first: false };
            history(cx, t, &p);
        });
    }
}

/// Two pools with different configurations used from one thread (they share the one
/// `thread_local!` cache), and `clear_caches()` in the middle of the history.
/// The `align` argument of `alloc` selects the pool.
struct TTls2 {
    pools: Vec<Arc<ThreadLocalMemoryPool>>,
    /// call clear_caches() also while blocks are live
    with_live: bool,
}

impl Drop for TTls2 {
    fn drop(&mut self) {
        self.pools[0].clear_caches();
    }
}

impl Target for TTls2 {
    type H = ThreadLocalAllocation;
    fn t(&self) -> &'static str {
        "ThreadLocalMemoryPool"
    }
    fn alloc(&mut self, size: usize, which: usize) -> Result<Got<ThreadLocalAllocation>, String> {
        let a = self.pools[which % self.pools.len()].allocate(size).map_err(|e| e.to_string())?;
        let addr = a.as_ptr() as usize;
        let usable = a.size();
        Ok(Got { h: a, addr, usable, mem: Mem::Ptr { contain: true }, align: 1 })
    }
    fn free(&mut self, h: ThreadLocalAllocation, _s: usize) -> Result<(), String> {
        drop(h);
        Ok(())
    }
    fn alloc_name(&self, size: usize, which: usize) -> String {
        format!("pool{}.allocate({})", which % self.pools.len(), size)
    }
    fn extra(&mut self, cx: &mut Run, sh: &mut Shadow<ThreadLocalAllocation>, o: [u64; 4]) -> bool {
        if !sh.blocks.is_empty() && !self.with_live {
            return false;
        }
        let which = (o[1] as usize) % self.pools.len();
        pending("clear_caches()");
        pc(|| self.pools[which].clear_caches());
        pending("");
        ev(cx, format!("pool{}.clear_caches() with {} block(s) live", which, sh.blocks.len()));
        cx.probe("clear_caches_midway");
        if !sh.blocks.is_empty() {
            cx.probe("clear_caches_with_live_blocks");
        }
        true
    }
}

struct Tls2Sc {
    with_live: bool,
}

impl Scenario for Tls2Sc {
    fn name(&self) -> String {
        format!("ThreadLocalMemoryPool/{}", if self.with_live { "clear_caches_with_live_blocks" } else { "two_pools" })
    }
    fn budget(&self, tier: Tier) -> u64 {
        match (tier, self.with_live) {
            (Tier::Quick, false) => 8_000,
            (Tier::Thorough, false) => 500_000,
            (Tier::Quick, true) => 1_500,
            (Tier::Thorough, true) => 60_000,
        }
    }
    fn run(&self, cx: &mut Run) {
        let with_live = self.with_live;
        run_in(cx, false, false, false, move |cx| {
            let cfg = cx.src.chan("cfg");
            let n = if with_live && cfg.chance(1, 2) { 1 } else { 2 };
            let mut configs = vec![];
            for _ in 0..n {
                configs.push(ThreadLocalPoolConfig {
                    arena_size: *cfg.pick(&[64usize, 256, 1024, 4096]),
                    max_threads: 4,
                    enable_stats: !cfg.chance(1, 4),
                    sync_threshold: *cfg.pick(&[64isize, 1024, 256 * 1024]),
                    max_cached_chunks: *cfg.pick(&[64usize, 2, 1, 0]),
                    use_secure_memory: false,
                });
            }
            let quarter = configs.iter().map(|c| c.arena_size / 4).max().unwrap();
            let all: Vec<usize> = [1usize, 8, 16, 17, 32, 33, 48, 64, 65, 96, 128, 200, 256, 1000, 1024].iter().copied().filter(|&s| s <= quarter).collect();
            let sizes = choose(&cfg, &all, 3);
            ev(cx, format!(
                "{} ThreadLocalMemoryPool(s) on one thread: {} sizes={:?}",
                n,
                configs.iter().enumerate().map(|(i, c)| format!("pool{}(arena_size={}, max_cached_chunks={})", i, c.arena_size, c.max_cached_chunks)).collect::<Vec<_>>().join(" "),
                sizes
            ));
            let mut pools = vec![];
            for c in configs {
                match pc(|| ThreadLocalMemoryPool::new(c)) {
                    Ok(p) => pools.push(p),
                    Err(e) => {
                        ev(cx, format!("new -> error {}", e));
                        return;
                    }
                }
            }
            // whatever an earlier (abandoned) run on this thread left in the thread-local cache goes first
            pc(|| pools[0].clear_caches());
            let t = TTls2 { pools, with_live };
            let p = Params { sizes, aligns: (0..n).collect(), max_live: 8, w_alloc: 54, w_free: 38, min_ops: 4, max_ops: 40, full: false, drop_pool_first: false };
            history(cx, t, &p);
        });
    }
}

// ---- FixedCapacityMemoryPool
use zipora::memory::fixed_capacity_pool::{FixedCapacityAllocation, FixedCapacityMemoryPool, FixedCapacityPoolConfig};

struct TFixed {
    pool: Box<FixedCapacityMemoryPool>,
    max_block: usize,
    total: usize,
    align: usize,
}

impl Target for TFixed {
    type H = FixedCapacityAllocation;
    fn t(&self) -> &'static str {
        "FixedCapacityMemoryPool"
    }
    fn alloc(&mut self, size: usize, _a: usize) -> Result<Got<FixedCapacityAllocation>, String> {
        let a = self.pool.allocate(size).map_err(|e| e.to_string())?;
        let addr = a.as_ptr() as usize;
        let usable = a.size();
        Ok(Got { h: a, addr, usable, mem: Mem::Ptr { contain: true }, align: self.align })
    }
    fn free(&mut self, h: FixedCapacityAllocation, _s: usize) -> Result<(), String> {
        drop(h);
        Ok(())
    }
    fn must_refuse(&self, size: usize, _a: usize, live: usize) -> Option<String> {
        if size > self.max_block {
            Some(format!("max_block_size is {}", self.max_block))
        } else if live >= self.total {
            Some(format!("all {} blocks are live", self.total))
        } else {
            None
        }
    }
}

struct FixedSc {
    presets: bool,
}

impl Scenario for FixedSc {
    fn name(&self) -> String {
        format!("FixedCapacityMemoryPool/{}", if self.presets { "presets" } else { "custom" })
    }
    fn budget(&self, tier: Tier) -> u64 {
        match (tier, self.presets) {
            (Tier::Quick, false) => 16_000,
            (Tier::Thorough, false) => 1_000_000,
            (Tier::Quick, true) => 160,
            (Tier::Thorough, true) => 8_000,
        }
    }
    fn run(&self, cx: &mut Run) {
        let presets = self.presets;
        run_in(cx, false, false, false, move |cx| {
            let cfg = cx.src.chan("cfg");
            let mut config = if presets {
                match cfg.below(5) {
                    0 => FixedCapacityPoolConfig::default(),
                    1 => FixedCapacityPoolConfig::small_objects(),
                    2 => FixedCapacityPoolConfig::medium_objects(),
                    3 => FixedCapacityPoolConfig::realtime(),
                    _ => FixedCapacityPoolConfig::secure(),
                }
            } else {
                FixedCapacityPoolConfig {
                    max_block_size: *cfg.pick(&[16usize, 24, 40, 64, 104, 1000, 4096]),
                    total_blocks: *cfg.pick(&[1usize, 2, 3, 4, 8]),
                    alignment: *cfg.pick(&[8usize, 8, 16, 64]),
                    enable_stats: !cfg.chance(1, 4),
                    eager_allocation: !cfg.chance(1, 3),
                    secure_clear: cfg.chance(1, 3),
                }
            };
            if presets {
                config.eager_allocation = !cfg.chance(1, 3);
            }
            if config.alignment > config.max_block_size {
                config.alignment = 8;
            }
            let (mb, tb, al) = (config.max_block_size, config.total_blocks, config.alignment);
            let all = [1usize, 8, 9, 15, 16, 17, al, al + 1, mb / 2, mb - 1, mb, mb, mb + 1, 2 * mb];
            let sizes = choose(&cfg, &all, 4);
            ev(cx, format!("FixedCapacityMemoryPool::new(max_block_size={}, total_blocks={}, alignment={}, eager={}, secure_clear={}) sizes={:?}", mb, tb, al, config.eager_allocation, config.secure_clear, sizes));
            let pool = match pc(|| FixedCapacityMemoryPool::new(config)) {
                Ok(p) => Box::new(p),
                Err(e) => {
                    ev(cx, format!("new -> error {}", e));
                    return;
                }
            };
            let t = TFixed { pool, max_block: mb, total: tb, align: al };
            // FixedCapacityAllocation::as_mut_slice() exposes the whole size class, not the request
            let full = cfg.chance(1, 3);
            if full {
                ev(cx, "blocks are used for their whole reported size()");
            }
            let p = Params { sizes, aligns: vec![1], max_live: 10, w_alloc: 60, w_free: 40, min_ops: 4, max_ops: 40, full, drop_pool_first: false };
            history(cx, t, &p);
        });
    }
}

// ---- MemoryPool (basic) and PooledBuffer
use zipora::memory::pool::{MemoryPool, PoolConfig, PooledBuffer};

struct TBasic {
    pool: MemoryPool,
    chunk: usize,
    align: usize,
}

impl Target for TBasic {
    type H = NonNull<u8>;
    fn t(&self) -> &'static str {
        "MemoryPool"
    }
    fn alloc(&mut self, _s: usize, _a: usize) -> Result<Got<NonNull<u8>>, String> {
        let p = self.pool.allocate().map_err(|e| e.to_string())?;
        Ok(Got { h: p, addr: p.as_ptr() as usize, usable: self.chunk, mem: Mem::Ptr { contain: true }, align: self.align })
    }
    fn free(&mut self, h: NonNull<u8>, _s: usize) -> Result<(), String> {
        self.pool.deallocate(h).map_err(|e| e.to_string())
    }
    fn alloc_name(&self, _s: usize, _a: usize) -> String {
        format!("allocate() [chunk_size {}]", self.chunk)
    }
    fn extra(&mut self, cx: &mut Run, sh: &mut Shadow<NonNull<u8>>, _o: [u64; 4]) -> bool {
        // clear(): releases the chunks kept for reuse; the pool stays usable and live blocks untouched
        pending("clear()");
        let r = pc(|| self.pool.clear());
        pending("");
        ev(cx, format!("clear() -> {} with {} block(s) live", if r.is_ok() { "ok" } else { "error" }, sh.blocks.len()));
        cx.probe("clear_midway");
        true
    }
}

struct BasicSc;

impl Scenario for BasicSc {
    fn name(&self) -> String {
        "MemoryPool/custom".into()
    }
    fn budget(&self, tier: Tier) -> u64 {
        match tier {
            Tier::Quick => 8_000,
            Tier::Thorough => 400_000,
        }
    }
    fn run(&self, cx: &mut Run) {
        run_in(cx, false, false, false, move |cx| {
            let cfg = cx.src.chan("cfg");
            let config = match cfg.biased_zero(4, 1, 8) {
                1 => PoolConfig::small(),
                2 => PoolConfig::medium(),
                3 => PoolConfig::large(),
                _ => PoolConfig::new(*cfg.pick(&[8usize, 16, 100, 1024]), *cfg.pick(&[0usize, 1, 2, 3]), *cfg.pick(&[8usize, 16, 64, 1024])),
            };
            let (chunk, align) = (config.chunk_size, config.alignment);
            ev(cx, format!("MemoryPool::new(chunk_size={}, max_chunks={}, alignment={})", chunk, config.max_chunks, align));
            let pool = match pc(|| MemoryPool::new(config)) {
                Ok(p) => p,
                Err(e) => {
                    ev(cx, format!("new -> error {}", e));
                    return;
                }
            };
            let t = TBasic { pool, chunk, align };
            let p = Params { sizes: vec![chunk], aligns: vec![1], max_live: 6, w_alloc: 52, w_free: 42, min_ops: 4, max_ops: 30, full: false, drop_pool_first: false };
            history(cx, t, &p);
        });
    }
}

struct TPooledBuf;

impl Target for TPooledBuf {
    type H = PooledBuffer;
    fn t(&self) -> &'static str {
        "PooledBuffer"
    }
    fn alloc(&mut self, size: usize, _a: usize) -> Result<Got<PooledBuffer>, String> {
        let b = PooledBuffer::new(size).map_err(|e| e.to_string())?;
        let addr = b.as_slice().as_ptr() as usize;
        let usable = b.as_slice().len();
        Ok(Got { h: b, addr, usable, mem: Mem::Ptr { contain: true }, align: 1 })
    }
    fn free(&mut self, h: PooledBuffer, _s: usize) -> Result<(), String> {
        drop(h);
        Ok(())
    }
    fn alloc_name(&self, size: usize, _a: usize) -> String {
        format!("PooledBuffer::new({})", size)
    }
}

struct PooledBufSc;

impl Scenario for PooledBufSc {
    fn name(&self) -> String {
        "PooledBuffer/global_pools".into()
    }
    fn budget(&self, tier: Tier) -> u64 {
        match tier {
            Tier::Quick => 3_000,
            Tier::Thorough => 100_000,
        }
    }
    fn run(&self, cx: &mut Run) {
        // the global pools outlive a run: the table of recorded heap regions is kept, and no
        // event depends on whether a chunk came from the pool's cache or from the heap
        run_in(cx, false, true, false, move |cx| {
            let cfg = cx.src.chan("cfg");
            let all = [1usize, 100, 1024, 1025, 65536, 65537, 1 << 20, (1 << 20) + 1, 2 << 20];
            let sizes = choose(&cfg, &all, 4);
            ev(cx, format!("PooledBuffer over the global pools, sizes={:?}", sizes));
            let p = Params { sizes, aligns: vec![1], max_live: 4, w_alloc: 55, w_free: 45, min_ops: 3, max_ops: 16, full: false, drop_pool_first: false };
            history(cx, TPooledBuf, &p);
        });
    }
}

/// PooledVec<T> next to PooledBuffer over the same global pools: a vector is a block of
/// capacity() * size_of::<T>() bytes for as long as it lives.
enum PV {
    Buf(PooledBuffer),
    U8(zipora::memory::pool::PooledVec<u8>),
    U64(zipora::memory::pool::PooledVec<u64>),
    A24(zipora::memory::pool::PooledVec<[u8; 24]>),
    Big(zipora::memory::pool::PooledVec<[u8; 2000]>),
    Huge(zipora::memory::pool::PooledVec<[u8; 70_000]>),
    U128(zipora::memory::pool::PooledVec<u128>),
}

const PV_KINDS: [(&str, usize, usize); 6] = [("u8", 1, 1), ("u64", 8, 8), ("[u8; 24]", 24, 1), ("[u8; 2000]", 2000, 1), ("[u8; 70000]", 70_000, 1), ("u128", 16, 16)];

struct TPooledMix {
    kinds: Vec<usize>,
}

/// fill the vector to its capacity with elements whose bytes continue the block's pattern, check that one
/// more is refused and that the vector shows what was pushed; returns a complaint
fn pv_fill<T: Copy + PartialEq>(v: &mut zipora::memory::pool::PooledVec<T>, id: u32, make: impl Fn(&[u8]) -> T) -> Option<(&'static str, String)> {
    let es = std::mem::size_of::<T>();
    let cap = v.capacity();
    let mut bytes = vec![0u8; es];
    let elem = |i: usize, bytes: &mut Vec<u8>| {
        for (j, b) in bytes.iter_mut().enumerate() {
            *b = pat(id, i * es + j);
        }
        make(bytes)
    };
    for i in 0..cap {
        let e = elem(i, &mut bytes);
        if let Err(e) = v.push(e) {
            return Some(("free_rejected", format!("push #{} of {} (capacity) failed: {}", i, cap, e)));
        }
    }
    let e = elem(cap, &mut bytes);
    if v.push(e).is_ok() {
        return Some(("accepted_beyond_capacity", format!("push #{} succeeded on a vector of capacity {}", cap, cap)));
    }
    if v.len() != cap || v.as_slice().len() != cap {
        return Some(("content_corrupted", format!("len() = {}, as_slice().len() = {} after {} pushes", v.len(), v.as_slice().len(), cap)));
    }
    for i in [0, cap / 2, cap.saturating_sub(1)] {
        if i < cap && v.as_slice()[i] != elem(i, &mut bytes) {
            return Some(("content_corrupted", format!("element {} of {} differs from what was pushed", i, cap)));
        }
    }
    None
}

impl Target for TPooledMix {
    type H = PV;
    fn t(&self) -> &'static str {
        "PooledVec"
    }
    fn alloc(&mut self, size: usize, _a: usize) -> Result<Got<PV>, String> {
        let b = PooledBuffer::new(size).map_err(|e| e.to_string())?;
        let addr = b.as_slice().as_ptr() as usize;
        let usable = b.as_slice().len();
        Ok(Got { h: PV::Buf(b), addr, usable, mem: Mem::Ptr { contain: true }, align: 1 })
    }
    fn free(&mut self, h: PV, _s: usize) -> Result<(), String> {
        drop(h);
        Ok(())
    }
    fn alloc_name(&self, size: usize, _a: usize) -> String {
        format!("PooledBuffer::new({})", size)
    }
    fn extra(&mut self, cx: &mut Run, sh: &mut Shadow<PV>, o: [u64; 4]) -> bool {
        use zipora::memory::pool::PooledVec;
        if sh.blocks.len() >= 4 {
            return false;
        }
        let k = self.kinds[(o[1] as usize) % self.kinds.len()];
        let (tn, es, al) = PV_KINDS[k];
        let name = format!("PooledVec::<{}>::new()", tn);
        pending(&name);
        // (address, capacity) are read through as_slice() of the still empty vector
        fn mk<T>(wrap: impl FnOnce(PooledVec<T>) -> PV) -> Result<(PV, usize, usize), String> {
            let v = PooledVec::<T>::new().map_err(|e| e.to_string())?;
            let (addr, cap) = (v.as_slice().as_ptr() as usize, v.capacity());
            Ok((wrap(v), addr, cap))
        }
        let r = pc(|| match k {
            0 => mk::<u8>(PV::U8),
            1 => mk::<u64>(PV::U64),
            2 => mk::<[u8; 24]>(PV::A24),
            3 => mk::<[u8; 2000]>(PV::Big),
            4 => mk::<[u8; 70_000]>(PV::Huge),
            _ => mk::<u128>(PV::U128),
        });
        pending("");
        let (h, addr, cap) = match r {
            Ok(x) => x,
            Err(e) => {
                ev(cx, format!("{} -> refused ({})", name, e.chars().take(60).collect::<String>()));
                return true;
            }
        };
        cx.probe("pooled_vec");
        let what = format!("{} [capacity {}]", name, cap);
        let Some(id) = sh.admit(cx, h, addr, cap * es, al, Mem::Ptr { contain: true }, &what) else { return true };
        let fill = format!("fill PooledVec #{} to its capacity", id);
        pending(&fill);
        let b = sh.blocks.last_mut().unwrap();
        let bad = pc(|| match &mut *b.h {
            PV::U8(v) => pv_fill(v, id, |x| x[0]),
            PV::U64(v) => pv_fill(v, id, |x| u64::from_ne_bytes(x.try_into().unwrap())),
            PV::A24(v) => pv_fill(v, id, |x| x.try_into().unwrap()),
            PV::Big(v) => pv_fill(v, id, |x| x.try_into().unwrap()),
            PV::Huge(v) => pv_fill(v, id, |x| x.try_into().unwrap()),
            PV::U128(v) => pv_fill(v, id, |x| u128::from_ne_bytes(x.try_into().unwrap())),
            PV::Buf(_) => None,
        });
        pending("");
        ev(cx, format!("{} -> {}", fill, if bad.is_some() { "failed" } else { "ok, one more refused" }));
        if let Some((class, d)) = bad {
            cx.violate(class, "PooledVec.push", format!("PooledVec #{} ({}): {}", id, tn, d));
        }
        true
    }
}

struct PooledVecSc {
    /// element type u128, whose alignment (16) the 1 KiB global pool (alignment 8) does not promise.
    /// Own scenario with a tiny budget: each run is executed in a forked copy first (a misaligned
    /// vector aborts inside zipora under debug assertions), and a fork is slow in a worker that
    /// has been running for a while.
    over_aligned: bool,
}

impl Scenario for PooledVecSc {
    fn name(&self) -> String {
        format!("PooledVec/{}", if self.over_aligned { "element_alignment_16" } else { "global_pools" })
    }
    fn budget(&self, tier: Tier) -> u64 {
        match (tier, self.over_aligned) {
            (_, true) => 32,
            (Tier::Quick, _) => 3_000,
            (Tier::Thorough, _) => 100_000,
        }
    }
    fn run(&self, cx: &mut Run) {
        let over = self.over_aligned;
        // as PooledBuffer/global_pools: the pools outlive a run
        run_in(cx, false, true, over, move |cx| {
            let cfg = cx.src.chan("cfg");
            let sizes = choose(&cfg, &[1usize, 100, 1024, 1025, 65536, 65537], 3);
            let mut kinds: Vec<usize> = choose(&cfg, &[0usize, 1, 2, 3, 1, 2], 2);
            if cfg.chance(1, 6) {
                kinds.push(4);
            }
            if over {
                kinds.push(5);
            }
            ev(cx, format!("PooledVec and PooledBuffer over the global pools, buffer sizes={:?} element types={:?}", sizes, kinds.iter().map(|&k| PV_KINDS[k].0).collect::<Vec<_>>()));
            let p = Params { sizes, aligns: vec![1], max_live: 4, w_alloc: 30, w_free: 40, min_ops: 3, max_ops: 16, full: false, drop_pool_first: false };
            history(cx, TPooledMix { kinds }, &p);
        });
    }
}

// ---- TieredMemoryAllocator
use zipora::memory::tiered::{TieredAllocation, TieredConfig, TieredMemoryAllocator};

struct TTiered {
    /// one or two allocators used from the same thread (they share the thread's MEDIUM_POOLS);
    /// the `align` argument of `alloc` selects the allocator, a block goes back to its own
    a: Vec<TieredMemoryAllocator>,
}

impl Target for TTiered {
    type H = (usize, TieredAllocation);
    fn t(&self) -> &'static str {
        "TieredMemoryAllocator"
    }
    fn alloc(&mut self, size: usize, which: usize) -> Result<Got<(usize, TieredAllocation)>, String> {
        let which = which % self.a.len();
        let a = self.a[which].allocate(size).map_err(|e| e.to_string())?;
        let addr = a.as_slice().as_ptr() as usize;
        let usable = a.as_slice().len();
        let heap = matches!(a, TieredAllocation::Small(..) | TieredAllocation::Medium(..));
        Ok(Got { h: (which, a), addr, usable, mem: Mem::Ptr { contain: heap }, align: 1 })
    }
    fn free(&mut self, h: (usize, TieredAllocation), _s: usize) -> Result<(), String> {
        self.a[h.0].deallocate(h.1).map_err(|e| e.to_string())
    }
    fn alloc_name(&self, size: usize, which: usize) -> String {
        if self.a.len() == 1 {
            format!("allocate({})", size)
        } else {
            format!("allocator{}.allocate({})", which % self.a.len(), size)
        }
    }
}

struct TieredSc;

impl Scenario for TieredSc {
    fn name(&self) -> String {
        "TieredMemoryAllocator/configs".into()
    }
    fn budget(&self, tier: Tier) -> u64 {
        // a fresh thread per run costs milliseconds here; the tiers are thin routers over
        // MemoryPool and MemoryMappedAllocator, which have their own scenarios
        match tier {
            Tier::Quick => 2_500,
            Tier::Thorough => 100_000,
        }
    }
    fn run(&self, cx: &mut Run) {
        // MEDIUM_POOLS is a thread_local! static shared by all allocators: fresh thread per run
        run_in(cx, true, false, false, move |cx| {
            let cfg = cx.src.chan("cfg");
            let config = if cfg.chance(1, 2) {
                TieredConfig {
                    enable_small_pools: !cfg.chance(1, 3),
                    enable_medium_pools: !cfg.chance(1, 3),
                    enable_mmap_large: !cfg.chance(1, 4),
                    enable_hugepages: cfg.chance(1, 2),
                    mmap_threshold: *cfg.pick(&[16 * 1024usize, 4096, 0]),
                    hugepage_threshold: *cfg.pick(&[2usize << 20, 1 << 20]),
                }
            } else {
                TieredConfig::default()
            };
            let all = [1usize, 100, 1024, 1025, 2048, 2049, 4096, 8193, 16384, 16385, 20000, 100_000, (2 << 20) - 1, 2 << 20];
            let sizes = choose(&cfg, &all, 4);
            ev(cx, format!("TieredMemoryAllocator::new({:?}) sizes={:?}", config, sizes));
            let a = match pc(|| TieredMemoryAllocator::new(config)) {
                Ok(a) => a,
                Err(e) => {
                    ev(cx, format!("new -> error {}", e));
                    return;
                }
            };
            let mut allocators = vec![a];
            // a second allocator on the same thread: it shares the thread-local medium pools with the first
            if cfg.chance(1, 2) {
                let second = if cfg.chance(1, 2) {
                    ev(cx, "second allocator: TieredMemoryAllocator::default()");
                    pc(|| TieredMemoryAllocator::default())
                } else {
                    let c2 = TieredConfig { enable_small_pools: cfg.chance(1, 2), enable_medium_pools: true, enable_mmap_large: !cfg.chance(1, 4), enable_hugepages: false, mmap_threshold: *cfg.pick(&[16 * 1024usize, 4096]), hugepage_threshold: 2 << 20 };
                    ev(cx, format!("second allocator: TieredMemoryAllocator::new({:?})", c2));
                    pc(|| TieredMemoryAllocator::new(c2))
                };
                match second {
                    Ok(a2) => {
                        allocators.push(a2);
                        cx.probe("two_allocators_on_one_thread");
                    }
                    Err(e) => ev(cx, format!("second new -> error {}", e)),
                }
            }
            let p = Params { sizes, aligns: (0..allocators.len()).collect(), max_live: 6, w_alloc: 55, w_free: 45, min_ops: 4, max_ops: 30, full: false, drop_pool_first: false };
            history(cx, TTiered { a: allocators }, &p);
        });
    }
}

// ---- MemoryMappedAllocator
use zipora::memory::mmap::{MemoryMappedAllocator, MmapAllocation};

struct TMmap {
    a: MemoryMappedAllocator,
    /// report `actual_size()` (documented: the allocated size, rounded to the page size) as usable
    actual: bool,
}

impl Target for TMmap {
    type H = MmapAllocation;
    fn t(&self) -> &'static str {
        "MemoryMappedAllocator"
    }
    fn alloc(&mut self, size: usize, _a: usize) -> Result<Got<MmapAllocation>, String> {
        let a = self.a.allocate(size).map_err(|e| e.to_string())?;
        let addr = a.as_slice().as_ptr() as usize;
        let usable = if self.actual { a.actual_size().max(a.as_slice().len()) } else { a.as_slice().len() };
        Ok(Got { h: a, addr, usable, mem: Mem::Ptr { contain: false }, align: 1 })
    }
    fn free(&mut self, h: MmapAllocation, _s: usize) -> Result<(), String> {
        self.a.deallocate(h).map_err(|e| e.to_string())
    }
    fn extra(&mut self, cx: &mut Run, _sh: &mut Shadow<MmapAllocation>, _o: [u64; 4]) -> bool {
        let r = pc(|| self.a.clear_cache());
        ev(cx, format!("clear_cache() -> {}", if r.is_ok() { "ok" } else { "error" }));
        true
    }
}

struct MmapSc;

impl Scenario for MmapSc {
    fn name(&self) -> String {
        "MemoryMappedAllocator/region_cache".into()
    }
    fn budget(&self, tier: Tier) -> u64 {
        match tier {
            Tier::Quick => 5_000,
            Tier::Thorough => 250_000,
        }
    }
    fn run(&self, cx: &mut Run) {
        run_in(cx, false, false, false, move |cx| {
            let cfg = cx.src.chan("cfg");
            let min = *cfg.pick(&[16 * 1024usize, 4096, 1, 0]);
            let all = [0usize, 1, 4095, 4096, 4097, 8192, 16383, 16384, 16385, 20000, 70000];
            let sizes = choose(&cfg, &all, 3);
            ev(cx, format!("MemoryMappedAllocator::new({}) sizes={:?}", min, sizes));
            let dflt = cfg.chance(1, 8);
            let a = pc(|| if dflt { MemoryMappedAllocator::default() } else { MemoryMappedAllocator::new(min) });
            let full = cfg.chance(1, 3);
            if full || dflt {
                ev(cx, format!("default()={} blocks used up to actual_size()={}", dflt, full));
            }
            let p = Params { sizes, aligns: vec![1], max_live: 8, w_alloc: 50, w_free: 42, min_ops: 4, max_ops: 40, full, drop_pool_first: false };
            history(cx, TMmap { a, actual: full }, &p);
        });
    }
}

// ---- BumpAllocator
use zipora::memory::bump::{BumpAllocator, BumpArena, BumpScope};

#[repr(align(64))]
struct A64([u8; 64]);
#[repr(align(32))]
struct A32x96([u8; 96]);

/// (type name, size, alignment) of the element types used for typed bump allocations
const TYPED: [(&str, usize, usize); 8] = [("u64", 8, 8), ("[u8; 3]", 3, 1), ("u16", 2, 2), ("[u32; 3]", 12, 4), ("u128", 16, 16), ("A64 (64 bytes, align 64)", 64, 64), ("A32x96 (96 bytes, align 32)", 96, 32), ("(u64, u8)", 16, 8)];

enum TypedVia<'a> {
    Alloc(&'a BumpAllocator),
    Arena(&'a BumpArena),
    Scope(&'a BumpScope<'a>),
}

/// `alloc::<T>()` for the k-th type of `TYPED`; returns the address
fn typed_alloc(k: usize, via: TypedVia<'_>) -> Option<usize> {
    fn one<T>(via: &TypedVia<'_>) -> Option<usize> {
        match via {
            TypedVia::Alloc(a) => a.alloc::<T>(),
            TypedVia::Arena(a) => a.alloc::<T>(),
            TypedVia::Scope(a) => a.alloc::<T>(),
        }
        .map(|p| p.as_ptr() as usize)
        .ok()
    }
    match k {
        0 => one::<u64>(&via),
        1 => one::<[u8; 3]>(&via),
        2 => one::<u16>(&via),
        3 => one::<[u32; 3]>(&via),
        4 => one::<u128>(&via),
        5 => one::<A64>(&via),
        6 => one::<A32x96>(&via),
        _ => one::<(u64, u8)>(&via),
    }
}

/// `alloc_slice::<T>(n)` for the k-th type of `TYPED`; returns (address, slice length reported)
fn typed_slice(k: usize, n: usize, via: TypedVia<'_>) -> Option<(usize, usize)> {
    fn one<T>(via: &TypedVia<'_>, n: usize) -> Option<(usize, usize)> {
        match via {
            TypedVia::Alloc(a) => a.alloc_slice::<T>(n),
            TypedVia::Arena(a) => a.alloc_slice::<T>(n),
            TypedVia::Scope(a) => a.alloc_slice::<T>(n),
        }
        .map(|p| (p.as_ptr() as *mut u8 as usize, p.len()))
        .ok()
    }
    match k {
        0 => one::<u64>(&via, n),
        1 => one::<[u8; 3]>(&via, n),
        2 => one::<u16>(&via, n),
        3 => one::<[u32; 3]>(&via, n),
        4 => one::<u128>(&via, n),
        5 => one::<A64>(&via, n),
        6 => one::<A32x96>(&via, n),
        _ => one::<(u64, u8)>(&via, n),
    }
}

struct TBump {
    a: BumpAllocator,
    cap: usize,
    huge_counts: bool,
}

impl Target for TBump {
    type H = ();
    fn t(&self) -> &'static str {
        "BumpAllocator"
    }
    fn can_free(&self) -> bool {
        false
    }
    fn alloc(&mut self, size: usize, align: usize) -> Result<Got<()>, String> {
        let p = self.a.alloc_bytes(size, align).map_err(|e| e.to_string())?;
        Ok(Got { h: (), addr: p.as_ptr() as usize, usable: size, mem: Mem::Ptr { contain: true }, align })
    }
    fn free(&mut self, _h: (), _s: usize) -> Result<(), String> {
        Ok(())
    }
    fn must_refuse(&self, size: usize, align: usize, _l: usize) -> Option<String> {
        if size > self.cap {
            Some(format!("capacity is {}", self.cap))
        } else if !align.is_power_of_two() {
            Some(format!("alignment {} is not a power of two", align))
        } else {
            None
        }
    }
    fn alloc_name(&self, size: usize, align: usize) -> String {
        format!("alloc_bytes({}, align {})", size, align)
    }
    fn extra(&mut self, cx: &mut Run, sh: &mut Shadow<()>, o: [u64; 4]) -> bool {
        match o[1] % 4 {
            0 => {
                // reset: documented to invalidate every block
                for b in std::mem::take(&mut sh.blocks) {
                    if let Some((i, got, want)) = Shadow::<()>::check_blk(&b) {
                        cx.violate("content_corrupted", "BumpAllocator.contents", format!("block #{} before reset: byte {} is {:#04x}, written {:#04x}", b.id, i, got, want));
                    }
                    ga::live_del(b.slot);
                }
                sh.frees += 1;
                pc(|| unsafe { self.a.reset() });
                ev(cx, "reset()");
            }
            1 => {
                // element types whose size and alignment differ, and over-aligned ones
                let k = (o[2] % 8) as usize;
                let (tn, size, align) = TYPED[k];
                let name = format!("alloc::<{}>()", tn);
                pending(&name);
                let a = &self.a;
                let r = pc(|| typed_alloc(k, TypedVia::Alloc(a)));
                pending("");
                match r {
                    Some(addr) => {
                        if size > self.cap {
                            ev(cx, format!("{} -> ok", name));
                            cx.violate("accepted_beyond_capacity", "BumpAllocator.allocate", format!("{} succeeded with a capacity of {} bytes", name, self.cap));
                        } else {
                            if k != 0 {
                                cx.probe("typed_alloc_size_differs_from_align");
                            }
                            sh.admit(cx, (), addr, size, align, Mem::Ptr { contain: true }, &name);
                        }
                    }
                    None => ev(cx, format!("{} -> refused", name)),
                }
            }
            2 if o[3] % 2 == 0 => {
                let k = (o[2] % 8) as usize;
                let n = 1 + ((o[2] >> 8) % 3) as usize;
                let (tn, size, align) = TYPED[k];
                let name = format!("alloc_slice::<{}>({})", tn, n);
                pending(&name);
                let a = &self.a;
                let r = pc(|| typed_slice(k, n, TypedVia::Alloc(a)));
                pending("");
                match r {
                    Some((addr, len)) => {
                        if size * n > self.cap || len != n {
                            ev(cx, format!("{} -> ok, a slice of {} elements", name, len));
                            cx.violate(if len != n { "too_small" } else { "accepted_beyond_capacity" }, "BumpAllocator.allocate", format!("{} returned a slice of {} elements with a capacity of {} bytes", name, len, self.cap));
                        } else {
                            cx.probe("typed_slice");
                            sh.admit(cx, (), addr, size * n, align, Mem::Ptr { contain: true }, &name);
                        }
                    }
                    None => ev(cx, format!("{} -> refused", name)),
                }
            }
            _ => {
                let counts: &[usize] = if self.huge_counts { &[1usize, 3, self.cap / 4 + 1, 1 << 62, (1 << 62) + 2] } else { &[1usize, 3, 2, self.cap / 4, self.cap / 4 + 1] };
                let n = counts[(o[2] as usize) % counts.len()];
                let name = format!("alloc_slice::<u32>({})", n);
                pending(&name);
                let r = pc(|| self.a.alloc_slice::<u32>(n));
                match r {
                    Ok(p) => {
                        let bytes = n.wrapping_mul(4);
                        if n.saturating_mul(4) > self.cap {
                            ev(cx, format!("{} -> ok", name));
                            cx.violate("accepted_beyond_capacity", "BumpAllocator.allocate", format!("{} succeeded with a capacity of {} bytes", name, self.cap));
                        } else {
                            sh.admit(cx, (), p.as_ptr() as *mut u8 as usize, bytes, 4, Mem::Ptr { contain: true }, &name);
                        }
                    }
                    Err(_) => ev(cx, format!("{} -> refused", name)),
                }
            }
        }
        true
    }
}

struct BumpSc;

impl Scenario for BumpSc {
    fn name(&self) -> String {
        "BumpAllocator/bytes".into()
    }
    fn budget(&self, tier: Tier) -> u64 {
        match tier {
            Tier::Quick => 10_000,
            Tier::Thorough => 600_000,
        }
    }
    fn run(&self, cx: &mut Run) {
        run_in(cx, false, false, false, move |cx| {
            let cfg = cx.src.chan("cfg");
            let cap = *cfg.pick(&[16usize, 64, 100, 256, 1024]);
            let mut sizes = choose(&cfg, &[1usize, 3, 8, 16, 17, 64, cap, cap + 1, cap / 2], 4);
            if cfg.chance(1, 10) {
                sizes.push(*cfg.pick(&[usize::MAX, usize::MAX - 7, 1usize << 63]));
            }
            let aligns = if cfg.chance(1, 3) { choose(&cfg, &[1usize, 2, 4, 8, 16, 64, 4096, 3, 0], 3) } else { choose(&cfg, &[1usize, 2, 4, 8], 3) };
            ev(cx, format!("BumpAllocator::new({}) sizes={:?} aligns={:?}", cap, sizes, aligns));
            let a = match pc(|| BumpAllocator::new(cap)) {
                Ok(a) => a,
                Err(e) => {
                    ev(cx, format!("new -> error {}", e));
                    return;
                }
            };
            let p = Params { sizes, aligns, max_live: 24, w_alloc: 75, w_free: 0, min_ops: 4, max_ops: 30, full: false, drop_pool_first: false };
            let huge_counts = cfg.chance(1, 8);
            history(cx, TBump { a, cap, huge_counts }, &p);
            // (non-trivial rule for an allocator without free: at least two blocks live)
        });
    }
}

/// BumpArena with nested scopes: a block dies when a scope that was open at its birth is dropped.
struct BumpScopeSc;

impl Scenario for BumpScopeSc {
    fn name(&self) -> String {
        "BumpArena/scopes".into()
    }
    fn budget(&self, tier: Tier) -> u64 {
        match tier {
            Tier::Quick => 6_000,
            Tier::Thorough => 300_000,
        }
    }
    fn run(&self, cx: &mut Run) {
        run_in(cx, false, false, false, move |cx| {
            let cfg = cx.src.chan("cfg");
            let cap = *cfg.pick(&[64usize, 128, 512]);
            let sizes = choose(&cfg, &[1usize, 8, 16, 24, cap / 4, cap / 2], 3);
            let planned = 4 + cfg.below(30);
            ev(cx, format!("BumpArena::new({}) sizes={:?}", cap, sizes));
            let arena = match pc(|| BumpArena::new(cap)) {
                Ok(a) => a,
                Err(_) => return,
            };
            let mut sh: Shadow<()> = Shadow::new("BumpArena");
            let mut scopes: Vec<(u32, u64, BumpScope<'_>)> = vec![];
            let mut next_scope = 1u32;
            let mut ops = cx.src.ops("ops", planned);
            let mut closed = 0u64;
            while let Some(o) = ops.next() {
                cx.steps += 1;
                let k = o[0] % 100;
                if k < 55 {
                    let size = sizes[(o[1] as usize) % sizes.len()];
                    let align = [1usize, 4, 8][(o[2] as usize) % 3];
                    let via = if scopes.is_empty() { 0 } else { (o[3] as usize) % (scopes.len() + 1) };
                    // one in four allocations is typed: alloc::<T>() / alloc_slice::<T>(n) through the arena or a scope
                    let typed = (o[3] >> 8) % 8;
                    let (r, name, size, align) = if typed < 2 {
                        let k = ((o[3] >> 16) % 8) as usize;
                        let n = 1 + ((o[3] >> 24) % 3) as usize;
                        let (tn, tsize, talign) = TYPED[k];
                        let (who, tv) = if via == 0 { ("arena".to_string(), TypedVia::Arena(&arena)) } else { (format!("scope{}", scopes[via - 1].0), TypedVia::Scope(&scopes[via - 1].2)) };
                        cx.probe("typed_alloc_through_arena_or_scope");
                        if typed == 0 {
                            (pc(|| typed_alloc(k, tv)), format!("{}.alloc::<{}>()", who, tn), tsize, talign)
                        } else {
                            let r = pc(|| typed_slice(k, n, tv));
                            let name = format!("{}.alloc_slice::<{}>({})", who, tn, n);
                            if let Some((_, len)) = r {
                                if len != n {
                                    cx.violate("too_small", "BumpArena.allocate", format!("{} returned a slice of {} elements", name, len));
                                    break;
                                }
                            }
                            (r.map(|x| x.0), name, tsize * n, talign)
                        }
                    } else if via == 0 {
                        (pc(|| arena.alloc_bytes(size, align)).ok().map(|p| p.as_ptr() as usize), format!("arena.alloc_bytes({}, align {})", size, align), size, align)
                    } else {
                        let s = &scopes[via - 1];
                        (pc(|| s.2.alloc_bytes(size, align)).ok().map(|p| p.as_ptr() as usize), format!("scope{}.alloc_bytes({}, align {})", s.0, size, align), size, align)
                    };
                    match r {
                        Some(addr) => {
                            if size > cap {
                                cx.violate("accepted_beyond_capacity", "BumpArena.allocate", format!("{} succeeded with capacity {}", name, cap));
                                break;
                            }
                            if sh.admit(cx, (), addr, size, align, Mem::Ptr { contain: true }, &name).is_none() {
                                break;
                            }
                        }
                        None => ev(cx, format!("{} -> refused", name)),
                    }
                } else if k < 75 && scopes.len() < 3 {
                    sh.clock += 1;
                    let s = pc(|| arena.scope());
                    ev(cx, format!("scope{} = arena.scope()", next_scope));
                    scopes.push((next_scope, sh.clock, s));
                    next_scope += 1;
                } else if !scopes.is_empty() {
                    let i = (o[1] as usize) % scopes.len();
                    let (id, birth, s) = scopes.remove(i);
                    // everything allocated since the scope was opened dies with it
                    if !sh.verify(cx, "the operation above") {
                        break;
                    }
                    let mut keep = vec![];
                    for b in std::mem::take(&mut sh.blocks) {
                        if b.birth > birth {
                            ga::live_del(b.slot);
                        } else {
                            keep.push(b);
                        }
                    }
                    sh.blocks = keep;
                    pc(|| drop(s));
                    closed += 1;
                    sh.frees += 1;
                    ev(cx, format!("drop(scope{})", id));
                }
                if hook_violation(cx, &sh) || cx.failed() {
                    break;
                }
                if !sh.verify(cx, "the operation above") {
                    break;
                }
            }
            cx.probe_n("scopes_closed", closed);
            cx.nontrivial = sh.allocs_ok >= 2 && closed >= 1 && sh.alloc_after_free;
            sh.abandon();
            ga::reset(true);
            if cx.failed() {
                std::mem::forget(scopes);
                std::mem::forget(arena);
            } else {
                pc(|| drop(scopes));
                pc(|| drop(arena));
            }
        });
    }
}

// ---- the five-level family (offset-returning: memory is not reachable through the API)
use zipora::memory::five_level_pool::{AdaptiveFiveLevelPool, ConcurrencyLevel, FiveLevelPoolConfig, FiveLevelPoolHandle, FixedCapacityPool, LockFreePool, MemOffset, MutexBasedPool, NoLockingPool, ThreadLocalPool};

#[derive(Clone, Copy, PartialEq)]
enum Lv {
    L1,
    L2,
    L3,
    L4,
    L5,
    /// AdaptiveFiveLevelPool at the level with this index (5 = `new()` with fixed_capacity set)
    Adaptive(u64),
}

enum FlPool {
    L1(NoLockingPool),
    L2(MutexBasedPool),
    L3(LockFreePool),
    L4(ThreadLocalPool),
    L5(FixedCapacityPool),
    Ad(AdaptiveFiveLevelPool),
}

fn off_of(o: MemOffset) -> usize {
    // MemOffset is #[repr(transparent)] over u32 and exposes no accessor
    (unsafe { std::mem::transmute::<MemOffset, u32>(o) }) as usize
}

struct TFive {
    name: &'static str,
    /// a cloneable second handle to the same pool (AdaptiveFiveLevelPool::get_handle); `align` = 1 routes an
    /// allocation through it, every other free goes through it
    handle: Option<FiveLevelPoolHandle>,
    nfree: u64,
    p: FlPool,
    align: usize,
    /// Some(capacity) when every offset lives in one region of that size
    bound: Option<usize>,
    limit: usize,
}

impl Target for TFive {
    type H = MemOffset;
    fn t(&self) -> &'static str {
        self.name
    }
    fn alloc(&mut self, size: usize, via: usize) -> Result<Got<MemOffset>, String> {
        if let (1, Some(h)) = (via, &self.handle) {
            let o = h.alloc(size).map_err(|e| e.to_string())?;
            return Ok(Got { h: o, addr: off_of(o), usable: size, mem: Mem::Off { bound: self.bound }, align: self.align });
        }
        let r = match &mut self.p {
            FlPool::L1(p) => p.alloc(size),
            FlPool::L2(p) => p.alloc(size),
            FlPool::L3(p) => p.alloc(size),
            FlPool::L4(p) => p.alloc(size),
            FlPool::L5(p) => p.alloc(size),
            FlPool::Ad(p) => p.alloc(size),
        };
        let o = r.map_err(|e| e.to_string())?;
        Ok(Got { h: o, addr: off_of(o), usable: size, mem: Mem::Off { bound: self.bound }, align: self.align })
    }
    fn free(&mut self, h: MemOffset, size: usize) -> Result<(), String> {
        self.nfree += 1;
        if let (1, Some(hd)) = (self.nfree % 2, &self.handle) {
            return hd.free(h, size).map_err(|e| e.to_string());
        }
        let r = match &mut self.p {
            FlPool::L1(p) => p.free(h, size),
            FlPool::L2(p) => p.free(h, size),
            FlPool::L3(p) => p.free(h, size),
            FlPool::L4(p) => p.free(h, size),
            FlPool::L5(p) => p.free(h, size),
            FlPool::Ad(p) => p.free(h, size),
        };
        r.map_err(|e| e.to_string())
    }
    fn must_refuse(&self, size: usize, _a: usize, _l: usize) -> Option<String> {
        if size > self.limit {
            Some(format!("the pool's capacity is {} bytes", self.limit))
        } else {
            None
        }
    }
    fn alloc_name(&self, size: usize, via: usize) -> String {
        if via == 1 && self.handle.is_some() {
            format!("handle.alloc({})", size)
        } else {
            format!("alloc({})", size)
        }
    }
}

struct FiveSc {
    lv: Lv,
}

impl FiveSc {
    fn tname(&self) -> &'static str {
        match self.lv {
            Lv::L1 => "five_level::NoLockingPool",
            Lv::L2 => "five_level::MutexBasedPool",
            Lv::L3 => "five_level::LockFreePool",
            Lv::L4 => "five_level::ThreadLocalPool",
            Lv::L5 => "five_level::FixedCapacityPool",
            Lv::Adaptive(_) => "five_level::AdaptiveFiveLevelPool",
        }
    }
}

impl Scenario for FiveSc {
    fn name(&self) -> String {
        match self.lv {
            Lv::Adaptive(k) => format!("{}/{}", self.tname(), ["SingleThread", "MultiThreadMutex", "MultiThreadLockFree", "ThreadLocal", "FixedCapacity", "new_with_fixed_capacity"][k as usize]),
            _ => format!("{}/small_capacity", self.tname()),
        }
    }
    fn budget(&self, tier: Tier) -> u64 {
        match (tier, self.lv) {
            // fresh thread per run
            (Tier::Quick, Lv::L4) => 4_000,
            (Tier::Thorough, Lv::L4) => 150_000,
            (Tier::Quick, Lv::Adaptive(3)) => 1_000,
            (Tier::Thorough, Lv::Adaptive(3)) => 40_000,
            (Tier::Quick, Lv::Adaptive(_)) => 1_500,
            (Tier::Thorough, Lv::Adaptive(_)) => 90_000,
            (Tier::Quick, _) => 8_000,
            (Tier::Thorough, _) => 500_000,
        }
    }
    fn run(&self, cx: &mut Run) {
        let lv = self.lv;
        let tname = self.tname();
        let (is_ad, ad_pick) = match lv {
            Lv::Adaptive(k) => (true, k),
            _ => (false, 0),
        };
        // level 4 keeps its arena in a thread_local! static that no API resets: fresh thread per run
        run_in(cx, lv == Lv::L4 || lv == Lv::Adaptive(3), false, false, move |cx| {
            let cfg = cx.src.chan("cfg");
            let preset = cfg.biased_zero(5, 1, 12);
            let mut config = match preset {
                1 => FiveLevelPoolConfig::default(),
                2 => FiveLevelPoolConfig::performance_optimized(),
                3 => FiveLevelPoolConfig::memory_optimized(),
                4 => FiveLevelPoolConfig::realtime(),
                _ => FiveLevelPoolConfig {
                    max_fast_block_size: *cfg.pick(&[64usize, 256, 1024]),
                    alignment: *cfg.pick(&[8usize, 8, 16, 64, 4]),
                    initial_capacity: *cfg.pick(&[64usize, 256, 1024, 4096]),
                    max_skip_levels: 8,
                    arena_size: *cfg.pick(&[64usize, 128, 512, 4096]),
                    fixed_capacity: None,
                    enable_cache_alignment: false,
                    cache_config: None,
                    enable_numa_awareness: false,
                    enable_huge_pages: false,
                    huge_page_threshold: 2 << 20,
                },
            };
            // CacheLayoutConfig::default() is plain data; presets keep theirs
            if (lv == Lv::L5 || (is_ad && ad_pick == 4)) && preset == 0 {
                config.fixed_capacity = if cfg.chance(1, 4) { None } else { Some(*cfg.pick(&[64usize, 256, 1000, 4096])) };
            }
            if lv != Lv::L5 && !is_ad {
                config.fixed_capacity = None;
            }
            let al = config.alignment;
            let mf = config.max_fast_block_size;
            let mut capacity = config.initial_capacity;
            let ad_level = if is_ad {
                Some(match ad_pick {
                    0 => ConcurrencyLevel::SingleThread,
                    1 => ConcurrencyLevel::MultiThreadMutex,
                    2 => ConcurrencyLevel::MultiThreadLockFree,
                    3 => ConcurrencyLevel::ThreadLocal,
                    4 => ConcurrencyLevel::FixedCapacity,
                    _ => {
                        // AdaptiveFiveLevelPool::new with fixed_capacity set always selects FixedCapacity
                        config.fixed_capacity = Some(*cfg.pick(&[64usize, 256, 1000]));
                        ConcurrencyLevel::FixedCapacity
                    }
                })
            } else {
                None
            };
            let is_l5 = lv == Lv::L5 || ad_level == Some(ConcurrencyLevel::FixedCapacity);
            let is_l4 = lv == Lv::L4 || ad_level == Some(ConcurrencyLevel::ThreadLocal);
            if is_l5 {
                capacity = config.fixed_capacity.unwrap_or(config.initial_capacity);
            }
            let arena = config.arena_size;
            let mut all = vec![1usize, al, al + 1, 3 * al, mf - 1, mf, mf + 1, 2 * mf];
            if capacity <= 1 << 16 {
                all.extend([capacity / 2, capacity, capacity + 1]);
            }
            if is_l4 && arena <= 1 << 16 {
                all.extend([arena / 4, arena / 2]);
            }
            let mut sizes = choose(&cfg, &all, 4);
            if cfg.chance(1, 8) {
                sizes.push(1 << 20);
            }
            if cfg.chance(1, 10) {
                sizes.push(0);
            }
            ev(cx, format!(
                "{}::new(alignment={}, max_fast_block_size={}, initial_capacity={}, arena_size={}, fixed_capacity={:?}{}) sizes={:?}",
                tname,
                al,
                mf,
                config.initial_capacity,
                arena,
                config.fixed_capacity,
                match ad_level {
                    Some(l) => format!(", level={:?}", l),
                    None => String::new(),
                },
                sizes
            ));
            let fixed_new = ad_pick == 5 && is_ad;
            let built = pc(|| -> Result<FlPool, String> {
                Ok(match lv {
                    Lv::L1 => FlPool::L1(NoLockingPool::new(config).map_err(|e| e.to_string())?),
                    Lv::L2 => FlPool::L2(MutexBasedPool::new(config).map_err(|e| e.to_string())?),
                    Lv::L3 => FlPool::L3(LockFreePool::new(config).map_err(|e| e.to_string())?),
                    Lv::L4 => FlPool::L4(ThreadLocalPool::new(config).map_err(|e| e.to_string())?),
                    Lv::L5 => FlPool::L5(FixedCapacityPool::new(config).map_err(|e| e.to_string())?),
                    Lv::Adaptive(_) => FlPool::Ad(if fixed_new { AdaptiveFiveLevelPool::new(config) } else { AdaptiveFiveLevelPool::with_level(config, ad_level.unwrap()) }.map_err(|e| e.to_string())?),
                })
            });
            let p = match built {
                Ok(p) => p,
                Err(e) => {
                    ev(cx, format!("new -> error {}", e));
                    return;
                }
            };
            let handle = match &p {
                FlPool::Ad(ad) if cfg.chance(1, 2) => pc(|| ad.get_handle()).ok(),
                _ => None,
            };
            if handle.is_some() {
                ev(cx, "get_handle(): a second handle to the same pool is used alongside");
                cx.probe("second_handle");
            }
            let aligns = if handle.is_some() { vec![0, 1] } else { vec![0] };
            let t = TFive { name: tname, handle, nfree: 0, p, align: al, bound: if is_l4 { None } else { Some(capacity) }, limit: if is_l4 { capacity.max(arena) } else { capacity } };
            let pr = Params { sizes, aligns, max_live: 10, w_alloc: 58, w_free: 42, min_ops: 4, max_ops: 40, full: false, drop_pool_first: false };
            history(cx, t, &pr);
        });
    }
}

// ---- cache.rs: numa_alloc_aligned / numa_dealloc (process-global state)
struct TNuma;

impl Target for TNuma {
    type H = (NonNull<u8>, usize);
    fn t(&self) -> &'static str {
        "numa_alloc_aligned"
    }
    fn alloc(&mut self, size: usize, align: usize) -> Result<Got<(NonNull<u8>, usize)>, String> {
        let p = zipora::memory::numa_alloc_aligned(size, align, 0).map_err(|e| e.to_string())?;
        // documented: "with cache alignment" = at least CACHE_LINE_SIZE
        Ok(Got { h: (p, align), addr: p.as_ptr() as usize, usable: size, mem: Mem::Ptr { contain: true }, align: align.max(zipora::memory::CACHE_LINE_SIZE) })
    }
    fn free(&mut self, h: (NonNull<u8>, usize), size: usize) -> Result<(), String> {
        zipora::memory::numa_dealloc(h.0, size, h.1, 0).map_err(|e| e.to_string())
    }
    fn alloc_name(&self, size: usize, align: usize) -> String {
        format!("numa_alloc_aligned({}, align {}, node 0)", size, align)
    }
    fn extra(&mut self, cx: &mut Run, _sh: &mut Shadow<Self::H>, o: [u64; 4]) -> bool {
        if o[1] % 2 == 0 {
            let r = pc(|| zipora::memory::init_numa_pools());
            ev(cx, format!("init_numa_pools() -> {}", if r.is_ok() { "ok" } else { "error" }));
        } else {
            let r = pc(|| zipora::memory::clear_numa_pools());
            ev(cx, format!("clear_numa_pools() -> {}", if r.is_ok() { "ok" } else { "error" }));
        }
        true
    }
}

struct NumaSc;

impl Scenario for NumaSc {
    fn name(&self) -> String {
        "numa_alloc_aligned/node0".into()
    }
    fn budget(&self, tier: Tier) -> u64 {
        match tier {
            Tier::Quick => 3_000,
            Tier::Thorough => 100_000,
        }
    }
    fn run(&self, cx: &mut Run) {
        run_in(cx, false, false, false, move |cx| {
            let cfg = cx.src.chan("cfg");
            let sizes = choose(&cfg, &[1usize, 63, 64, 65, 1000, 1023, 1024, 1025, 65535, 65536, 70000], 3);
            let aligns = choose(&cfg, &[1usize, 8, 64, 128, 4096], 2);
            // whatever an earlier run in this process left cached in the global node pools is
            // never handed out again by numa_alloc_aligned, so runs do not influence each other
            pc(|| {
                let _ = zipora::memory::clear_numa_pools();
            });
            ev(cx, format!("numa_alloc_aligned/numa_dealloc on node 0, sizes={:?} aligns={:?}", sizes, aligns));
            let p = Params { sizes, aligns, max_live: 6, w_alloc: 50, w_free: 40, min_ops: 4, max_ops: 30, full: false, drop_pool_first: false };
            history(cx, TNuma, &p);
            pc(|| {
                let _ = zipora::memory::clear_numa_pools();
            });
        });
    }
}

// -----------------------------------------------------------------------------------------

fn main() {
    let mut spec = CheckSpec::new(
        "C07",
        "exploration",
        "seeded single-threaded allocate/free histories (3-5 sizes per run drawn around the target's size-class boundaries, tiny capacities) x seeded pool configuration; \
         non-trivial = at least two successful allocations and at least one successful allocation after a free (bump allocators: after a reset / scope drop); \
         distinct = distinct hash of (configuration, operations, observed results incl. block offsets inside the pool's regions)",
    );
    spec.assumptions = vec![
        "single-threaded histories only (concurrent use is C08)".into(),
        "heap allocations made while a pool call is in progress are taken to be the memory the pool owns; mmap-backed blocks (MemoryMappedAllocator, tiered Large/Huge) are checked for overlap/contents only".into(),
        "the harness' global allocator returns, during pool calls, memory aligned to exactly the alignment the pool requested from the allocator (legal for a GlobalAlloc), so reliance on accidental over-alignment is observed deterministically".into(),
        "the five-level pools expose offsets only: overlap, bounds, alignment and refusal are checked, contents cannot be".into(),
        "hugepages are not configured on this host: HugePageAllocator always refuses, so the Huge tier contributes refusals only".into(),
        "blocks larger than 4 KiB are pattern-filled at their first and last 512 bytes and every 253rd byte in between".into(),
        "LockFreeMemoryPool and SecureMemoryPool/chunk_size_not_multiple_of_8 histories are first executed in a forked copy of the worker process; a copy killed by a signal is reported as crash:<signal> with the events it streamed back".into(),
        "clear()/clear_caches() in the middle of a history: MemoryPool and SecureMemoryPool at any time (SecureMemoryPool/clear_midway: with live blocks in a third of the runs); ThreadLocalMemoryPool/two_pools only while no block is live, ThreadLocalMemoryPool/clear_caches_with_live_blocks at any time".into(),
        "with the per-run knob `full` a block is every byte the handle exposes through safe code (FixedCapacityAllocation::size(), MmapAllocation::actual_size()), otherwise the requested length".into(),
        "PooledVec/element_alignment_16 (32 runs) executes each history first in a forked copy of the worker (an element type whose alignment the pool does not honour aborts inside zipora under debug assertions)".into(),
        "debug assertions and overflow checks are enabled in the build under test (framework profile): arithmetic overflow and misaligned-pointer dereference inside zipora surface as panic / SIGABRT".into(),
    ];
    spec.components = vec![
        ("memory::lockfree_pool::{LockFreeMemoryPool, LockFreeAllocation, LockFreePoolConfig presets}", "real"),
        ("memory::secure_pool::SecureMemoryPool (allocate, allocate_with_hint, allocate_bulk_with_prefetch, clear, stats)", "real"),
        ("memory::threadlocal_pool::ThreadLocalMemoryPool (one or two pools per thread, clear_caches)", "real"),
        ("memory::fixed_capacity_pool::FixedCapacityMemoryPool", "real"),
        ("memory::pool::{MemoryPool (incl. clear), PooledBuffer, PooledVec}", "real"),
        ("memory::tiered::TieredMemoryAllocator", "real"),
        ("memory::mmap::MemoryMappedAllocator", "real (real mmap/munmap)"),
        ("memory::bump::{BumpAllocator, BumpArena, BumpScope}", "real"),
        ("memory::cache::{numa_alloc_aligned, numa_dealloc, init_numa_pools, clear_numa_pools}", "real"),
        ("memory::five_level_pool::{NoLocking,MutexBased,LockFree,ThreadLocal,FixedCapacity,Adaptive}", "real"),
        ("process heap", "malloc behind the harness' recording/exact-alignment GlobalAlloc"),
    ];
    spec.scenarios.push(Box::new(LockFreeSc { huge: false }));
    spec.scenarios.push(Box::new(LockFreeSc { huge: true }));
    spec.scenarios.push(Box::new(SecureSc { aligned: false, odd: false, clear: false }));
    spec.scenarios.push(Box::new(SecureSc { aligned: true, odd: false, clear: false }));
    spec.scenarios.push(Box::new(SecureSc { aligned: false, odd: true, clear: false }));
    spec.scenarios.push(Box::new(SecureSc { aligned: false, odd: false, clear: true }));
    spec.scenarios.push(Box::new(TlsSc { class_sizes: false }));
    spec.scenarios.push(Box::new(TlsSc { class_sizes: true }));
    spec.scenarios.push(Box::new(Tls2Sc { with_live: false }));
    spec.scenarios.push(Box::new(Tls2Sc { with_live: true }));
    spec.scenarios.push(Box::new(FixedSc { presets: false }));
    spec.scenarios.push(Box::new(FixedSc { presets: true }));
    spec.scenarios.push(Box::new(BasicSc));
    spec.scenarios.push(Box::new(PooledBufSc));
    // (directly after PooledBufSc: all three share the recorded-region table of the global pools)
    spec.scenarios.push(Box::new(PooledVecSc { over_aligned: false }));
    spec.scenarios.push(Box::new(PooledVecSc { over_aligned: true }));
    spec.scenarios.push(Box::new(TieredSc));
    spec.scenarios.push(Box::new(MmapSc));
    spec.scenarios.push(Box::new(NumaSc));
    spec.scenarios.push(Box::new(BumpSc));
    spec.scenarios.push(Box::new(BumpScopeSc));
    for lv in [Lv::L1, Lv::L2, Lv::L3, Lv::L4, Lv::L5, Lv::Adaptive(0), Lv::Adaptive(1), Lv::Adaptive(2), Lv::Adaptive(3), Lv::Adaptive(4), Lv::Adaptive(5)] {
        spec.scenarios.push(Box::new(FiveSc { lv }));
    }
    zsim_core::driver::main(spec);
}
