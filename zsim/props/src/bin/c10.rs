//! C10 — vectors, queues and string vectors match their standard-library models.
//!
//! One scenario per target type / element family.  Every run is a seeded operation history
//! executed step by step against the real zipora container and a `Vec` / `VecDeque` model;
//! after every step the visible sequence, the reported results (None/Err for out-of-range
//! and empty, refusal of a full fixed-capacity container) and — for the drop-counting
//! element type `Tracked` — conservation of element instances (no leak, no double drop,
//! no aliasing) are compared.

use std::cell::RefCell;
use std::collections::{BTreeMap, VecDeque};
use std::mem::ManuallyDrop;
use std::path::PathBuf;

use zipora::containers::specialized::{
    AdvancedStringConfig, AdvancedStringVec, AutoGrowCircularQueue, BitPackedStringVec32, BitPackedStringVec64, FixedCircularQueue, FixedLenStrVec, SortableStrVec, ValVec32, ZoSortedStrVec,
};
use zipora::containers::FastVec;
use zipora::memory::bump::{BumpAllocator, BumpVec};
use zipora::memory::cache::CacheAlignedVec;
use zipora::memory::mmap_vec::{MmapVec, MmapVecConfig};
use zsim_core::{CheckSpec, Ops, Run, Scenario, Tier};

// ---------------------------------------------------------------------------------------
// drop-counting element type

#[derive(Default)]
struct Ledger {
    next_serial: u64,
    /// serial -> value of every live instance
    live: BTreeMap<u64, u64>,
    /// (serial, value) of instances dropped although not (or no longer) registered
    double_drops: Vec<(u64, u64)>,
    clones: u64,
}

thread_local! {
    static LEDGER: RefCell<Ledger> = RefCell::new(Ledger::default());
}

fn ledger_reset() {
    LEDGER.with(|l| *l.borrow_mut() = Ledger::default());
}
fn ledger_live() -> usize {
    LEDGER.with(|l| l.borrow().live.len())
}
fn ledger_live_vals() -> Vec<u64> {
    LEDGER.with(|l| l.borrow().live.values().copied().collect())
}
fn ledger_double_drop() -> Option<(u64, u64)> {
    LEDGER.with(|l| l.borrow().double_drops.first().copied())
}
fn ledger_clones() -> u64 {
    LEDGER.with(|l| l.borrow().clones)
}

/// Owns heap memory; construction and `clone` register the instance, `drop` deregisters it.
/// A bitwise duplicate made by a buggy container shares the serial, so its second drop is
/// seen as a double drop (and the heap block is then *not* freed a second time, so the
/// observation does not turn into allocator corruption).
struct Tracked {
    val: u64,
    serial: u64,
    heap: ManuallyDrop<Box<[u64; 3]>>,
}

impl Tracked {
    fn new(val: u64) -> Tracked {
        let serial = LEDGER.with(|l| {
            let mut l = l.borrow_mut();
            l.next_serial += 1;
            let s = l.next_serial;
            l.live.insert(s, val);
            s
        });
        Tracked { val, serial, heap: ManuallyDrop::new(Box::new([val, serial, !val])) }
    }
}

impl Clone for Tracked {
    fn clone(&self) -> Tracked {
        LEDGER.with(|l| l.borrow_mut().clones += 1);
        Tracked::new(self.val)
    }
}

impl Drop for Tracked {
    fn drop(&mut self) {
        let (val, serial) = (self.val, self.serial);
        let registered = LEDGER.try_with(|l| {
            let mut l = l.borrow_mut();
            if l.live.remove(&serial).is_some() {
                true
            } else {
                l.double_drops.push((serial, val));
                false
            }
        });
        if let Ok(true) = registered {
            unsafe { ManuallyDrop::drop(&mut self.heap) }
        }
    }
}

impl PartialEq for Tracked {
    fn eq(&self, o: &Tracked) -> bool {
        self.val == o.val
    }
}

impl std::fmt::Debug for Tracked {
    fn fmt(&self, f: &mut std::fmt::Formatter<'_>) -> std::fmt::Result {
        write!(f, "T{}", self.val)
    }
}

trait Elem: Clone + PartialEq + 'static {
    const TRACKED: bool;
    const NAME: &'static str;
    /// non-zero: fresh values are 1 + n % MODULUS (element types narrower than u64)
    const MODULUS: u64 = 0;
    /// a size for bulk operations: `x % small` for the wide element types; one-byte elements
    /// need 64 elements to reach the 64-byte SIMD thresholds, so their sizes cluster there
    fn size(x: u64, small: u64) -> usize {
        (x % small) as usize
    }
    fn mk(v: u64) -> Self;
    fn val(&self) -> u64;
    fn serial(&self) -> u64;
    /// Copy-only operations of FastVec (kinds >= FV_GENERIC); default: element type is not Copy
    fn fastvec_copy_op(_h: &mut H, _k: u64, _o: [u64; 4], _s: usize, _fv: &mut FastVec<Self>, _m: &mut Vec<u64>) -> &'static str {
        "n/a"
    }
    fn valvec_copy_op(_h: &mut H, _k: u64, _o: [u64; 4], _s: usize, _vv: &mut ValVec32<Self>, _m: &mut Vec<u64>) -> &'static str {
        "n/a"
    }
}

impl Elem for Tracked {
    const TRACKED: bool = true;
    const NAME: &'static str = "tracked";
    fn mk(v: u64) -> Tracked {
        Tracked::new(v)
    }
    fn val(&self) -> u64 {
        self.val
    }
    fn serial(&self) -> u64 {
        self.serial
    }
}

// ---------------------------------------------------------------------------------------
// per-run helper

struct H<'a> {
    cx: &'a mut Run,
    tgt: &'static str,
    next_val: u64,
    modulus: u64,
}

fn show(v: &[u64]) -> String {
    if v.len() <= 24 {
        format!("{:?}", v)
    } else {
        format!("{:?}.. ({} elements)", &v[..24], v.len())
    }
}

impl<'a> H<'a> {
    fn new(cx: &'a mut Run, tgt: &'static str) -> H<'a> {
        ledger_reset();
        H { cx, tgt, next_val: 0, modulus: 0 }
    }
    /// a value that was never used before in this run (narrow element types: not used by
    /// the previous `modulus - 1` draws, and never 0)
    fn fresh(&mut self) -> u64 {
        self.next_val += 1;
        if self.modulus == 0 {
            self.next_val
        } else {
            1 + (self.next_val - 1) % self.modulus
        }
    }
    fn fresh_n(&mut self, n: usize) -> Vec<u64> {
        (0..n).map(|_| self.fresh()).collect()
    }
    fn ev(&mut self, s: String) {
        self.cx.ev(s);
        self.cx.steps += 1;
    }
    fn bad(&mut self, class: &str, op: &str, detail: String) {
        let site = format!("{}.{}", self.tgt, op);
        self.cx.violate(class, &site, detail);
    }
    fn failed(&self) -> bool {
        self.cx.failed()
    }
    fn cell(&mut self, op: &str, class: &str) {
        let c = format!("{}/{}/{}", self.tgt, op, class);
        self.cx.cell(c);
    }
    /// result of an operation that the model says must succeed
    fn must_ok<T, E: std::fmt::Debug>(&mut self, op: &str, r: Result<T, E>) -> Option<T> {
        match r {
            Ok(t) => Some(t),
            Err(e) => {
                self.bad("spurious_error", op, format!("a Vec/VecDeque would have carried this out; the container returned Err({:?})", e));
                None
            }
        }
    }
    /// compare a visible sequence with the model
    fn seq(&mut self, op: &str, what: &str, real: &[u64], model: &[u64]) -> bool {
        if real != model {
            self.bad("wrong_sequence", op, format!("{}: container holds {}, model holds {}", what, show(real), show(model)));
            return false;
        }
        true
    }
    fn same<T: PartialEq + std::fmt::Debug>(&mut self, class: &str, op: &str, what: &str, real: T, model: T) -> bool {
        if real != model {
            self.bad(class, op, format!("{}: container gave {:?}, model gives {:?}", what, real, model));
            return false;
        }
        true
    }
    /// conservation of `Tracked` instances: exactly `expected` are alive, none dropped twice
    fn ledger(&mut self, op: &str, expected: usize) -> bool {
        if let Some((serial, val)) = ledger_double_drop() {
            self.bad("double_drop", op, format!("element instance #{} (value {}) was dropped although it was not (or no longer) alive", serial, val));
            return false;
        }
        let live = ledger_live();
        if live > expected {
            self.bad("leak", op, format!("{} element instances alive, the model accounts for {} (alive values {})", live, expected, show(&ledger_live_vals())));
            return false;
        }
        if live < expected {
            self.bad("dropped_early", op, format!("{} element instances alive, the model still holds {} (alive values {})", live, expected, show(&ledger_live_vals())));
            return false;
        }
        true
    }
}

/// sequence + aliasing + conservation check over all live containers of a vector scenario
fn check_slices<E: Elem>(h: &mut H, op: &str, views: &[(&[E], &[u64])]) -> bool {
    let mut expected = 0;
    let mut serials: Vec<u64> = vec![];
    for (si, (real, model)) in views.iter().enumerate() {
        expected += model.len();
        let vals: Vec<u64> = real.iter().map(|e| e.val()).collect();
        if !h.seq(op, &format!("slot {}", si), &vals, model) {
            return false;
        }
        if E::TRACKED {
            serials.extend(real.iter().map(|e| e.serial()));
        }
    }
    if E::TRACKED {
        serials.sort_unstable();
        if serials.windows(2).any(|w| w[0] == w[1]) {
            h.bad("aliased_element", op, "the same element instance is reachable from two positions".to_string());
            return false;
        }
        return h.ledger(op, expected);
    }
    true
}

/// swarm configuration: every operation kind is switched off in a quarter of the runs
/// (kind 0, the plain push, always stays on), so that a frequent defect of one operation
/// does not mask the others.
fn swarm(cx: &mut Run, nk: u64) -> Vec<bool> {
    let cfg = cx.src.chan("cfg");
    (0..nk).map(|k| k != 0 && cfg.chance(1, 4)).collect()
}

fn planned_ops(cx: &mut Run, lo: u64, span: u64) -> Ops {
    let cfg = cx.src.chan("cfg");
    let n = lo + cfg.below(span);
    cx.src.ops("ops", n)
}

// ---------------------------------------------------------------------------------------
// FastVec

const FV_GENERIC: u64 = 17;

/// does an operation over `n` elements reach the 64-byte SIMD threshold of FastVec / MmapVec?
fn simd_sized<E>(n: usize) -> bool {
    std::mem::size_of::<E>() > 0 && !std::mem::needs_drop::<E>() && n * std::mem::size_of::<E>() >= 64
}

fn fastvec_new<E: Elem>(h: &mut H, o: [u64; 4], m: &mut Vec<u64>) -> Option<FastVec<E>> {
    m.clear();
    match o[1] % 3 {
        0 => {
            h.ev("new()".into());
            Some(FastVec::new())
        }
        1 => {
            let c = (o[2] % 9) as usize;
            h.ev(format!("with_capacity({})", c));
            let r = FastVec::with_capacity(c);
            h.must_ok("with_capacity", r)
        }
        _ => {
            let n = (o[2] % 6) as usize;
            let v = h.fresh();
            h.ev(format!("with_size({}, {})", n, v));
            m.resize(n, v);
            let r = FastVec::with_size(n, E::mk(v));
            h.must_ok("with_size", r)
        }
    }
}

fn fastvec_run<E: Elem>(cx: &mut Run) {
    let nk = if E::TRACKED { FV_GENERIC } else { FV_GENERIC + 3 };
    let off = swarm(cx, nk);
    let mut ops = planned_ops(cx, 4, if E::TRACKED { 28 } else { 40 });
    let big: u64 = if E::TRACKED { 7 } else { 20 };
    let mut h = H::new(cx, "FastVec");
    h.modulus = E::MODULUS;
    let mut slots: Vec<(FastVec<E>, Vec<u64>)> = vec![(FastVec::new(), vec![])];
    while let Some(o) = ops.next() {
        let k = o[0] % nk;
        if off[k as usize] {
            continue;
        }
        let s = (o[3] as usize) % slots.len();
        let len = slots[s].1.len();
        let cap_before = slots[s].0.capacity();
        let op: &'static str;
        {
            let (fv, m) = &mut slots[s];
            match k {
                0 | 1 => {
                    op = "push";
                    let v = h.fresh();
                    let r = fv.push(E::mk(v));
                    h.ev(format!("s{} push({}) -> {}", s, v, if r.is_ok() { "ok" } else { "err" }));
                    if h.must_ok(op, r).is_some() {
                        m.push(v);
                    }
                }
                2 => {
                    op = "pop";
                    let r = fv.pop().map(|e| e.val());
                    h.ev(format!("s{} pop() -> {:?}", s, r));
                    let e = m.pop();
                    h.same("wrong_value", op, "popped element", r, e);
                }
                3 => {
                    op = "insert";
                    let idx = (o[1] as usize) % (len + 2);
                    let v = h.fresh();
                    let r = fv.insert(idx, E::mk(v));
                    h.ev(format!("s{} insert({}, {}) -> {}", s, idx, v, if r.is_ok() { "ok" } else { "err" }));
                    if idx > len {
                        if r.is_ok() {
                            h.bad("oob_not_reported", op, format!("insert at index {} of a vector of length {} returned Ok", idx, len));
                        }
                        h.cell(op, "oob");
                    } else if h.must_ok(op, r).is_some() {
                        m.insert(idx, v);
                        if simd_sized::<E>(len - idx) {
                            h.cx.probe("fastvec_simd_move");
                        }
                    }
                }
                4 => {
                    op = "remove";
                    let idx = (o[1] as usize) % (len + 1);
                    let r = fv.remove(idx).map(|e| e.val());
                    h.ev(format!("s{} remove({}) -> {:?}", s, idx, r.as_ref().ok()));
                    if idx >= len {
                        if r.is_ok() {
                            h.bad("oob_not_reported", op, format!("remove at index {} of a vector of length {} returned Ok", idx, len));
                        }
                        h.cell(op, "oob");
                    } else if let Some(got) = h.must_ok(op, r) {
                        let e = m.remove(idx);
                        h.same("wrong_value", op, "removed element", got, e);
                        if simd_sized::<E>(len - idx - 1) {
                            h.cx.probe("fastvec_simd_move");
                        }
                    }
                }
                5 => {
                    op = "resize";
                    let n = E::size(o[1], 14);
                    let v = h.fresh();
                    if n > len && simd_sized::<E>(n - len) && std::mem::size_of::<E>() == 1 {
                        h.cx.probe("fastvec_simd_resize_fill");
                    }
                    let r = fv.resize(n, E::mk(v));
                    h.ev(format!("s{} resize({}, {}) -> {}", s, n, v, if r.is_ok() { "ok" } else { "err" }));
                    if h.must_ok(op, r).is_some() {
                        m.resize(n, v);
                    }
                }
                6 => {
                    op = "resize_with";
                    let n = E::size(o[1], 14);
                    let vals = h.fresh_n(n.saturating_sub(len));
                    let mut it = vals.clone().into_iter();
                    let r = fv.resize_with(n, || E::mk(it.next().unwrap_or(0)));
                    h.ev(format!("s{} resize_with({}, {:?}) -> {}", s, n, vals, if r.is_ok() { "ok" } else { "err" }));
                    if h.must_ok(op, r).is_some() {
                        m.truncate(n);
                        m.extend(vals);
                    }
                }
                7 => {
                    op = "extend";
                    let vals = h.fresh_n(E::size(o[1], big));
                    let items: Vec<E> = vals.iter().map(|&v| E::mk(v)).collect();
                    let r = fv.extend(items);
                    h.ev(format!("s{} extend({}) -> {}", s, show(&vals), if r.is_ok() { "ok" } else { "err" }));
                    if simd_sized::<E>(vals.len()) {
                        h.cx.probe("fastvec_simd_extend");
                    }
                    if h.must_ok(op, r).is_some() {
                        m.extend(vals);
                    }
                }
                8 => {
                    op = "clear";
                    fv.clear();
                    h.ev(format!("s{} clear()", s));
                    m.clear();
                }
                9 => {
                    op = "shrink_to_fit";
                    let r = fv.shrink_to_fit();
                    h.ev(format!("s{} shrink_to_fit() -> {}", s, if r.is_ok() { "ok" } else { "err" }));
                    h.must_ok(op, r);
                }
                10 => {
                    op = "reserve";
                    let n = (o[1] % 9) as usize;
                    let r = fv.reserve(n);
                    h.ev(format!("s{} reserve({}) -> {}", s, n, if r.is_ok() { "ok" } else { "err" }));
                    if h.must_ok(op, r).is_some() && fv.capacity() < len + n {
                        h.bad("capacity_too_small", op, format!("capacity {} after reserve({}) at length {}", fv.capacity(), n, len));
                    }
                }
                11 => {
                    op = "get";
                    let idx = (o[1] as usize) % (len + 2);
                    let r = fv.get(idx).map(|e| e.val());
                    h.ev(format!("s{} get({}) -> {:?}", s, idx, r));
                    let e = m.get(idx).copied();
                    if idx >= len && r.is_some() {
                        h.bad("oob_not_reported", op, format!("get({}) on length {} returned {:?}", idx, len, r));
                    } else {
                        h.same("wrong_value", op, "element", r, e);
                    }
                    let (f, l) = (fv.first().map(|e| e.val()), fv.last().map(|e| e.val()));
                    h.same("wrong_value", op, "first()/last()", (f, l), (m.first().copied(), m.last().copied()));
                    if idx < len {
                        // precondition of the unchecked accessor (index < len) holds
                        let u = unsafe { fv.get_unchecked(idx) }.val();
                        h.same("wrong_value", "get_unchecked", "element", u, m[idx]);
                    }
                }
                12 => {
                    op = "ensure_capacity";
                    // documented use only: a capacity that is not below the current length
                    let n = len + (o[1] % 5) as usize;
                    let r = fv.ensure_capacity(n);
                    h.ev(format!("s{} ensure_capacity({}) -> {}", s, n, if r.is_ok() { "ok" } else { "err" }));
                    h.must_ok(op, r);
                }
                13 => {
                    op = "get_mut";
                    if len > 0 {
                        let idx = (o[1] as usize) % len;
                        let v = h.fresh();
                        if o[2] % 3 == 0 {
                            // precondition (index < len) holds; the assignment drops the old element
                            *unsafe { fv.get_unchecked_mut(idx) } = E::mk(v);
                            h.ev(format!("s{} *get_unchecked_mut({}) = {}", s, idx, v));
                        } else {
                            fv[idx] = E::mk(v);
                            h.ev(format!("s{} [{}] = {}", s, idx, v));
                        }
                        m[idx] = v;
                    }
                }
                16 => {
                    // mutation through the slice views (DerefMut / as_mut_slice / iter_mut)
                    op = "slice_mut";
                    let how = o[1] % 5;
                    match how {
                        0 if len >= 2 => {
                            let (i, j) = ((o[2] as usize) % len, (o[2] as usize / 64) % len);
                            fv.as_mut_slice().swap(i, j);
                            m.swap(i, j);
                            h.ev(format!("s{} as_mut_slice().swap({}, {})", s, i, j));
                        }
                        1 => {
                            fv.reverse();
                            m.reverse();
                            h.ev(format!("s{} (deref_mut).reverse()", s));
                        }
                        2 if len >= 1 => {
                            let k = (o[2] as usize) % len;
                            fv.rotate_left(k);
                            m.rotate_left(k);
                            h.ev(format!("s{} (deref_mut).rotate_left({})", s, k));
                        }
                        3 => {
                            let n = ((o[2] % 3) as usize).min(len);
                            let vals = h.fresh_n(n);
                            for (e, &v) in fv.iter_mut().zip(vals.iter()) {
                                *e = E::mk(v);
                            }
                            m[..n].copy_from_slice(&vals);
                            h.ev(format!("s{} iter_mut() assigns {:?}", s, vals));
                        }
                        _ => {
                            let got: Vec<u64> = fv.iter().rev().map(|e| e.val()).collect();
                            let exp: Vec<u64> = m.iter().rev().copied().collect();
                            h.ev(format!("s{} iter().rev() -> {} elements", s, got.len()));
                            h.seq(op, "iter().rev()", &got, &exp);
                        }
                    }
                }
                14 | 15 => {
                    // handled below (needs the whole slot table)
                    op = if k == 14 { "clone" } else { "drop" };
                }
                _ => {
                    op = E::fastvec_copy_op(&mut h, k, o, s, fv, m);
                }
            }
        }
        if k == 14 && !h.failed() {
            let c = slots[s].0.clone();
            let eq = c == slots[s].0;
            let mc = slots[s].1.clone();
            h.ev(format!("s{} clone() -> len {} (== original: {})", s, c.len(), eq));
            if !eq {
                h.bad("wrong_sequence", "clone", "a fresh clone does not compare equal to its original".to_string());
            }
            if slots.len() == 2 {
                // the container the clone replaces is dropped first, under its own site
                slots.remove(1 - s);
                h.ev("drop the other container".into());
                if E::TRACKED && !h.ledger("drop", mc.len() * 2) {
                    break;
                }
            }
            slots.push((c, mc));
        }
        if k == 15 && !h.failed() {
            h.ev(format!("s{} drop container", s));
            let mut m = vec![];
            // the old container is dropped when the slot is overwritten
            slots[s] = (FastVec::new(), vec![]);
            if E::TRACKED && !h.ledger("drop", slots.iter().map(|x| x.1.len()).sum()) {
                break;
            }
            match fastvec_new::<E>(&mut h, o, &mut m) {
                Some(fv) => slots[s] = (fv, m),
                None => break,
            }
        }
        if h.failed() {
            break;
        }
        if slots[s].0.capacity() != cap_before && cap_before != 0 && slots[s].1.len() > 0 {
            h.cx.probe("reallocated_with_elements");
        }
        h.cell(op, "done");
        let views: Vec<(&[E], &[u64])> = slots.iter().map(|(c, m)| (c.as_slice(), m.as_slice())).collect();
        if !check_slices(&mut h, op, &views) {
            break;
        }
        let meta_ok = slots.iter().all(|(c, m)| c.len() == m.len() && c.is_empty() == m.is_empty() && c.capacity() >= m.len());
        if !meta_ok {
            h.bad("wrong_value", op, "len()/is_empty()/capacity() disagree with the model".to_string());
            break;
        }
        if slots.len() == 2 {
            // two live vectors (clone, then diverge): == must agree with the models
            let eq = slots[0].0 == slots[1].0;
            let meq = slots[0].1 == slots[1].1;
            if meq && simd_sized::<E>(slots[0].1.len()) {
                h.cx.probe("fastvec_simd_eq_equal");
            }
            if !meq && slots[0].1.len() == slots[1].1.len() && simd_sized::<E>(slots[0].1.len()) {
                h.cx.probe("fastvec_simd_eq_differs");
            }
            if eq != meq {
                h.bad("wrong_value", "eq", format!("vector == vector gives {}, the models {} and {} give {}", eq, show(&slots[0].1), show(&slots[1].1), meq));
                break;
            }
        }
    }
    let failed = h.failed();
    drop(slots);
    if !failed && E::TRACKED {
        h.ledger("drop", 0);
    }
    h.cx.probe_n("element_clones", ledger_clones());
    h.cx.nontrivial = h.cx.steps >= 3;
}

/// the Copy-only bulk operations of FastVec, for any plain element type
fn fastvec_copy_ops<E: Elem + Copy>(h: &mut H, k: u64, o: [u64; 4], s: usize, fv: &mut FastVec<E>, m: &mut Vec<u64>) -> &'static str {
    let len = m.len();
    match k - FV_GENERIC {
        0 => {
            let op = "fill_range_fast";
            let start = (o[1] as usize) % (len + 2);
            let end = (o[2] as usize) % (len + 3);
            let v = h.fresh();
            let r = fv.fill_range_fast(start, end, E::mk(v));
            h.ev(format!("s{} fill_range_fast({}, {}, {}) -> {}", s, start, end, v, if r.is_ok() { "ok" } else { "err" }));
            if start > end || end > len {
                if r.is_ok() {
                    h.bad("oob_not_reported", op, format!("range {}..{} on length {} returned Ok", start, end, len));
                }
                h.cell(op, "oob");
            } else if h.must_ok(op, r).is_some() {
                m[start..end].fill(v);
                if simd_sized::<E>(end - start) {
                    h.cx.probe("fastvec_simd_fill");
                }
            }
            op
        }
        1 => {
            let op = "extend_from_slice_fast";
            let vals = h.fresh_n(E::size(o[1], 20));
            let items: Vec<E> = vals.iter().map(|&v| E::mk(v)).collect();
            let r = fv.extend_from_slice_fast(&items);
            h.ev(format!("s{} extend_from_slice_fast({}) -> {}", s, show(&vals), if r.is_ok() { "ok" } else { "err" }));
            if h.must_ok(op, r).is_some() {
                m.extend(vals);
            }
            op
        }
        _ => {
            let op = "copy_from_slice_fast";
            // only sources that are not shorter than the current content (a shorter
            // source is outside the operations C10 quantifies over; see REPORT)
            let vals = h.fresh_n(len + E::size(o[1], 12));
            let items: Vec<E> = vals.iter().map(|&v| E::mk(v)).collect();
            let r = fv.copy_from_slice_fast(&items);
            h.ev(format!("s{} copy_from_slice_fast({}) -> {}", s, show(&vals), if r.is_ok() { "ok" } else { "err" }));
            if h.must_ok(op, r).is_some() && !vals.is_empty() {
                *m = vals;
            }
            op
        }
    }
}

impl Elem for u64 {
    const TRACKED: bool = false;
    const NAME: &'static str = "u64";
    fn mk(v: u64) -> u64 {
        v
    }
    fn val(&self) -> u64 {
        *self
    }
    fn serial(&self) -> u64 {
        0
    }
    fn fastvec_copy_op(h: &mut H, k: u64, o: [u64; 4], s: usize, fv: &mut FastVec<u64>, m: &mut Vec<u64>) -> &'static str {
        fastvec_copy_ops::<u64>(h, k, o, s, fv, m)
    }
    fn valvec_copy_op(h: &mut H, k: u64, o: [u64; 4], s: usize, vv: &mut ValVec32<u64>, m: &mut Vec<u64>) -> &'static str {
        match k - VV_GENERIC {
            0 => {
                let op = "extend_from_slice_copy";
                let vals = h.fresh_n((o[1] % 20) as usize);
                let r = vv.extend_from_slice_copy(&vals);
                h.ev(format!("s{} extend_from_slice_copy({:?}) -> {}", s, vals, if r.is_ok() { "ok" } else { "err" }));
                if h.must_ok(op, r).is_some() {
                    m.extend(vals);
                }
                op
            }
            2 => {
                let op = "unchecked_push_copy";
                if (m.len() as u32) < vv.capacity() {
                    // the documented precondition (len < capacity) holds
                    let v = h.fresh();
                    unsafe { vv.unchecked_push_copy(v) };
                    m.push(v);
                    h.ev(format!("s{} unchecked_push_copy({})", s, v));
                }
                op
            }
            _ => {
                let op = "push_n_copy";
                let n = (o[1] % 40) as usize;
                let v = h.fresh();
                let r = vv.push_n_copy(n as u32, v);
                h.ev(format!("s{} push_n_copy({}, {}) -> {}", s, n, v, if r.is_ok() { "ok" } else { "err" }));
                if n > 16 {
                    h.cx.probe("valvec32_doubling_fill");
                }
                if h.must_ok(op, r).is_some() {
                    m.extend(std::iter::repeat(v).take(n));
                }
                op
            }
        }
    }
}

/// One-byte elements: the only element size for which FastVec::resize / fill_range_fast and
/// MmapVec::fill_range_simd take their byte-fill paths, and 64 elements (not 8) are needed
/// to reach the 64-byte thresholds of the bulk operations.
impl Elem for u8 {
    const TRACKED: bool = false;
    const NAME: &'static str = "u8";
    const MODULUS: u64 = 250;
    fn size(x: u64, small: u64) -> usize {
        (match x % 4 {
            0 => (x / 4) % small,
            1 => 56 + (x / 4) % 16,
            2 => (x / 4) % 150,
            _ => 120 + (x / 4) % 16,
        }) as usize
    }
    fn mk(v: u64) -> u8 {
        v as u8
    }
    fn val(&self) -> u64 {
        *self as u64
    }
    fn serial(&self) -> u64 {
        0
    }
    fn fastvec_copy_op(h: &mut H, k: u64, o: [u64; 4], s: usize, fv: &mut FastVec<u8>, m: &mut Vec<u64>) -> &'static str {
        fastvec_copy_ops::<u8>(h, k, o, s, fv, m)
    }
}

// ---------------------------------------------------------------------------------------
// ValVec32

const VV_GENERIC: u64 = 16;

fn valvec_run<E: Elem>(cx: &mut Run) {
    let nk = if E::TRACKED { VV_GENERIC } else { VV_GENERIC + 3 };
    let off = swarm(cx, nk);
    let mut ops = planned_ops(cx, 4, if E::TRACKED { 28 } else { 36 });
    let big: u64 = if E::TRACKED { 7 } else { 20 };
    let mut h = H::new(cx, "ValVec32");
    let mut slots: Vec<(ValVec32<E>, Vec<u64>)> = vec![(ValVec32::new(), vec![])];
    while let Some(o) = ops.next() {
        let k = o[0] % nk;
        if off[k as usize] {
            continue;
        }
        let s = (o[3] as usize) % slots.len();
        let len = slots[s].1.len();
        let cap_before = slots[s].0.capacity();
        let op: &'static str;
        {
            let (vv, m) = &mut slots[s];
            match k {
                0 | 1 => {
                    op = "push";
                    let v = h.fresh();
                    let r = vv.push(E::mk(v));
                    h.ev(format!("s{} push({}) -> {}", s, v, if r.is_ok() { "ok" } else { "err" }));
                    if h.must_ok(op, r).is_some() {
                        m.push(v);
                    }
                }
                2 => {
                    op = "push_panic";
                    let v = h.fresh();
                    vv.push_panic(E::mk(v));
                    h.ev(format!("s{} push_panic({})", s, v));
                    m.push(v);
                }
                3 | 4 => {
                    op = "pop";
                    let r = vv.pop().map(|e| e.val());
                    h.ev(format!("s{} pop() -> {:?}", s, r));
                    let e = m.pop();
                    h.same("wrong_value", op, "popped element", r, e);
                }
                5 => {
                    op = "get";
                    let idx = (o[1] as usize) % (len + 2);
                    let r = vv.get(idx as u32).map(|e| e.val());
                    h.ev(format!("s{} get({}) -> {:?}", s, idx, r));
                    if idx >= len && r.is_some() {
                        h.bad("oob_not_reported", op, format!("get({}) on length {} returned {:?}", idx, len, r));
                    } else {
                        h.same("wrong_value", op, "element", r, m.get(idx).copied());
                    }
                    if idx < len {
                        let a = vv[idx].val();
                        let b = vv[idx as u32].val();
                        h.same("wrong_value", "index", "v[i]", (a, b), (m[idx], m[idx]));
                    }
                }
                6 => {
                    op = "get_mut";
                    let idx = (o[1] as usize) % (len + 2);
                    let v = h.fresh();
                    let hit = match vv.get_mut(idx as u32) {
                        Some(r) => {
                            *r = E::mk(v);
                            true
                        }
                        None => false,
                    };
                    h.ev(format!("s{} get_mut({}) -> {}", s, idx, if hit { format!("wrote {}", v) } else { "None".into() }));
                    if hit != (idx < len) {
                        h.bad("oob_not_reported", op, format!("get_mut({}) on length {} returned {}", idx, len, if hit { "Some" } else { "None" }));
                    } else if hit {
                        m[idx] = v;
                    }
                }
                7 => {
                    op = "set";
                    let idx = (o[1] as usize) % (len + 2);
                    let v = h.fresh();
                    let r = vv.set(idx as u32, E::mk(v));
                    h.ev(format!("s{} set({}, {}) -> {}", s, idx, v, if r.is_ok() { "ok" } else { "err" }));
                    if idx >= len {
                        if r.is_ok() {
                            h.bad("oob_not_reported", op, format!("set({}) on length {} returned Ok", idx, len));
                        }
                        h.cell(op, "oob");
                    } else if h.must_ok(op, r).is_some() {
                        m[idx] = v;
                    }
                }
                8 => {
                    op = "clear";
                    vv.clear();
                    h.ev(format!("s{} clear()", s));
                    m.clear();
                }
                9 => {
                    op = "extend_from_slice";
                    let vals = h.fresh_n((o[1] % big) as usize);
                    let items: Vec<E> = vals.iter().map(|&v| E::mk(v)).collect();
                    let r = vv.extend_from_slice(&items);
                    drop(items);
                    h.ev(format!("s{} extend_from_slice({:?}) -> {}", s, vals, if r.is_ok() { "ok" } else { "err" }));
                    if h.must_ok(op, r).is_some() {
                        m.extend(vals);
                    }
                }
                10 => {
                    op = "reserve";
                    let n = (o[1] % 9) as usize;
                    let r = vv.reserve(n as u32);
                    h.ev(format!("s{} reserve({}) -> {}", s, n, if r.is_ok() { "ok" } else { "err" }));
                    if h.must_ok(op, r).is_some() && (vv.capacity() as usize) < len + n {
                        h.bad("capacity_too_small", op, format!("capacity {} after reserve({}) at length {}", vv.capacity(), n, len));
                    }
                }
                11 => {
                    op = "iter";
                    let vals: Vec<u64> = vv.iter().map(|e| e.val()).collect();
                    let vals2: Vec<u64> = (&*vv).into_iter().map(|e| e.val()).collect();
                    h.ev(format!("s{} iter() -> {} elements", s, vals.len()));
                    h.seq(op, "iter()", &vals, m);
                    h.seq(op, "(&v).into_iter()", &vals2, m);
                }
                12 | 13 => {
                    op = if k == 12 { "clone" } else { "drop" };
                }
                14 => {
                    // mutation through the slice view, the mutable iterators and IndexMut
                    op = "slice_mut";
                    match o[1] % 6 {
                        0 if len >= 2 => {
                            let (i, j) = ((o[2] as usize) % len, (o[2] as usize / 64) % len);
                            vv.as_mut_slice().swap(i, j);
                            m.swap(i, j);
                            h.ev(format!("s{} as_mut_slice().swap({}, {})", s, i, j));
                        }
                        1 => {
                            vv.as_mut_slice().reverse();
                            m.reverse();
                            h.ev(format!("s{} as_mut_slice().reverse()", s));
                        }
                        2 => {
                            let n = ((o[2] % 3) as usize).min(len);
                            let vals = h.fresh_n(n);
                            for (e, &v) in vv.iter_mut().zip(vals.iter()) {
                                *e = E::mk(v);
                            }
                            m[..n].copy_from_slice(&vals);
                            h.ev(format!("s{} iter_mut() assigns {:?}", s, vals));
                        }
                        3 => {
                            let n = ((o[2] % 3) as usize).min(len);
                            let vals = h.fresh_n(n);
                            for (e, &v) in (&mut *vv).into_iter().rev().zip(vals.iter()) {
                                *e = E::mk(v);
                            }
                            for (i, &v) in vals.iter().enumerate() {
                                m[len - 1 - i] = v;
                            }
                            h.ev(format!("s{} (&mut v).into_iter().rev() assigns {:?}", s, vals));
                        }
                        4 if len >= 1 => {
                            let idx = (o[2] as usize) % len;
                            let v = h.fresh();
                            vv[idx] = E::mk(v);
                            m[idx] = v;
                            h.ev(format!("s{} v[{}usize] = {}", s, idx, v));
                        }
                        5 if len >= 1 => {
                            let idx = (o[2] as usize) % len;
                            let v = h.fresh();
                            vv[idx as u32] = E::mk(v);
                            m[idx] = v;
                            h.ev(format!("s{} v[{}u32] = {}", s, idx, v));
                        }
                        _ => {
                            let got: Vec<u64> = vv.iter().rev().map(|e| e.val()).collect();
                            let exp: Vec<u64> = m.iter().rev().copied().collect();
                            h.ev(format!("s{} iter().rev() -> {} elements", s, got.len()));
                            h.seq(op, "iter().rev()", &got, &exp);
                        }
                    }
                }
                15 => {
                    op = "unchecked_push";
                    if (len as u32) < vv.capacity() {
                        // the documented precondition (len < capacity) holds
                        let v = h.fresh();
                        unsafe { vv.unchecked_push(E::mk(v)) };
                        m.push(v);
                        h.ev(format!("s{} unchecked_push({})", s, v));
                    }
                }
                _ => {
                    op = E::valvec_copy_op(&mut h, k, o, s, vv, m);
                }
            }
        }
        if k == 12 && !h.failed() {
            let c = slots[s].0.clone();
            let eq = c == slots[s].0;
            let mc = slots[s].1.clone();
            h.ev(format!("s{} clone() -> len {} (== original: {})", s, c.len(), eq));
            if !eq {
                h.bad("wrong_sequence", "clone", "a fresh clone does not compare equal to its original".to_string());
            }
            if slots.len() == 2 {
                slots.remove(1 - s);
                h.ev("drop the other container".into());
                if E::TRACKED && !h.ledger("drop", mc.len() * 2) {
                    break;
                }
            }
            slots.push((c, mc));
        }
        if k == 13 && !h.failed() {
            h.ev(format!("s{} drop container", s));
            slots[s] = (ValVec32::new(), vec![]);
            if E::TRACKED && !h.ledger("drop", slots.iter().map(|x| x.1.len()).sum()) {
                break;
            }
            if o[1] % 2 == 1 {
                let c = (o[2] % 9) as u32;
                h.ev(format!("with_capacity({})", c));
                let r = ValVec32::with_capacity(c);
                match h.must_ok("with_capacity", r) {
                    Some(vv) => {
                        if vv.capacity() < c {
                            h.bad("capacity_too_small", "with_capacity", format!("capacity {} after with_capacity({})", vv.capacity(), c));
                        }
                        slots[s] = (vv, vec![]);
                    }
                    None => break,
                }
            } else {
                h.ev("new()".into());
            }
        }
        if h.failed() {
            break;
        }
        if slots[s].0.capacity() != cap_before && cap_before != 0 && slots[s].1.len() > 0 {
            h.cx.probe("reallocated_with_elements");
        }
        h.cell(op, "done");
        let views: Vec<(&[E], &[u64])> = slots.iter().map(|(c, m)| (c.as_slice(), m.as_slice())).collect();
        if !check_slices(&mut h, op, &views) {
            break;
        }
        let meta_ok = slots.iter().all(|(c, m)| {
            c.len() as usize == m.len() && c.len_usize() == m.len() && c.is_empty() == m.is_empty() && c.capacity_usize() >= m.len() && c.capacity_usize() == c.capacity() as usize
        });
        if !meta_ok {
            h.bad("wrong_value", op, "len()/len_usize()/is_empty()/capacity() disagree with the model".to_string());
            break;
        }
        if slots.len() == 2 {
            let eq = slots[0].0 == slots[1].0;
            let meq = slots[0].1 == slots[1].1;
            if eq != meq {
                h.bad("wrong_value", "eq", format!("vector == vector gives {}, the models {} and {} give {}", eq, show(&slots[0].1), show(&slots[1].1), meq));
                break;
            }
        }
    }
    let failed = h.failed();
    drop(slots);
    if !failed && E::TRACKED {
        h.ledger("drop", 0);
    }
    h.cx.probe_n("element_clones", ledger_clones());
    h.cx.nontrivial = h.cx.steps >= 3;
}

// ---------------------------------------------------------------------------------------
// CacheAlignedVec

fn cachevec_run(cx: &mut Run) {
    const NK: u64 = 12;
    let off = swarm(cx, NK);
    let mut ops = planned_ops(cx, 4, 28);
    let mut h = H::new(cx, "CacheAlignedVec");
    let mut cv: CacheAlignedVec<Tracked> = CacheAlignedVec::new();
    let mut m: Vec<u64> = vec![];
    while let Some(o) = ops.next() {
        let k = o[0] % NK;
        if off[k as usize] {
            continue;
        }
        let len = m.len();
        let cap_before = cv.capacity();
        let op: &'static str;
        match k {
            0 | 1 | 2 => {
                op = "push";
                let v = h.fresh();
                let r = cv.push(Tracked::new(v));
                h.ev(format!("push({}) -> {}", v, if r.is_ok() { "ok" } else { "err" }));
                if h.must_ok(op, r).is_some() {
                    m.push(v);
                }
            }
            3 | 4 => {
                op = "pop";
                let r = cv.pop().map(|e| e.val);
                h.ev(format!("pop() -> {:?}", r));
                let e = m.pop();
                h.same("wrong_value", op, "popped element", r, e);
            }
            5 => {
                op = "get";
                let idx = (o[1] as usize) % (len + 2);
                let r = cv.get(idx).map(|e| e.val);
                h.ev(format!("get({}) -> {:?}", idx, r));
                if idx >= len && r.is_some() {
                    h.bad("oob_not_reported", op, format!("get({}) on length {} returned {:?}", idx, len, r));
                } else {
                    h.same("wrong_value", op, "element", r, m.get(idx).copied());
                }
            }
            6 => {
                op = "get_mut";
                let idx = (o[1] as usize) % (len + 2);
                let v = h.fresh();
                let hit = match cv.get_mut(idx) {
                    Some(r) => {
                        *r = Tracked::new(v);
                        true
                    }
                    None => false,
                };
                h.ev(format!("get_mut({}) -> {}", idx, if hit { format!("wrote {}", v) } else { "None".into() }));
                if hit != (idx < len) {
                    h.bad("oob_not_reported", op, format!("get_mut({}) on length {} returned {}", idx, len, if hit { "Some" } else { "None" }));
                } else if hit {
                    m[idx] = v;
                }
            }
            7 => {
                op = "clear";
                cv.clear();
                h.ev("clear()".into());
                m.clear();
            }
            8 => {
                op = "truncate";
                let n = (o[1] as usize) % (len + 3);
                cv.truncate(n);
                h.ev(format!("truncate({})", n));
                m.truncate(n);
            }
            9 => {
                op = "reserve";
                let n = (o[1] % 9) as usize;
                let r = cv.reserve(n);
                h.ev(format!("reserve({}) -> {}", n, if r.is_ok() { "ok" } else { "err" }));
                if h.must_ok(op, r).is_some() && cv.capacity() < len + n {
                    h.bad("capacity_too_small", op, format!("capacity {} after reserve({}) at length {}", cv.capacity(), n, len));
                }
            }
            10 => {
                op = "as_mut_slice";
                match o[1] % 3 {
                    0 if len >= 2 => {
                        let (i, j) = ((o[2] as usize) % len, (o[2] as usize / 64) % len);
                        cv.as_mut_slice().swap(i, j);
                        m.swap(i, j);
                        h.ev(format!("as_mut_slice().swap({}, {})", i, j));
                    }
                    1 if len >= 1 => {
                        let idx = (o[2] as usize) % len;
                        let v = h.fresh();
                        let sl = cv.as_mut_slice();
                        if sl.len() == len {
                            sl[idx] = Tracked::new(v);
                            m[idx] = v;
                        }
                        h.ev(format!("as_mut_slice()[{}] = {}", idx, v));
                    }
                    _ => {
                        cv.as_mut_slice().reverse();
                        m.reverse();
                        h.ev("as_mut_slice().reverse()".into());
                    }
                }
            }
            _ => {
                op = "drop";
                h.ev("drop container".into());
                cv = CacheAlignedVec::new();
                m.clear();
                if !h.ledger("drop", 0) {
                    break;
                }
                match o[1] % 3 {
                    0 => h.ev("new()".into()),
                    1 => {
                        let c = (o[2] % 9) as usize;
                        h.ev(format!("with_capacity({})", c));
                        let r = CacheAlignedVec::with_capacity(c);
                        match h.must_ok("with_capacity", r) {
                            Some(x) => cv = x,
                            None => break,
                        }
                    }
                    _ => {
                        h.ev("with_numa_node(0)".into());
                        cv = CacheAlignedVec::with_numa_node(0);
                    }
                }
            }
        }
        if h.failed() {
            break;
        }
        if cv.capacity() != cap_before && cap_before != 0 && !m.is_empty() {
            h.cx.probe("reallocated_with_elements");
        }
        h.cell(op, "done");
        if !check_slices(&mut h, op, &[(cv.as_slice(), m.as_slice())]) {
            break;
        }
        if cv.len() != m.len() || cv.is_empty() != m.is_empty() || cv.capacity() < m.len() {
            h.bad("wrong_value", op, "len()/is_empty()/capacity() disagree with the model".to_string());
            break;
        }
    }
    let failed = h.failed();
    drop(cv);
    if !failed {
        h.ledger("drop", 0);
    }
    h.cx.nontrivial = h.cx.steps >= 3;
}

// ---------------------------------------------------------------------------------------
// BumpVec (several vectors carved out of one small arena)

/// An over-aligned plain element: the arena buffer itself is only 8-byte aligned, so a vector
/// of these needs padding that depends on what was carved out before it.
#[repr(align(32))]
#[derive(Clone, Copy, PartialEq, Debug)]
struct Wide(u64);

fn bumpvec_run(cx: &mut Run) {
    const NK: u64 = 14;
    let off = swarm(cx, NK);
    let arena_bytes = *cx.src.chan("cfg").pick(&[96usize, 192, 384, 768]);
    let mut ops = planned_ops(cx, 4, 30);
    let mut h = H::new(cx, "BumpVec");
    let arena = match BumpAllocator::new(arena_bytes) {
        Ok(a) => a,
        Err(e) => {
            h.bad("spurious_error", "BumpAllocator.new", format!("{:?}", e));
            return;
        }
    };
    // The arena's buffer is only 8-byte aligned, so how much padding an over-aligned vector
    // needs depends on the address the system allocator happened to return.  Such vectors are
    // therefore carved out of a second arena that is large enough never to be exhausted in a
    // run: what a run observes (ok / refused) then does not depend on addresses.
    let arena2 = match BumpAllocator::new(8192) {
        Ok(a) => a,
        Err(e) => {
            h.bad("spurious_error", "BumpAllocator.new", format!("{:?}", e));
            return;
        }
    };
    h.ev(format!("arena of {} bytes", arena_bytes));
    // (vector, model, capacity)
    let mut slots: Vec<Option<(BumpVec<'_, Tracked>, Vec<u64>, usize)>> = vec![None, None, None];
    // one vector of over-aligned elements, and odd-sized byte blocks (alignment 1) between the
    // vectors: (start, length, fill byte); they are read back after every step
    let mut wide: Option<(BumpVec<'_, Wide>, Vec<u64>, usize)> = None;
    let mut guards: Vec<(bool, std::ptr::NonNull<u8>, usize, u8)> = vec![];
    while let Some(o) = ops.next() {
        let k = o[0] % NK;
        if off[k as usize] {
            continue;
        }
        let s = (o[3] % 3) as usize;
        let op: &'static str;
        match k {
            0 | 9 => {
                op = "new_in";
                if slots[s].is_some() {
                    h.ev(format!("s{} drop vector", s));
                    slots[s] = None;
                }
                let cap = (o[1] % 7) as usize;
                let r = BumpVec::<Tracked>::new_in(&arena, cap);
                h.ev(format!("s{} new_in(arena, {}) -> {}", s, cap, if r.is_ok() { "ok" } else { "refused" }));
                match r {
                    Ok(v) => {
                        if cap == 0 {
                            h.bad("capacity_not_enforced", op, "a vector of capacity 0 was handed out although the constructor documents a refusal".to_string());
                        } else if v.capacity() != cap || v.len() != 0 {
                            h.bad("wrong_value", op, format!("new vector reports capacity {} len {} (asked for {})", v.capacity(), v.len(), cap));
                        }
                        slots[s] = Some((v, vec![], cap));
                    }
                    Err(_) => {
                        // capacity refusal: zero capacity or arena exhausted
                        h.cx.fault(if cap == 0 { "bumpvec_zero_capacity_refused" } else { "arena_exhausted" });
                    }
                }
            }
            1 | 2 | 3 | 4 => {
                op = "push";
                if let Some((v, m, cap)) = slots[s].as_mut() {
                    let x = h.fresh();
                    let r = v.push(Tracked::new(x));
                    h.ev(format!("s{} push({}) -> {}", s, x, if r.is_ok() { "ok" } else { "refused" }));
                    if m.len() >= *cap {
                        if r.is_ok() {
                            h.bad("capacity_not_enforced", op, format!("push accepted at length {} of capacity {}", m.len(), cap));
                        }
                        h.cx.fault("bumpvec_full");
                    } else if h.must_ok(op, r).is_some() {
                        m.push(x);
                    }
                }
            }
            5 | 6 => {
                op = "pop";
                if let Some((v, m, _)) = slots[s].as_mut() {
                    let r = v.pop().map(|e| e.val);
                    h.ev(format!("s{} pop() -> {:?}", s, r));
                    let e = m.pop();
                    h.same("wrong_value", op, "popped element", r, e);
                }
            }
            7 => {
                op = "as_mut_slice";
                if let Some((v, m, _)) = slots[s].as_mut() {
                    if !m.is_empty() {
                        let idx = (o[1] as usize) % m.len();
                        let x = h.fresh();
                        let sl = v.as_mut_slice();
                        if sl.len() == m.len() {
                            sl[idx] = Tracked::new(x);
                            m[idx] = x;
                        }
                        h.ev(format!("s{} as_mut_slice()[{}] = {}", s, idx, x));
                    }
                }
            }
            8 => {
                op = "drop";
                if slots[s].is_some() {
                    h.ev(format!("s{} drop vector", s));
                    slots[s] = None;
                }
                if o[2] % 3 == 0 && wide.is_some() {
                    h.ev("drop wide vector".into());
                    wide = None;
                }
                if slots.iter().all(|x| x.is_none()) && o[1] % 2 == 0 {
                    // no vector of this arena alive: the documented precondition of reset()
                    // holds (its byte blocks are given up with it)
                    guards.retain(|g| g.0);
                    unsafe { arena.reset() };
                    h.ev("arena.reset()".into());
                    h.cx.probe("arena_reset");
                }
            }
            10 => {
                op = "alloc_bytes";
                let n = 1 + (o[1] % 7) as usize;
                let fill = 0x80 | (h.fresh() as u8);
                let second = o[2] % 2 == 1;
                let r = if second { arena2.alloc_bytes(n, 1) } else { arena.alloc_bytes(n, 1) };
                h.ev(format!("{}.alloc_bytes({}, 1) -> {}", if second { "arena2" } else { "arena" }, n, if r.is_ok() { "ok" } else { "refused" }));
                match r {
                    Ok(p) => {
                        unsafe { std::ptr::write_bytes(p.as_ptr(), fill, n) };
                        guards.push((second, p, n, fill));
                        h.cx.probe("arena_odd_offset");
                    }
                    Err(_) if second => h.bad("spurious_error", op, format!("{} bytes refused by an arena of 8192 bytes that is far from full", n)),
                    Err(_) => h.cx.fault("arena_exhausted"),
                }
            }
            11 => {
                op = "new_in_wide";
                if wide.is_some() {
                    h.ev("drop wide vector".into());
                    wide = None;
                }
                let cap = 1 + (o[1] % 3) as usize;
                let r = BumpVec::<Wide>::new_in(&arena2, cap);
                h.ev(format!("wide = new_in(arena2, {}) -> {}", cap, if r.is_ok() { "ok" } else { "refused" }));
                if let Some(v) = h.must_ok(op, r) {
                    if v.capacity() != cap || v.len() != 0 {
                        h.bad("wrong_value", op, format!("new vector reports capacity {} len {} (asked for {})", v.capacity(), v.len(), cap));
                    }
                    wide = Some((v, vec![], cap));
                }
            }
            12 => {
                op = "push_wide";
                if let Some((v, m, cap)) = wide.as_mut() {
                    let x = h.fresh();
                    let r = v.push(Wide(x));
                    h.ev(format!("wide push({}) -> {}", x, if r.is_ok() { "ok" } else { "refused" }));
                    if m.len() >= *cap {
                        if r.is_ok() {
                            h.bad("capacity_not_enforced", op, format!("push accepted at length {} of capacity {}", m.len(), cap));
                        }
                        h.cx.fault("bumpvec_full");
                    } else if h.must_ok(op, r).is_some() {
                        m.push(x);
                    }
                }
            }
            _ => {
                op = "pop_wide";
                if let Some((v, m, _)) = wide.as_mut() {
                    let r = v.pop().map(|e| e.0);
                    h.ev(format!("wide pop() -> {:?}", r));
                    let e = m.pop();
                    h.same("wrong_value", op, "popped element", r, e);
                }
            }
        }
        if h.failed() {
            break;
        }
        h.cell(op, "done");
        let views: Vec<(&[Tracked], &[u64])> = slots.iter().flatten().map(|(v, m, _)| (v.as_slice(), m.as_slice())).collect();
        if !check_slices(&mut h, op, &views) {
            break;
        }
        let lens_ok = slots.iter().flatten().all(|(v, m, _)| v.len() == m.len() && v.is_empty() == m.is_empty());
        if !lens_ok {
            h.bad("wrong_value", op, "len()/is_empty() disagree with the model".to_string());
            break;
        }
        if let Some((v, m, _)) = wide.as_ref() {
            let got: Vec<u64> = v.as_slice().iter().map(|e| e.0).collect();
            if !h.seq(op, "wide vector", &got, m) {
                break;
            }
            if v.len() != m.len() || v.is_empty() != m.is_empty() {
                h.bad("wrong_value", op, "wide vector: len()/is_empty() disagree with the model".to_string());
                break;
            }
            if v.as_slice().as_ptr() as usize % std::mem::align_of::<Wide>() != 0 {
                h.bad("misaligned", "new_in", format!("the storage of a vector of {}-byte-aligned elements is not {}-byte aligned", std::mem::align_of::<Wide>(), std::mem::align_of::<Wide>()));
                break;
            }
        }
        if slots.iter().flatten().any(|(v, _, _)| v.as_slice().as_ptr() as usize % std::mem::align_of::<Tracked>() != 0) {
            h.bad("misaligned", "new_in", "the storage of a vector is not aligned for its element type".to_string());
            break;
        }
        // the byte blocks carved out between the vectors still hold what was written into them
        let damaged = guards.iter().position(|&(_, p, n, fill)| (0..n).any(|i| unsafe { *p.as_ptr().add(i) } != fill));
        if let Some(g) = damaged {
            h.bad("overlap", "alloc_bytes", format!("byte block #{} ({} bytes) handed out by the arena was overwritten through a vector carved out of the same arena", g, guards[g].2));
            break;
        }
    }
    let failed = h.failed();
    drop(wide);
    drop(slots);
    if !failed {
        h.ledger("drop", 0);
    }
    h.cx.nontrivial = h.cx.steps >= 3;
}

// ---------------------------------------------------------------------------------------
// FixedCircularQueue

/// what `{:?}` prints for a std sequence of `Tracked` holding these values
fn debug_text<'x>(vals: impl Iterator<Item = &'x u64>) -> String {
    let v: Vec<String> = vals.map(|x| format!("T{}", x)).collect();
    format!("[{}]", v.join(", "))
}

fn fixed_queue_run<const N: usize>(h: &mut H, ops: &mut Ops, off: &[bool], nk: u64, observe: bool) {
    let mut q: FixedCircularQueue<Tracked, N> = FixedCircularQueue::new();
    let mut m: VecDeque<u64> = VecDeque::new();
    h.ev(format!("FixedCircularQueue<_, {}>::new()", N));
    while let Some(o) = ops.next() {
        let k = o[0] % nk;
        if off[k as usize] {
            continue;
        }
        let op: &'static str;
        match k {
            0 | 1 | 2 | 3 => {
                op = if k == 3 { "push" } else { "push_back" };
                let v = h.fresh();
                let r = if k == 3 { q.push(Tracked::new(v)) } else { q.push_back(Tracked::new(v)) };
                h.ev(format!("{}({}) -> {}", op, v, if r.is_ok() { "ok" } else { "refused" }));
                if m.len() >= N {
                    if r.is_ok() {
                        h.bad("capacity_not_enforced", op, format!("push accepted at length {} of a queue of capacity {}", m.len(), N));
                    }
                    h.cx.fault("fixed_queue_full");
                } else if h.must_ok(op, r).is_some() {
                    m.push_back(v);
                }
            }
            4 | 5 | 6 => {
                op = if k == 6 { "pop" } else { "pop_front" };
                let r = if k == 6 { q.pop() } else { q.pop_front() }.map(|e| e.val);
                h.ev(format!("{}() -> {:?}", op, r));
                let e = m.pop_front();
                h.same("wrong_value", op, "popped element", r, e);
            }
            7 => {
                op = "clear";
                q.clear();
                h.ev("clear()".into());
                m.clear();
            }
            _ => {
                op = "drop";
                h.ev("drop queue, new()".into());
                q = FixedCircularQueue::default();
                m.clear();
            }
        }
        if h.failed() {
            break;
        }
        h.cell(op, "done");
        let obs = (q.len(), q.is_empty(), q.is_full(), q.front().map(|e| e.val), q.back().map(|e| e.val), q.capacity());
        let exp = (m.len(), m.is_empty(), m.len() == N, m.front().copied(), m.back().copied(), N);
        if !h.same("wrong_sequence", op, "(len, is_empty, is_full, front, back, capacity)", obs, exp) {
            break;
        }
        if !h.ledger(op, m.len()) {
            break;
        }
        if observe {
            // the queue has no iterator: its Debug output is the only way to look at the whole
            // sequence without taking it apart
            let got = format!("{:?}", q);
            let want = debug_text(m.iter());
            if got != want {
                // the site says whether the queue was completely full (head == tail with
                // elements inside), so that a known defect of that state cannot cover another one
                let site = if m.len() == N { "debug/full" } else { "debug" };
                h.bad("wrong_sequence", site, format!("{{:?}} of a queue holding {} of {} elements prints {}, a VecDeque holding the same elements prints {}", m.len(), N, got, want));
                break;
            }
        }
    }
    if !h.failed() {
        // read everything out
        let mut rest = vec![];
        while let Some(e) = q.pop_front() {
            rest.push(e.val);
            if rest.len() > N + 2 {
                break;
            }
        }
        let exp: Vec<u64> = m.iter().copied().collect();
        h.seq("pop_front", "drained content", &rest, &exp);
    }
    let failed = h.failed();
    drop(q);
    if !failed {
        h.ledger("drop", 0);
    }
}

fn fixed_queue(cx: &mut Run, observe: bool) {
    const NK: u64 = 9;
    let off = swarm(cx, NK);
    let n = *cx.src.chan("cfg").pick(&[1usize, 2, 3, 4, 5, 8]);
    let mut ops = planned_ops(cx, 4, 30);
    let mut h = H::new(cx, "FixedCircularQueue");
    match n {
        1 => fixed_queue_run::<1>(&mut h, &mut ops, &off, NK, observe),
        2 => fixed_queue_run::<2>(&mut h, &mut ops, &off, NK, observe),
        3 => fixed_queue_run::<3>(&mut h, &mut ops, &off, NK, observe),
        4 => fixed_queue_run::<4>(&mut h, &mut ops, &off, NK, observe),
        5 => fixed_queue_run::<5>(&mut h, &mut ops, &off, NK, observe),
        _ => fixed_queue_run::<8>(&mut h, &mut ops, &off, NK, observe),
    }
    h.cx.nontrivial = h.cx.steps >= 3;
}

// ---------------------------------------------------------------------------------------
// AutoGrowCircularQueue

fn autogrow_new(h: &mut H, o: [u64; 4]) -> AutoGrowCircularQueue<Tracked> {
    if o[1] % 3 == 0 {
        if o[2] % 2 == 1 {
            h.ev("default()".into());
            return AutoGrowCircularQueue::default();
        }
        h.ev("new()".into());
        AutoGrowCircularQueue::new()
    } else {
        let c = (o[2] % 10) as usize;
        h.ev(format!("with_capacity({})", c));
        AutoGrowCircularQueue::with_capacity(c)
    }
}

fn autogrow_run(cx: &mut Run) {
    const NK: u64 = 14;
    let off = swarm(cx, NK);
    let first = {
        let cfg = cx.src.chan("cfg");
        [0, cfg.below(3), cfg.below(10), 0]
    };
    let mut ops = planned_ops(cx, 4, 32);
    let mut h = H::new(cx, "AutoGrowCircularQueue");
    let q0 = autogrow_new(&mut h, first);
    let mut slots: Vec<(AutoGrowCircularQueue<Tracked>, VecDeque<u64>)> = vec![(q0, VecDeque::new())];
    while let Some(o) = ops.next() {
        let k = o[0] % NK;
        if off[k as usize] {
            continue;
        }
        let s = (o[3] as usize) % slots.len();
        let cap_before = slots[s].0.capacity();
        let stats_before = slots[s].0.performance_stats();
        let wrapped_before = stats_before.length > 0 && stats_before.tail_index <= stats_before.head_index;
        let op: &'static str;
        {
            let (q, m) = &mut slots[s];
            match k {
                0 | 1 | 2 => {
                    op = "push_back";
                    let v = h.fresh();
                    let r = if k == 2 { q.push(Tracked::new(v)) } else { q.push_back(Tracked::new(v)) };
                    h.ev(format!("s{} push_back({}) -> {}", s, v, if r.is_ok() { "ok" } else { "err" }));
                    if h.must_ok(op, r).is_some() {
                        m.push_back(v);
                    }
                }
                3 | 4 | 5 => {
                    op = "pop_front";
                    let r = if k == 5 { q.pop() } else { q.pop_front() }.map(|e| e.val);
                    h.ev(format!("s{} pop_front() -> {:?}", s, r));
                    let e = m.pop_front();
                    h.same("wrong_value", op, "popped element", r, e);
                }
                6 => {
                    op = "clear";
                    q.clear();
                    h.ev(format!("s{} clear()", s));
                    m.clear();
                }
                7 => {
                    op = "push_bulk";
                    // now and then a slice several times the capacity (more than one doubling)
                    let n = if o[2] % 8 == 0 { o[1] % 40 } else { o[1] % 7 };
                    let vals = h.fresh_n(n as usize);
                    let items: Vec<Tracked> = vals.iter().map(|&v| Tracked::new(v)).collect();
                    let r = q.push_bulk(&items);
                    drop(items);
                    h.ev(format!("s{} push_bulk({}) -> {:?}", s, show(&vals), r.as_ref().ok()));
                    if let Some(n) = h.must_ok(op, r) {
                        if n != vals.len() {
                            h.bad("wrong_value", op, format!("reported {} pushed of {}", n, vals.len()));
                        }
                        m.extend(vals);
                    }
                }
                8 => {
                    op = "pop_bulk";
                    let want = (o[1] % 7) as usize;
                    // the output buffer holds placeholders that pop_bulk overwrites (and thereby drops)
                    let mut out: Vec<Tracked> = (0..want).map(|_| Tracked::new(0)).collect();
                    let n = q.pop_bulk(&mut out);
                    let got: Vec<u64> = out.iter().take(n.min(want)).map(|e| e.val).collect();
                    drop(out);
                    h.ev(format!("s{} pop_bulk(buffer of {}) -> {} {:?}", s, want, n, got));
                    let exp_n = want.min(m.len());
                    let exp: Vec<u64> = m.drain(..exp_n).collect();
                    if h.same("wrong_value", op, "number popped", n, exp_n) {
                        h.seq(op, "popped elements", &got, &exp);
                    }
                }
                9 => {
                    op = "reserve";
                    let n = (o[1] % 10) as usize;
                    let r = q.reserve(n);
                    h.ev(format!("s{} reserve({}) -> {}", s, n, if r.is_ok() { "ok" } else { "err" }));
                    if h.must_ok(op, r).is_some() && q.capacity() < m.len() + n {
                        h.bad("capacity_too_small", op, format!("capacity {} after reserve({}) at length {}", q.capacity(), n, m.len()));
                    }
                }
                13 => {
                    op = "debug";
                    let got = format!("{:?}", q);
                    let want = debug_text(m.iter());
                    h.ev(format!("s{} {{:?}} -> {} characters", s, got.len()));
                    if got != want {
                        h.bad("wrong_sequence", op, format!("{{:?}} prints {}, a VecDeque holding the same elements prints {}", got, want));
                    }
                }
                _ => {
                    op = if k == 10 || k == 11 { "clone" } else { "drop" };
                }
            }
        }
        if (k == 10 || k == 11) && !h.failed() {
            let c = slots[s].0.clone();
            let eq = c == slots[s].0;
            let mc = slots[s].1.clone();
            h.ev(format!("s{} clone() -> len {} (== original: {})", s, c.len(), eq));
            if c.len() != mc.len() {
                h.bad("wrong_sequence", "clone", format!("clone of a queue holding {} elements holds {}", mc.len(), c.len()));
            } else if !eq {
                h.bad("wrong_sequence", "clone", "a fresh clone does not compare equal to its original".to_string());
            }
            if !h.failed() && slots.len() == 2 {
                slots.remove(1 - s);
                h.ev("drop the other queue".into());
                if !h.ledger("drop", mc.len() * 2) {
                    break;
                }
            }
            slots.push((c, mc));
        }
        if k == 12 && !h.failed() {
            h.ev(format!("s{} drop queue", s));
            slots[s] = (AutoGrowCircularQueue::with_capacity(1), VecDeque::new());
            if !h.ledger("drop", slots.iter().map(|x| x.1.len()).sum()) {
                break;
            }
            slots[s].0 = autogrow_new(&mut h, o);
        }
        if h.failed() {
            break;
        }
        if slots[s].0.capacity() != cap_before && !slots[s].1.is_empty() {
            h.cx.probe(if wrapped_before { "grew_while_wrapped" } else { "grew_while_contiguous" });
        }
        let st = slots[s].0.performance_stats();
        if st.length == st.capacity {
            h.cx.probe("ring_completely_full");
        }
        h.cell(op, "done");
        let mut ok = true;
        for (si, (q, m)) in slots.iter().enumerate() {
            let obs = (q.len(), q.is_empty(), q.front().map(|e| e.val), q.back().map(|e| e.val));
            let exp = (m.len(), m.is_empty(), m.front().copied(), m.back().copied());
            if obs != exp {
                h.bad("wrong_sequence", op, format!("slot {}: (len, is_empty, front, back) = {:?}, VecDeque model gives {:?}", si, obs, exp));
                ok = false;
                break;
            }
        }
        if !ok {
            break;
        }
        if slots.len() == 2 {
            let eq = slots[0].0 == slots[1].0;
            if eq != (slots[0].1 == slots[1].1) {
                h.bad("wrong_sequence", "eq", format!("queue == queue gives {}, the models give {}", eq, !eq));
                break;
            }
        }
        if !h.ledger(op, slots.iter().map(|x| x.1.len()).sum()) {
            break;
        }
    }
    if !h.failed() {
        // read everything out of every queue
        for (si, (q, m)) in slots.iter_mut().enumerate() {
            let mut rest = vec![];
            while let Some(e) = q.pop_front() {
                rest.push(e.val);
                if rest.len() > m.len() + 2 {
                    break;
                }
            }
            let exp: Vec<u64> = m.iter().copied().collect();
            m.clear();
            if !h.seq("pop_front", &format!("slot {} drained content", si), &rest, &exp) {
                break;
            }
        }
    }
    let failed = h.failed();
    drop(slots);
    if !failed {
        h.ledger("drop", 0);
    }
    h.cx.probe_n("element_clones", ledger_clones());
    h.cx.nontrivial = h.cx.steps >= 3;
}

// ---------------------------------------------------------------------------------------
// MmapVec<u64> (scratch files; names never enter the event trace)

struct ScratchDir(PathBuf);

impl ScratchDir {
    fn new() -> ScratchDir {
        let base = if std::path::Path::new("/dev/shm").is_dir() { PathBuf::from("/dev/shm") } else { std::env::temp_dir() };
        let d = base.join(format!("zsim-c10-{}", std::process::id()));
        let _ = std::fs::remove_dir_all(&d);
        let _ = std::fs::create_dir_all(&d);
        ScratchDir(d)
    }
    fn file(&self, n: usize) -> PathBuf {
        self.0.join(format!("v{}.dat", n))
    }
}

impl Drop for ScratchDir {
    fn drop(&mut self) {
        let _ = std::fs::remove_dir_all(&self.0);
    }
}

fn mmap_cfg(initial_capacity: usize, growth_factor: f64, sync_on_write: bool, read_only: bool) -> MmapVecConfig {
    let mut c = MmapVecConfig::default();
    c.initial_capacity = initial_capacity;
    c.growth_factor = growth_factor;
    c.sync_on_write = sync_on_write;
    c.read_only = read_only;
    c
}

fn mmapvec_run<E: Elem + Copy + std::fmt::Debug>(cx: &mut Run) {
    const NK: u64 = 22;
    let off = swarm(cx, NK);
    let (cap0, growth, sow) = {
        let cfg = cx.src.chan("cfg");
        (cfg.below(9) as usize, *cfg.pick(&[1.618f64, 1.5, 2.0, 1.0]), cfg.chance(1, 4))
    };
    let mut ops = planned_ops(cx, 4, 30);
    let mut h = H::new(cx, "MmapVec");
    h.modulus = E::MODULUS;
    let esz = std::mem::size_of::<E>();
    let dir = ScratchDir::new();
    h.ev(format!("create(initial_capacity={}, growth_factor={}, sync_on_write={})", cap0, growth, sow));
    let first = MmapVec::<E>::create(dir.file(0), mmap_cfg(cap0, growth, sow, false));
    let Some(first) = h.must_ok("create", first) else { return };
    let mut slots: Vec<(MmapVec<E>, Vec<u64>)> = vec![(first, vec![])];
    while let Some(o) = ops.next() {
        let k = o[0] % NK;
        if off[k as usize] {
            continue;
        }
        let s = (o[3] as usize) % slots.len();
        let len = slots[s].1.len();
        let cap_before = slots[s].0.capacity();
        let op: &'static str;
        {
            let (v, m) = &mut slots[s];
            match k {
                0 | 1 | 2 => {
                    op = "push";
                    let x = h.fresh();
                    let r = v.push(E::mk(x));
                    h.ev(format!("s{} push({}) -> {}", s, x, if r.is_ok() { "ok" } else { "err" }));
                    if h.must_ok(op, r).is_some() {
                        m.push(x);
                    }
                }
                3 => {
                    op = "pop";
                    let r = v.pop().map(|e| e.val());
                    h.ev(format!("s{} pop() -> {:?}", s, r));
                    let e = m.pop();
                    h.same("wrong_value", op, "popped element", r, e);
                }
                4 => {
                    op = "get";
                    let idx = (o[1] as usize) % (len + 2);
                    let r = v.get(idx).map(|e| e.val());
                    h.ev(format!("s{} get({}) -> {:?}", s, idx, r));
                    if idx >= len && r.is_some() {
                        h.bad("oob_not_reported", op, format!("get({}) on length {} returned {:?}", idx, len, r));
                    } else {
                        h.same("wrong_value", op, "element", r, m.get(idx).copied());
                    }
                }
                5 => {
                    op = "get_mut";
                    let idx = (o[1] as usize) % (len + 2);
                    let x = h.fresh();
                    let hit = match v.get_mut(idx) {
                        Some(r) => {
                            *r = E::mk(x);
                            true
                        }
                        None => false,
                    };
                    h.ev(format!("s{} get_mut({}) -> {}", s, idx, if hit { format!("wrote {}", x) } else { "None".into() }));
                    if hit != (idx < len) {
                        h.bad("oob_not_reported", op, format!("get_mut({}) on length {} returned {}", idx, len, if hit { "Some" } else { "None" }));
                    } else if hit {
                        m[idx] = x;
                    }
                }
                6 => {
                    op = "clear";
                    let r = v.clear();
                    h.ev(format!("s{} clear() -> {}", s, if r.is_ok() { "ok" } else { "err" }));
                    if h.must_ok(op, r).is_some() {
                        m.clear();
                    }
                }
                7 => {
                    op = "reserve";
                    let n = (o[1] % 12) as usize;
                    let r = v.reserve(n);
                    h.ev(format!("s{} reserve({}) -> {}", s, n, if r.is_ok() { "ok" } else { "err" }));
                    if h.must_ok(op, r).is_some() && v.capacity() < len + n {
                        h.bad("capacity_too_small", op, format!("capacity {} after reserve({}) at length {}", v.capacity(), n, len));
                    }
                }
                8 => {
                    op = "shrink_to_fit";
                    let r = v.shrink_to_fit();
                    h.ev(format!("s{} shrink_to_fit() -> {}", s, if r.is_ok() { "ok" } else { "err" }));
                    h.must_ok(op, r);
                }
                9 => {
                    op = "extend";
                    let vals = h.fresh_n(E::size(o[1], 12));
                    let items: Vec<E> = vals.iter().map(|&x| E::mk(x)).collect();
                    let r = if o[2] % 2 == 0 { v.extend(items) } else { v.extend(items.into_iter().filter(|_| true)) };
                    h.ev(format!("s{} extend({}) -> {}", s, show(&vals), if r.is_ok() { "ok" } else { "err" }));
                    if h.must_ok(op, r).is_some() {
                        m.extend(vals);
                    }
                }
                10 => {
                    op = "truncate";
                    let n = (o[1] as usize) % (len + 3);
                    let r = v.truncate(n);
                    h.ev(format!("s{} truncate({}) -> {}", s, n, if r.is_ok() { "ok" } else { "err" }));
                    if h.must_ok(op, r).is_some() {
                        m.truncate(n);
                    }
                }
                11 => {
                    op = "resize";
                    let n = E::size(o[1], 20);
                    let x = h.fresh();
                    let r = v.resize(n, E::mk(x));
                    h.ev(format!("s{} resize({}, {}) -> {}", s, n, x, if r.is_ok() { "ok" } else { "err" }));
                    if h.must_ok(op, r).is_some() {
                        m.resize(n, x);
                    }
                }
                12 => {
                    op = "push_bulk_simd";
                    let vals = h.fresh_n(E::size(o[1], 20));
                    let items: Vec<E> = vals.iter().map(|&x| E::mk(x)).collect();
                    let r = v.push_bulk_simd(&items);
                    h.ev(format!("s{} push_bulk_simd({}) -> {}", s, show(&vals), if r.is_ok() { "ok" } else { "err" }));
                    if simd_sized::<E>(vals.len()) {
                        h.cx.probe("mmapvec_simd_copy");
                    }
                    if h.must_ok(op, r).is_some() {
                        m.extend(vals);
                    }
                }
                13 => {
                    op = "pop_bulk_simd";
                    let n = (o[1] as usize) % (len + 2);
                    let r = v.pop_bulk_simd(n).map(|got| got.iter().map(|e| e.val()).collect::<Vec<u64>>());
                    h.ev(format!("s{} pop_bulk_simd({}) -> {:?}", s, n, r.as_ref().ok().map(|g| show(g))));
                    if n <= len && simd_sized::<E>(n) {
                        h.cx.probe("mmapvec_simd_pop");
                    }
                    if n > len {
                        // more than there is: refusal (Err) is the reported outcome
                        if r.is_ok() {
                            h.bad("oob_not_reported", op, format!("pop_bulk_simd({}) on length {} returned Ok", n, len));
                        }
                        h.cell(op, "oob");
                    } else if let Some(got) = h.must_ok(op, r) {
                        let exp = m.split_off(len - n);
                        h.seq(op, "popped elements", &got, &exp);
                    }
                }
                14 => {
                    op = "fill_range_simd";
                    let start = (o[1] as usize) % (len + 2) / (1 + (o[3] as usize / 2) % 3);
                    let end = (o[2] as usize) % (len + 3);
                    let x = h.fresh();
                    let r = v.fill_range_simd(start..end, E::mk(x));
                    h.ev(format!("s{} fill_range_simd({}..{}, {}) -> {}", s, start, end, x, if r.is_ok() { "ok" } else { "err" }));
                    if end > len {
                        if r.is_ok() {
                            h.bad("oob_not_reported", op, format!("range {}..{} on length {} returned Ok", start, end, len));
                        }
                        h.cell(op, "oob");
                    } else if start >= end {
                        // empty range: nothing to do, Ok or Err both leave the content alone
                    } else if h.must_ok(op, r).is_some() {
                        m[start..end].fill(x);
                        if esz == 1 && end - start >= 64 {
                            h.cx.probe("mmapvec_simd_byte_fill");
                        }
                    }
                }
                15 => {
                    op = "iter";
                    let vals: Vec<u64> = (&*v).into_iter().map(|e| e.val()).collect();
                    h.ev(format!("s{} iterate -> {} elements", s, vals.len()));
                    h.seq(op, "(&v).into_iter()", &vals, m);
                    // the iterator's own bookkeeping after a partial walk
                    let mut it = (&*v).into_iter();
                    let skip = (o[1] as usize) % (len + 1);
                    for _ in 0..skip {
                        it.next();
                    }
                    h.same("wrong_value", op, "remaining length of a partly consumed iterator (len(), size_hint())", (it.len(), it.size_hint()), (len - skip, (len - skip, Some(len - skip))));
                    // statistics that restate the sequence's size
                    let st = v.stats();
                    h.same("wrong_value", "stats", "stats().(len, capacity, element_size)", (st.len, st.capacity, st.element_size), (len, v.capacity(), esz));
                }
                20 => {
                    op = "as_mut_slice";
                    match o[1] % 3 {
                        0 if len >= 2 => {
                            let (i, j) = ((o[2] as usize) % len, (o[2] as usize / 64) % len);
                            v.as_mut_slice().swap(i, j);
                            m.swap(i, j);
                            h.ev(format!("s{} as_mut_slice().swap({}, {})", s, i, j));
                        }
                        1 if len >= 1 => {
                            let idx = (o[2] as usize) % len;
                            let x = h.fresh();
                            let sl = v.as_mut_slice();
                            if sl.len() == len {
                                sl[idx] = E::mk(x);
                                m[idx] = x;
                            }
                            h.ev(format!("s{} as_mut_slice()[{}] = {}", s, idx, x));
                        }
                        _ => {
                            v.as_mut_slice().reverse();
                            m.reverse();
                            h.ev(format!("s{} as_mut_slice().reverse()", s));
                        }
                    }
                }
                21 => {
                    // continued use across a sync(): nothing visible changes
                    op = "sync";
                    let r = v.sync();
                    h.ev(format!("s{} sync() -> {}", s, if r.is_ok() { "ok" } else { "err" }));
                    h.must_ok(op, r);
                }
                _ => {
                    op = match k {
                        16 => "copy_from_simd",
                        17 => "compare_range_simd",
                        18 => "reopen",
                        _ => "reopen_read_only",
                    };
                }
            }
        }
        if (k == 16 || k == 17) && !h.failed() {
            if slots.len() == 1 {
                // configuration of the second vector: hand-made, a builder product or a preset
                let (cfg2, what) = match o[2] % 4 {
                    0 => (MmapVecConfig::builder().with_initial_capacity((o[1] % 5) as usize).with_growth_factor(growth).with_sync_on_write(sow).build(), format!("builder(initial_capacity={})", o[1] % 5)),
                    1 => (MmapVecConfig::memory_optimized(), "memory_optimized()".to_string()),
                    _ => (mmap_cfg((o[1] % 5) as usize, growth, false, false), format!("initial_capacity={}", o[1] % 5)),
                };
                let c = MmapVec::<E>::create(dir.file(1), cfg2);
                h.ev(format!("create second vector ({})", what));
                match h.must_ok("create", c) {
                    Some(mut c) => {
                        let mut mc = vec![];
                        if o[2] % 8 >= 4 {
                            // it starts as a copy of the first one, so the two share content
                            // (later steps change one element at a time)
                            let r = c.copy_from_simd(&slots[0].0);
                            h.ev(format!("s1 copy_from_simd(s0) -> {}", if r.is_ok() { "ok" } else { "err" }));
                            if h.must_ok("copy_from_simd", r).is_none() {
                                break;
                            }
                            mc = slots[0].1.clone();
                        }
                        slots.push((c, mc));
                    }
                    None => break,
                }
            }
            let other = 1 - s;
            let (a, b) = if s == 0 {
                let (x, y) = slots.split_at_mut(1);
                (&mut x[0], &mut y[0])
            } else {
                let (x, y) = slots.split_at_mut(1);
                (&mut y[0], &mut x[0])
            };
            if k == 16 {
                let r = a.0.copy_from_simd(&b.0);
                h.ev(format!("s{} copy_from_simd(s{}) -> {}", s, other, if r.is_ok() { "ok" } else { "err" }));
                if h.must_ok(op, r).is_some() {
                    a.1 = b.1.clone();
                }
            } else {
                let len = a.1.len();
                // a third of the comparisons cover as much as both vectors hold
                let (start, end) = if o[1] % 3 == 0 { (0, len.min(b.1.len())) } else { ((o[1] as usize) % (len + 2), (o[2] as usize) % (len + 3)) };
                let r = a.0.compare_range_simd(start..end, &b.0);
                h.ev(format!("s{} compare_range_simd({}..{}, s{}) -> {:?}", s, start, end, other, r.as_ref().ok()));
                let n = end.saturating_sub(start);
                if end > len || n > b.1.len() {
                    if r.is_ok() && end > len {
                        h.bad("oob_not_reported", op, format!("range {}..{} on length {} returned Ok", start, end, len));
                    }
                } else if let Some(got) = h.must_ok(op, r) {
                    let exp = n == 0 || a.1[start..end] == b.1[..n];
                    if simd_sized::<E>(n) {
                        h.cx.probe(if exp { "mmapvec_simd_compare_equal" } else { "mmapvec_simd_compare_differs" });
                    }
                    h.same("wrong_value", op, "range equality", got, exp);
                }
            }
        }
        if (k == 18 || k == 19) && !h.failed() {
            // explicit sync, close, open again: the content must be what was written
            let r = slots[s].0.sync();
            h.ev(format!("s{} sync() -> {}", s, if r.is_ok() { "ok" } else { "err" }));
            if h.must_ok("sync", r).is_none() {
                break;
            }
            let m = std::mem::take(&mut slots[s].1);
            let file = dir.file(s);
            // replace by a throw-away vector so that the old handle is closed first
            let tmp = MmapVec::<E>::create(dir.file(2), mmap_cfg(1, growth, false, false));
            let Some(tmp) = h.must_ok("create", tmp) else { break };
            slots[s].0 = tmp;
            let ro = k == 19;
            let r = MmapVec::<E>::open(&file, mmap_cfg(cap0, growth, sow, ro));
            h.ev(format!("s{} close, open(read_only={}) -> {}", s, ro, if r.is_ok() { "ok" } else { "err" }));
            h.cx.probe("reopen");
            let Some(mut v) = h.must_ok(op, r) else { break };
            let got: Vec<u64> = v.as_slice().iter().map(|e| e.val()).collect();
            if !h.seq(op, "content after reopen", &got, &m) {
                break;
            }
            if ro {
                let x = h.fresh();
                let refused = (v.push(E::mk(x)).is_err(), v.pop().is_none(), v.get_mut(0).is_none(), v.clear().is_err());
                h.ev(format!("s{} read-only: push/pop/get_mut/clear refused = {:?}", s, refused));
                if refused != (true, true, true, true) {
                    h.bad("wrong_value", op, format!("a read-only vector accepted a mutation: refused(push,pop,get_mut,clear)={:?}", refused));
                    break;
                }
                let got: Vec<u64> = v.as_slice().iter().map(|e| e.val()).collect();
                if !h.seq(op, "content of read-only vector", &got, &m) {
                    break;
                }
                drop(v);
                let r = MmapVec::<E>::open(&file, mmap_cfg(cap0, growth, sow, false));
                h.ev(format!("s{} close, open(read_only=false) -> {}", s, if r.is_ok() { "ok" } else { "err" }));
                let Some(v2) = h.must_ok(op, r) else { break };
                v = v2;
            }
            slots[s] = (v, m);
        }
        if h.failed() {
            break;
        }
        if slots[s].0.capacity() != cap_before && !slots[s].1.is_empty() {
            h.cx.probe("reallocated_with_elements");
        }
        h.cell(op, "done");
        let views: Vec<(&[E], &[u64])> = slots.iter().map(|(c, m)| (c.as_slice(), m.as_slice())).collect();
        if !check_slices(&mut h, op, &views) {
            break;
        }
        let meta_ok = slots.iter().all(|(c, m)| c.len() == m.len() && c.is_empty() == m.is_empty() && c.capacity() >= m.len());
        if !meta_ok {
            h.bad("wrong_value", op, "len()/is_empty()/capacity() disagree with the model".to_string());
            break;
        }
    }
    drop(slots);
    drop(dir);
    h.cx.nontrivial = h.cx.steps >= 3;
}

// ---------------------------------------------------------------------------------------
// MmapVec::with_capacity_simd: several vectors alive at once, each created with a seeded
// capacity.  (The constructor puts its scratch file into the system temp directory.)

fn mmap_simd_run(cx: &mut Run) {
    const NK: u64 = 10;
    let off = swarm(cx, NK);
    let mut ops = planned_ops(cx, 3, 14);
    let mut h = H::new(cx, "MmapVec");
    let mut slots: Vec<(MmapVec<u64>, Vec<u64>)> = vec![];
    let mut caps: Vec<usize> = vec![];
    let mut created = 0;
    while let Some(o) = ops.next() {
        let k = if slots.is_empty() { 0 } else { o[0] % NK };
        if off[k as usize] {
            continue;
        }
        let op: &'static str;
        match k {
            0 | 1 => {
                op = "with_capacity_simd";
                // capacities above the default initial capacity (1024) are only asked for once
                // another vector exists, and never more than 16000 elements
                let sizes: &[usize] = if created == 0 { &[8, 0, 1, 100, 1024] } else { &[8, 0, 1, 100, 1024, 1500, 8000, 8180, 8190, 9000, 12000] };
                let cap = sizes[(o[1] as usize) % sizes.len()];
                if slots.len() == 3 {
                    h.ev("drop s0".into());
                    slots.remove(0);
                }
                let r = MmapVec::<u64>::with_capacity_simd(cap);
                h.ev(format!("s{} = with_capacity_simd({}) -> {}", slots.len(), cap, if r.is_ok() { "ok" } else { "err" }));
                created += 1;
                match h.must_ok(op, r) {
                    Some(v) => {
                        if !v.is_empty() {
                            h.bad("wrong_sequence", op, format!("a new vector holds {} elements", v.len()));
                        }
                        slots.push((v, vec![]));
                    }
                    None => break,
                }
            }
            2 | 3 | 4 => {
                op = "push";
                let s = (o[3] as usize) % slots.len();
                let x = h.fresh();
                let r = slots[s].0.push(x);
                h.ev(format!("s{} push({}) -> {}", s, x, if r.is_ok() { "ok" } else { "err" }));
                if h.must_ok(op, r).is_some() {
                    slots[s].1.push(x);
                }
            }
            5 => {
                op = "pop";
                let s = (o[3] as usize) % slots.len();
                let r = slots[s].0.pop();
                h.ev(format!("s{} pop() -> {:?}", s, r));
                let e = slots[s].1.pop();
                h.same("wrong_value", op, "popped element", r, e);
            }
            6 | 9 => {
                // fill the vector to within two elements of its capacity (or just past it), so
                // that the next pushes grow a mapping that is larger than the minimum one
                op = "resize";
                let s = (o[3] as usize) % slots.len();
                let cap = slots[s].0.capacity();
                let n = (cap + (o[1] % 5) as usize).saturating_sub(2);
                let x = h.fresh();
                let r = slots[s].0.resize(n, x);
                h.ev(format!("s{} resize({} = capacity {:+}, {}) -> {}", s, n, n as i64 - cap as i64, x, if r.is_ok() { "ok" } else { "err" }));
                if h.must_ok(op, r).is_some() {
                    slots[s].1.resize(n, x);
                    // ... and a few pushes straight away
                    for _ in 0..o[2] % 4 {
                        let y = h.fresh();
                        let r = slots[s].0.push(y);
                        h.ev(format!("s{} push({}) -> {}", s, y, if r.is_ok() { "ok" } else { "err" }));
                        if h.must_ok("push", r).is_none() {
                            break;
                        }
                        slots[s].1.push(y);
                    }
                }
            }
            7 => {
                op = "push_bulk_simd";
                let s = (o[3] as usize) % slots.len();
                let vals = h.fresh_n((o[1] % 20) as usize);
                let r = slots[s].0.push_bulk_simd(&vals);
                h.ev(format!("s{} push_bulk_simd({:?}) -> {}", s, vals, if r.is_ok() { "ok" } else { "err" }));
                if h.must_ok(op, r).is_some() {
                    slots[s].1.extend(vals);
                }
            }
            8 if o[2] % 2 == 0 => {
                op = "truncate";
                let s = (o[3] as usize) % slots.len();
                let n = (o[1] % 12) as usize;
                let r = slots[s].0.truncate(n);
                h.ev(format!("s{} truncate({}) -> {}", s, n, if r.is_ok() { "ok" } else { "err" }));
                if h.must_ok(op, r).is_some() {
                    slots[s].1.truncate(n);
                }
            }
            _ => {
                op = "shrink_to_fit";
                let s = (o[3] as usize) % slots.len();
                let r = slots[s].0.shrink_to_fit();
                h.ev(format!("s{} shrink_to_fit() -> {}", s, if r.is_ok() { "ok" } else { "err" }));
                h.must_ok(op, r);
            }
        }
        if h.failed() {
            break;
        }
        h.cell(op, "done");
        let views: Vec<(&[u64], &[u64])> = slots.iter().map(|(c, m)| (c.as_slice(), m.as_slice())).collect();
        if !check_slices(&mut h, op, &views) {
            break;
        }
        let meta_ok = slots.iter().all(|(c, m)| c.len() == m.len() && c.is_empty() == m.is_empty() && c.capacity() >= m.len());
        if !meta_ok {
            h.bad("wrong_value", op, "len()/is_empty()/capacity() disagree with the model".to_string());
            break;
        }
        let caps_now: Vec<usize> = slots.iter().map(|x| x.0.capacity()).collect();
        if op != "with_capacity_simd" && caps_now.len() == caps.len() {
            // (64 KiB is the smallest mapping: 8182 u64 elements behind the header)
            if caps.iter().zip(caps_now.iter()).any(|(a, b)| b > a && *a > 8182) {
                h.cx.probe("mmapvec_grew_beyond_min_mapping");
            }
            if caps.iter().zip(caps_now.iter()).any(|(a, b)| b > a && *a <= 8182 && *b > 8182) {
                h.cx.probe("mmapvec_grew_across_min_mapping");
            }
        }
        caps = caps_now;
    }
    drop(slots);
    h.cx.nontrivial = h.cx.steps >= 3;
}

// ---------------------------------------------------------------------------------------
// string vectors

/// Short strings over a two-letter alphabet (so duplicates, shared prefixes and overlaps
/// are frequent), occasionally a third letter (now and then a two-byte one), occasionally
/// long.  Never a NUL byte.
fn gen_str(o: [u64; 4]) -> String {
    let len = match o[1] % 16 {
        15 => 17 + (o[1] / 16 % 24) as usize,
        14 => 9 + (o[1] / 16 % 4) as usize,
        x => (x % 9) as usize,
    };
    let third = if o[3] / 56 % 4 == 3 { '\u{e9}' } else { 'c' };
    let mut s = String::with_capacity(len + 1);
    for i in 0..len {
        let bit = (o[2] >> (i % 20)) & 1;
        let c = if o[3] % 7 == 0 && i == (o[3] / 7 % 8) as usize { third } else if bit == 1 { 'b' } else { 'a' };
        s.push(c);
    }
    s
}

fn flip(c: char) -> char {
    if c == 'a' {
        'b'
    } else {
        'a'
    }
}

/// A string for a container that already holds `pool`: in a third of the cases it is derived
/// from one of those (the same again, one position changed anywhere - also far behind a long
/// common prefix -, one character more or less, the old one as its suffix, the old one
/// twice), otherwise an unrelated `gen_str`.
fn gen_rel(o: [u64; 4], pool: &[String]) -> String {
    let sel = o[3] / 224;
    if pool.is_empty() || sel % 3 != 0 {
        return gen_str(o);
    }
    let variant = (sel / 3) % 9;
    // the last two variants work on the longest string held (long strings are rare, and it is
    // behind a long common prefix that the comparison loops change gear)
    let base = if variant >= 7 { pool.iter().max_by_key(|x| x.len()).unwrap() } else { &pool[(o[2] as usize) % pool.len()] };
    let mut b: Vec<char> = base.chars().collect();
    match variant {
        0 => {}
        1 => {
            if !b.is_empty() {
                let i = (o[1] as usize) % b.len();
                b[i] = flip(b[i]);
            }
        }
        2 => b.push(if o[1] % 2 == 0 { 'a' } else { 'b' }),
        3 => {
            b.pop();
        }
        4 => {
            if let Some(l) = b.last_mut() {
                *l = flip(*l);
            }
        }
        5 => b.insert(0, if o[1] % 2 == 0 { 'a' } else { 'b' }),
        6 | 7 if b.len() <= 24 => {
            let again = b.clone();
            b.extend(again);
        }
        _ => {
            // one position in the last quarter changed
            if !b.is_empty() {
                let q = (b.len() + 3) / 4;
                let i = b.len() - 1 - (o[1] as usize) % q;
                b[i] = flip(b[i]);
            }
        }
    }
    b.into_iter().collect()
}

/// the first `n` characters of `s`
fn prefix_chars(s: &str, n: usize) -> String {
    s.chars().take(n).collect()
}

fn check_strs<'x>(h: &mut H, op: &str, what: &str, real: impl Iterator<Item = Option<&'x str>>, model: &[String]) -> bool {
    let got: Vec<Option<String>> = real.map(|s| s.map(|x| x.to_string())).collect();
    let exp: Vec<Option<String>> = model.iter().cloned().map(Some).collect();
    if got != exp {
        h.bad("wrong_sequence", op, format!("{}: container holds {:?}, model holds {:?}", what, got, model));
        return false;
    }
    true
}

fn sortable_run(cx: &mut Run) {
    const NK: u64 = 14;
    let off = swarm(cx, NK);
    let mut ops = planned_ops(cx, 3, 24);
    let mut h = H::new(cx, "SortableStrVec");
    let mut slots: Vec<(SortableStrVec, Vec<String>)> = vec![(SortableStrVec::new(), vec![])];
    while let Some(o) = ops.next() {
        let k = o[0] % NK;
        if off[k as usize] {
            continue;
        }
        let s = (o[3] as usize) % slots.len();
        let len = slots[s].1.len();
        let op: &'static str;
        {
            let (v, m) = &mut slots[s];
            match k {
                0 | 1 | 2 => {
                    op = if k == 2 { "push" } else { "push_str" };
                    let x = gen_rel(o, m);
                    let r = if k == 2 { v.push(x.clone()) } else { v.push_str(&x) };
                    h.ev(format!("s{} {}({:?}) -> {:?}", s, op, x, r.as_ref().ok()));
                    if let Some(id) = h.must_ok(op, r) {
                        h.same("wrong_value", op, "returned id", id, len);
                        m.push(x);
                    }
                }
                3 => {
                    op = "get";
                    let idx = (o[1] as usize) % (len + 2);
                    let r = v.get(idx).map(|x| x.to_string());
                    let r2 = v.get_by_id(idx).map(|x| x.to_string());
                    h.ev(format!("s{} get({}) -> {:?}", s, idx, r));
                    if idx >= len && r.is_some() {
                        h.bad("oob_not_reported", op, format!("get({}) on length {} returned {:?}", idx, len, r));
                    } else {
                        h.same("wrong_value", op, "element", (r, r2), (m.get(idx).cloned(), m.get(idx).cloned()));
                    }
                }
                4 => {
                    op = "clear";
                    v.clear();
                    h.ev(format!("s{} clear()", s));
                    m.clear();
                }
                5 => {
                    op = "reserve";
                    v.reserve((o[1] % 9) as usize);
                    h.ev(format!("s{} reserve({})", s, o[1] % 9));
                }
                6 => {
                    op = "shrink_to_fit";
                    v.shrink_to_fit();
                    h.ev(format!("s{} shrink_to_fit()", s));
                }
                7 | 8 | 9 | 10 => {
                    // the sorted view is a second sequence the container holds; a sorted Vec is its model
                    op = match k {
                        7 => "sort",
                        8 => "radix_sort",
                        9 => "sort_by_length",
                        _ => "sort_by",
                    };
                    let r = match k {
                        7 => v.sort(),
                        8 => v.radix_sort(),
                        9 => v.sort_by_length(),
                        _ => v.sort_by(|a, b| b.cmp(a)),
                    };
                    h.ev(format!("s{} {}() -> {}", s, op, if r.is_ok() { "ok" } else { "err" }));
                    if h.must_ok(op, r).is_some() {
                        let got: Vec<String> = v.iter_sorted().map(|x| x.to_string()).collect();
                        let mut exp = m.clone();
                        match k {
                            9 => {
                                // unstable by length: a permutation with non-decreasing lengths
                                let mut a = got.clone();
                                a.sort();
                                exp.sort();
                                let lens_ok = got.windows(2).all(|w| w[0].len() <= w[1].len());
                                if a != exp || !lens_ok {
                                    h.bad("wrong_sequence", op, format!("sorted view {:?} is not the content {:?} ordered by length", got, m));
                                }
                            }
                            10 => {
                                exp.sort_by(|a, b| b.cmp(a));
                                h.same("wrong_sequence", op, "sorted view", got, exp);
                            }
                            _ => {
                                exp.sort();
                                if h.same("wrong_sequence", op, "sorted view", got.clone(), exp.clone()) {
                                    let g2: Vec<Option<String>> = (0..len + 1).map(|i| v.get_sorted(i).map(|x| x.to_string())).collect();
                                    let e2: Vec<Option<String>> = (0..len + 1).map(|i| exp.get(i).cloned()).collect();
                                    h.same("wrong_sequence", op, "get_sorted(0..=len)", g2, e2);
                                    let needle = gen_rel([o[0], o[2], o[1], o[3]], m);
                                    match v.binary_search(&needle) {
                                        Ok(i) => {
                                            if exp.get(i) != Some(&needle) {
                                                h.bad("wrong_value", "binary_search", format!("binary_search({:?}) -> Ok({}) in sorted {:?}", needle, i, exp));
                                            }
                                        }
                                        Err(i) => {
                                            if len > 0 && (exp.contains(&needle) || i != exp.partition_point(|x| x < &needle)) {
                                                h.bad("wrong_value", "binary_search", format!("binary_search({:?}) -> Err({}) in sorted {:?}", needle, i, exp));
                                            }
                                        }
                                    }
                                }
                            }
                        }
                    }
                }
                _ => {
                    op = if k == 11 || k == 12 { "clone" } else { "drop" };
                }
            }
        }
        if (k == 11 || k == 12) && !h.failed() {
            let c = slots[s].0.clone();
            let mc = slots[s].1.clone();
            h.ev(format!("s{} clone() -> len {}", s, c.len()));
            if slots.len() == 2 {
                let other = 1 - s;
                slots[other] = (c, mc);
            } else {
                slots.push((c, mc));
            }
        }
        if k == 13 && !h.failed() {
            h.ev(format!("s{} drop vector", s));
            match o[1] % 3 {
                0 => {
                    h.ev("new()".into());
                    slots[s] = (SortableStrVec::new(), vec![]);
                }
                1 => {
                    let c = (o[2] % 9) as usize;
                    h.ev(format!("with_capacity({})", c));
                    slots[s] = (SortableStrVec::with_capacity(c), vec![]);
                }
                _ => {
                    let n = (o[2] % 5) as usize;
                    let strs: Vec<String> = (0..n as u64).map(|i| gen_str([0, o[1] / 3 + i, o[2] / 5 + i * 5, 1])).collect();
                    h.ev(format!("from_iter({:?})", strs));
                    let r = SortableStrVec::from_iter(strs.iter());
                    match h.must_ok("from_iter", r) {
                        Some(v) => slots[s] = (v, strs),
                        None => break,
                    }
                }
            }
        }
        if h.failed() {
            break;
        }
        h.cell(op, "done");
        let mut ok = true;
        for (si, (v, m)) in slots.iter().enumerate() {
            if v.len() != m.len() || v.is_empty() != m.is_empty() {
                h.bad("wrong_sequence", op, format!("slot {}: len() = {}, model holds {}", si, v.len(), m.len()));
                ok = false;
                break;
            }
            if !check_strs(&mut h, op, &format!("slot {} get(0..len)", si), (0..m.len()).map(|i| v.get(i)), m) || !check_strs(&mut h, op, &format!("slot {} iter()", si), v.iter().map(Some), m) {
                ok = false;
                break;
            }
        }
        if !ok {
            break;
        }
    }
    h.cx.nontrivial = h.cx.steps >= 3;
}

/// SortableStrVec with enough strings for the code that small vectors never reach: the
/// distribution passes of radix_sort (32 strings and more per bucket) and the block-wise
/// binary_search (more than 512 strings).  One run = one bulk construction, then a few
/// rounds of (sort of some kind, read the sorted view, search), with a push in between.
fn sortable_bulk_run(cx: &mut Run) {
    let (n, how, rounds) = {
        let cfg = cx.src.chan("cfg");
        (*cfg.pick(&[31u64, 32, 33, 40, 64, 100, 300, 511, 512, 513, 520, 600]), cfg.below(3), 1 + cfg.below(3))
    };
    let round_cfg: Vec<(u64, bool)> = {
        let cfg = cx.src.chan("cfg");
        (0..rounds).map(|_| (cfg.below(4), cfg.chance(1, 2))).collect()
    };
    let mut ops = cx.src.ops("ops", n + rounds);
    let mut h = H::new(cx, "SortableStrVec");
    let mut m: Vec<String> = vec![];
    let mut last = [0u64; 4];
    while (m.len() as u64) < n {
        let Some(o) = ops.next() else { break };
        // many distinct strings are wanted here: unrelated ones draw their length bits afresh
        let x = gen_rel([o[0], o[1] | 4, o[2], o[3]], &m);
        m.push(x);
        last = o;
    }
    let built = match how {
        0 => {
            h.ev(format!("from_iter({} strings)", m.len()));
            SortableStrVec::from_iter(m.iter())
        }
        1 => {
            h.ev(format!("new(), {} x push_str", m.len()));
            let mut v = SortableStrVec::new();
            let mut r = Ok(v.len());
            for x in &m {
                r = v.push_str(x);
                if r.is_err() {
                    break;
                }
            }
            r.map(|_| v)
        }
        _ => {
            h.ev(format!("with_capacity({}), {} x push", m.len() / 2, m.len()));
            let mut v = SortableStrVec::with_capacity(m.len() / 2);
            let mut r = Ok(v.len());
            for x in &m {
                r = v.push(x.clone());
                if r.is_err() {
                    break;
                }
            }
            r.map(|_| v)
        }
    };
    let Some(mut v) = h.must_ok("from_iter", built) else { return };
    for (round, &(kind, push_between)) in round_cfg.iter().enumerate() {
        if v.len() != m.len() || !check_strs(&mut h, "push_str", "get(0..len)", (0..m.len()).map(|i| v.get(i)), &m) {
            return;
        }
        let op = match kind {
            0 => "sort",
            1 => "radix_sort",
            2 => "sort_by_length",
            _ => "sort_by",
        };
        let r = match kind {
            0 => v.sort(),
            1 => v.radix_sort(),
            2 => v.sort_by_length(),
            _ => v.sort_by(|a, b| b.cmp(a)),
        };
        h.ev(format!("{}() over {} strings -> {}", op, m.len(), if r.is_ok() { "ok" } else { "err" }));
        if h.must_ok(op, r).is_none() {
            return;
        }
        if kind == 1 && m.len() >= 32 {
            h.cx.probe("radix_distribution_pass");
        }
        let got: Vec<String> = v.iter_sorted().map(|x| x.to_string()).collect();
        let mut exp = m.clone();
        match kind {
            2 => {
                let mut a = got.clone();
                a.sort();
                exp.sort();
                if a != exp || !got.windows(2).all(|w| w[0].len() <= w[1].len()) {
                    h.bad("wrong_sequence", op, format!("the sorted view of {} strings is not the content ordered by length (first strings: {:?})", m.len(), &got[..got.len().min(12)]));
                    return;
                }
            }
            3 => {
                exp.sort_by(|a, b| b.cmp(a));
                if got != exp {
                    let at = got.iter().zip(exp.iter()).position(|(a, b)| a != b).unwrap_or(got.len().min(exp.len()));
                    h.bad("wrong_sequence", op, format!("sorted view ({} strings) differs from the sorted content ({} strings) at position {}: {:?} vs {:?}", got.len(), exp.len(), at, got.get(at), exp.get(at)));
                    return;
                }
            }
            _ => {
                exp.sort();
                if got != exp {
                    let at = got.iter().zip(exp.iter()).position(|(a, b)| a != b).unwrap_or(got.len().min(exp.len()));
                    h.bad("wrong_sequence", op, format!("sorted view ({} strings) differs from the sorted content ({} strings) at position {}: {:?} vs {:?}", got.len(), exp.len(), at, got.get(at), exp.get(at)));
                    return;
                }
                let g2: Vec<Option<String>> = [0, exp.len() / 2, exp.len().saturating_sub(1), exp.len()].iter().map(|&i| v.get_sorted(i).map(|x| x.to_string())).collect();
                let e2: Vec<Option<String>> = [0, exp.len() / 2, exp.len().saturating_sub(1), exp.len()].iter().map(|&i| exp.get(i).cloned()).collect();
                if !h.same("wrong_sequence", op, "get_sorted(0, len/2, len-1, len)", g2, e2) {
                    return;
                }
                if exp.len() > 512 {
                    h.cx.probe("block_binary_search");
                }
                // needles: stored strings from both ends, the middle and the block borders, and
                // near misses of them
                let mut needles: Vec<String> = [0usize, 1, 255, 256, 257, 511, 512, exp.len() / 2, exp.len().saturating_sub(2), exp.len().saturating_sub(1)].iter().filter_map(|&i| exp.get(i).cloned()).collect();
                for j in 0..6u64 {
                    needles.push(gen_rel([0, last[1] + j * 7, last[2] + j * 13, 224 * 3 * ((last[3] + j) % 7)], &exp));
                }
                needles.push(String::new());
                needles.push("c".repeat(3));
                for needle in needles {
                    let r = v.binary_search(&needle);
                    h.ev(format!("binary_search({:?}) -> {:?}", needle, r));
                    match r {
                        Ok(i) => {
                            if exp.get(i) != Some(&needle) {
                                h.bad("wrong_value", "binary_search", format!("binary_search({:?}) -> Ok({}) but position {} of the sorted view of {} strings holds {:?}", needle, i, i, exp.len(), exp.get(i)));
                            }
                        }
                        Err(i) => {
                            let want = exp.partition_point(|x| x < &needle);
                            if exp.binary_search(&needle).is_ok() || i != want {
                                h.bad("wrong_value", "binary_search", format!("binary_search({:?}) -> Err({}) in a sorted view of {} strings; present: {}, insertion point: {}", needle, i, exp.len(), exp.binary_search(&needle).is_ok(), want));
                            }
                        }
                    }
                    if h.failed() {
                        return;
                    }
                }
            }
        }
        if push_between && round + 1 < round_cfg.len() {
            if let Some(o) = ops.next() {
                let x = gen_rel(o, &m);
                let r = v.push_str(&x);
                h.ev(format!("push_str({:?}) -> {:?}", x, r.as_ref().ok()));
                if let Some(id) = h.must_ok("push_str", r) {
                    h.same("wrong_value", "push_str", "returned id", id, m.len());
                    m.push(x);
                }
            }
        }
        if h.failed() {
            return;
        }
    }
    h.cx.nontrivial = m.len() >= 2;
}

fn fixedlen_run<const N: usize>(h: &mut H, ops: &mut Ops, off: &[bool], nk: u64) {
    let mut v: FixedLenStrVec<N> = FixedLenStrVec::new();
    let mut m: Vec<String> = vec![];
    h.ev(format!("FixedLenStrVec<{}>::new()", N));
    while let Some(o) = ops.next() {
        let k = o[0] % nk;
        if off[k as usize] {
            continue;
        }
        let len = m.len();
        let op: &'static str;
        match k {
            0 | 1 | 2 | 3 => {
                op = "push";
                let x = gen_rel(o, &m);
                let r = v.push(&x);
                h.ev(format!("push({:?}) -> {}", x, if r.is_ok() { "ok" } else { "refused" }));
                if x.len() > N {
                    if r.is_ok() {
                        h.bad("capacity_not_enforced", op, format!("a string of {} bytes was accepted by a vector of fixed length {}", x.len(), N));
                    }
                    h.cx.fault("string_too_long_refused");
                } else if h.must_ok(op, r).is_some() {
                    m.push(x);
                }
            }
            4 => {
                op = "get";
                let idx = (o[1] as usize) % (len + 2);
                let r = v.get(idx).map(|x| x.to_string());
                let rb = v.get_bytes(idx).map(|x| x.to_vec());
                h.ev(format!("get({}) -> {:?}", idx, r));
                if idx >= len && (r.is_some() || rb.is_some()) {
                    h.bad("oob_not_reported", op, format!("get({}) on length {} returned {:?}", idx, len, r));
                } else {
                    h.same("wrong_value", op, "element", (r, rb), (m.get(idx).cloned(), m.get(idx).map(|x| x.as_bytes().to_vec())));
                }
            }
            5 => {
                op = "find_exact";
                let x = if len > 0 && o[1] % 2 == 0 { m[(o[2] as usize) % len].clone() } else { gen_rel(o, &m) };
                let r = v.find_exact(&x);
                h.ev(format!("find_exact({:?}) -> {:?}", x, r));
                h.same("wrong_value", op, "first index", r, m.iter().position(|y| *y == x));
            }
            6 => {
                op = "count_prefix";
                // short prefixes, and prefixes of 8 and more bytes (the length from which the
                // container switches to its bulk comparison), mostly cut from a stored string
                let src = if len > 0 && o[2] % 2 == 0 { m[(o[2] as usize / 2) % len].clone() } else { gen_rel(o, &m) };
                let n = match o[1] % 8 {
                    x @ 0..=3 => x as usize,
                    x => 4 + (o[1] / 8 % 3) as usize * (x as usize - 3),
                };
                let mut x = prefix_chars(&src, n);
                // ... or more than 8 characters of the longest stored string with one position
                // behind the first 8 changed
                if let Some(l) = m.iter().filter(|y| y.chars().count() > 8).max_by_key(|y| y.len()) {
                    if o[3] / 2 % 4 == 0 {
                        let mut b: Vec<char> = l.chars().collect();
                        b.truncate(9 + (o[2] as usize / 2) % (b.len() - 8));
                        let i = 8 + (o[1] as usize / 8) % (b.len() - 8);
                        b[i] = flip(b[i]);
                        x = b.into_iter().collect();
                    }
                }
                let r = v.count_prefix(&x);
                h.ev(format!("count_prefix({:?}) -> {}", x, r));
                h.same("wrong_value", op, "count", r, m.iter().filter(|y| y.starts_with(&x)).count());
            }
            _ => {
                op = "drop";
                let c = (o[1] % 9) as usize;
                h.ev(format!("drop vector, with_capacity({})", c));
                v = FixedLenStrVec::with_capacity(c);
                m.clear();
            }
        }
        if h.failed() {
            break;
        }
        h.cell(op, "done");
        if v.len() != m.len() || v.is_empty() != m.is_empty() {
            h.bad("wrong_sequence", op, format!("len() = {}, model holds {}", v.len(), m.len()));
            break;
        }
        if !check_strs(h, op, "get(0..len)", (0..m.len()).map(|i| v.get(i)), &m) {
            break;
        }
    }
}

fn fixedlen(cx: &mut Run) {
    const NK: u64 = 8;
    let off = swarm(cx, NK);
    let n = *cx.src.chan("cfg").pick(&[4usize, 8, 16, 32]);
    let mut ops = planned_ops(cx, 3, 24);
    let mut h = H::new(cx, "FixedLenStrVec");
    match n {
        4 => fixedlen_run::<4>(&mut h, &mut ops, &off, NK),
        8 => fixedlen_run::<8>(&mut h, &mut ops, &off, NK),
        16 => fixedlen_run::<16>(&mut h, &mut ops, &off, NK),
        _ => fixedlen_run::<32>(&mut h, &mut ops, &off, NK),
    }
    h.cx.nontrivial = h.cx.steps >= 3;
}

macro_rules! bitpacked_run {
    ($name:ident, $ty:ty, $tgt:expr) => {
        fn $name(cx: &mut Run) {
            const NK: u64 = 9;
            let off = swarm(cx, NK);
            let mut ops = planned_ops(cx, 3, 24);
            let mut h = H::new(cx, $tgt);
            let mut slots: Vec<($ty, Vec<String>)> = vec![(<$ty>::new(), vec![])];
            while let Some(o) = ops.next() {
                let k = o[0] % NK;
                if off[k as usize] {
                    continue;
                }
                let s = (o[3] as usize) % slots.len();
                let len = slots[s].1.len();
                let op: &'static str;
                {
                    let (v, m) = &mut slots[s];
                    match k {
                        0 | 1 | 2 => {
                            op = "push";
                            let x = gen_rel(o, m);
                            let r = v.push(&x);
                            h.ev(format!("s{} push({:?}) -> {:?}", s, x, r.as_ref().ok()));
                            if let Some(id) = h.must_ok(op, r) {
                                h.same("wrong_value", op, "returned index", id, len);
                                m.push(x);
                            }
                        }
                        3 => {
                            op = "get";
                            let idx = (o[1] as usize) % (len + 2);
                            let r = v.get(idx).map(|x| x.to_string());
                            let rb = v.get_bytes(idx).map(|x| x.to_vec());
                            h.ev(format!("s{} get({}) -> {:?}", s, idx, r));
                            if idx >= len && (r.is_some() || rb.is_some()) {
                                h.bad("oob_not_reported", op, format!("get({}) on length {} returned {:?}", idx, len, r));
                            } else {
                                h.same("wrong_value", op, "element", (r, rb), (m.get(idx).cloned(), m.get(idx).map(|x| x.as_bytes().to_vec())));
                            }
                        }
                        4 => {
                            op = "extend";
                            let n = (o[1] % 5) as u64;
                            let strs: Vec<String> = (0..n).map(|i| gen_str([0, o[1] / 5 + i, o[2] + i * 3, 1])).collect();
                            let r = v.extend(strs.iter());
                            h.ev(format!("s{} extend({:?}) -> {:?}", s, strs, r.as_ref().ok()));
                            if let Some(ids) = h.must_ok(op, r) {
                                h.same("wrong_value", op, "returned indices", ids, (len..len + strs.len()).collect::<Vec<_>>());
                                m.extend(strs);
                            }
                        }
                        5 => {
                            op = "find_simd";
                            // a stored string, a relative of one, or - when a string of more than 32
                            // characters is held - that string with one position behind the first
                            // 32 changed (the search compares 32 bytes at a time, then the rest)
                            let long = m.iter().filter(|y| y.chars().count() > 32).max_by_key(|y| y.len());
                            let x = match (o[1] % 4, long) {
                                (0, _) if len > 0 => m[(o[2] as usize) % len].clone(),
                                (1, Some(l)) => {
                                    let mut b: Vec<char> = l.chars().collect();
                                    let i = 32 + (o[2] as usize) % (b.len() - 32);
                                    b[i] = flip(b[i]);
                                    b.into_iter().collect()
                                }
                                _ => gen_rel([o[0], o[1] / 4, o[2], o[3]], m),
                            };
                            if x.len() >= 32 && m.iter().any(|y| y.len() == x.len() && *y != x && y.as_bytes()[..32] == x.as_bytes()[..32]) {
                                h.cx.probe("find_same_length_differs_after_32_bytes");
                            }
                            let r = v.find_simd(&x);
                            h.ev(format!("s{} find_simd({:?}) -> {:?}", s, x, r));
                            h.same("wrong_value", op, "first index", r, m.iter().position(|y| *y == x));
                        }
                        6 | 7 => {
                            op = "clone";
                        }
                        _ => {
                            op = "drop";
                        }
                    }
                }
                if op == "clone" {
                    let c = slots[s].0.clone();
                    let mc = slots[s].1.clone();
                    h.ev(format!("s{} clone() -> len {}", s, c.len()));
                    if slots.len() == 2 {
                        let other = 1 - s;
                        slots[other] = (c, mc);
                    } else {
                        slots.push((c, mc));
                    }
                }
                if op == "drop" {
                    let c = (o[1] % 9) as usize;
                    h.ev(format!("s{} drop vector, with_capacity({})", s, c));
                    slots[s] = (<$ty>::with_capacity(c), vec![]);
                }
                if h.failed() {
                    break;
                }
                h.cell(op, "done");
                let mut ok = true;
                for (si, (v, m)) in slots.iter().enumerate() {
                    if v.len() != m.len() || v.is_empty() != m.is_empty() {
                        h.bad("wrong_sequence", op, format!("slot {}: len() = {}, model holds {}", si, v.len(), m.len()));
                        ok = false;
                        break;
                    }
                    if !check_strs(&mut h, op, &format!("slot {} get(0..len)", si), (0..m.len()).map(|i| v.get(i)), m) || !check_strs(&mut h, op, &format!("slot {} iter()", si), v.iter().map(Some), m) {
                        ok = false;
                        break;
                    }
                }
                if !ok {
                    break;
                }
            }
            h.cx.nontrivial = h.cx.steps >= 3;
        }
    };
}
bitpacked_run!(bitpacked32_run, BitPackedStringVec32, "BitPackedStringVec32");
bitpacked_run!(bitpacked64_run, BitPackedStringVec64, "BitPackedStringVec64");

/// AdvancedStringVec deduplicates (documented: levels 1-3), so `push` hands back an index
/// that may be an existing one; the contract checked is: every index ever handed back
/// still reads back the string that was pushed for it, indices are dense, out-of-range is None.
fn advanced_run(cx: &mut Run, level: u8) {
    const NK: u64 = 7;
    let off = swarm(cx, NK);
    let min_overlap = *cx.src.chan("cfg").pick(&[3usize, 2, 4]);
    let mut ops = planned_ops(cx, 3, 24);
    let mut h = H::new(cx, "AdvancedStringVec");
    let mk = |h: &mut H| {
        let mut c = AdvancedStringConfig::default();
        c.compression_level = level;
        c.min_overlap_length = min_overlap;
        c.initial_arena_capacity = 16;
        c.initial_index_capacity = 2;
        h.ev(format!("with_config(level={}, min_overlap_length={})", level, min_overlap));
        AdvancedStringVec::with_config(c)
    };
    let v0 = mk(&mut h);
    // model: index -> string
    let mut slots: Vec<(AdvancedStringVec, Vec<String>)> = vec![(v0, vec![])];
    while let Some(o) = ops.next() {
        let k = o[0] % NK;
        if off[k as usize] {
            continue;
        }
        let s = (o[3] as usize) % slots.len();
        let len = slots[s].1.len();
        let op: &'static str;
        {
            let (v, m) = &mut slots[s];
            match k {
                0 | 1 | 2 | 3 => {
                    op = "push";
                    let x = gen_rel(o, m);
                    let r = v.push(&x);
                    h.ev(format!("s{} push({:?}) -> {:?}", s, x, r.as_ref().ok()));
                    if let Some(id) = h.must_ok(op, r) {
                        if id == len {
                            m.push(x);
                        } else if id < len {
                            if level == 0 {
                                h.bad("wrong_value", op, format!("level 0 stores every string, yet push returned the existing index {} at length {}", id, len));
                            } else if m[id] != x {
                                h.bad("wrong_value", op, format!("push({:?}) returned index {}, which holds {:?}", x, id, m[id]));
                            } else {
                                h.cx.probe("deduplicated");
                            }
                        } else {
                            h.bad("wrong_value", op, format!("push returned index {} at length {}", id, len));
                        }
                    }
                }
                4 => {
                    op = "get";
                    let idx = (o[1] as usize) % (len + 2);
                    let r = v.get(idx).map(|x| x.to_string());
                    let rb = v.get_bytes(idx).map(|x| x.to_vec());
                    h.ev(format!("s{} get({}) -> {:?}", s, idx, r));
                    if idx >= len && (r.is_some() || rb.is_some()) {
                        h.bad("oob_not_reported", op, format!("get({}) on length {} returned {:?}", idx, len, r));
                    } else {
                        h.same("wrong_value", op, "element", (r, rb), (m.get(idx).cloned(), m.get(idx).map(|x| x.as_bytes().to_vec())));
                    }
                }
                5 => {
                    op = "clone";
                }
                _ => {
                    op = "drop";
                }
            }
        }
        if op == "clone" {
            let c = slots[s].0.clone();
            let mc = slots[s].1.clone();
            h.ev(format!("s{} clone() -> len {}", s, c.len()));
            if slots.len() == 2 {
                let other = 1 - s;
                slots[other] = (c, mc);
            } else {
                slots.push((c, mc));
            }
        }
        if op == "drop" {
            h.ev(format!("s{} drop vector", s));
            // the default configuration is level 1: there the plain constructors take turns
            let v = match (level, o[1] % 3) {
                (1, 1) => {
                    h.ev("new()".into());
                    AdvancedStringVec::new()
                }
                (1, 2) => {
                    h.ev(format!("with_capacity({})", o[2] % 9));
                    AdvancedStringVec::with_capacity((o[2] % 9) as usize)
                }
                _ => mk(&mut h),
            };
            slots[s] = (v, vec![]);
        }
        if h.failed() {
            break;
        }
        h.cell(op, "done");
        let mut ok = true;
        for (si, (v, m)) in slots.iter().enumerate() {
            if v.len() != m.len() || v.is_empty() != m.is_empty() {
                h.bad("wrong_sequence", op, format!("slot {}: len() = {}, {} distinct indices were handed out", si, v.len(), m.len()));
                ok = false;
                break;
            }
            if !check_strs(&mut h, op, &format!("slot {} get(0..len)", si), (0..m.len()).map(|i| v.get(i)), m) || !check_strs(&mut h, op, &format!("slot {} iter()", si), v.iter().map(Some), m) {
                ok = false;
                break;
            }
        }
        if !ok {
            break;
        }
    }
    h.cx.nontrivial = h.cx.steps >= 3;
}

/// ZoSortedStrVec is immutable: one run = one construction from a seeded list + read-out.
/// Filled up to its documented limit: a FixedLenStrVec packs (offset, length) into 24 + 8 bits, so
/// its arena holds at most 16 MiB.  Strings are pushed until the container refuses; everything it
/// accepted must read back - in particular the strings that start at or near offset 2^24.
fn fixedlen_limit_run<const N: usize>(cx: &mut Run, step: usize) {
    let mut v: FixedLenStrVec<N> = FixedLenStrVec::new();
    cx.ev(format!("FixedLenStrVec<{}>::new(); push strings of {} bytes until refused", N, step));
    let mk = |i: usize| -> String { format!("{:0w$}", i, w = step) };
    let mut n = 0usize;
    let cap = (1usize << 24) / step + 8;
    while n < cap {
        if v.push(&mk(n)).is_err() {
            break;
        }
        n += 1;
    }
    cx.ev(format!("accepted {} strings ({} bytes), then refused", n, n * step));
    cx.steps = n as u64;
    cx.nontrivial = n > 1000;
    if n == cap {
        cx.probe("never_refused");
    }
    if v.len() != n {
        cx.violate("wrong_value", "FixedLenStrVec.len@arena_limit", format!("len() = {} after {} accepted pushes", v.len(), n));
        return;
    }
    // the last accepted strings, the first, and a stride through the rest
    let mut idx: Vec<usize> = (n.saturating_sub(6)..n).collect();
    idx.push(0);
    idx.extend((0..n).step_by(n / 97 + 1));
    for i in idx {
        let want = mk(i);
        let got = v.get(i).map(|x| x.to_string());
        if got.as_deref() != Some(want.as_str()) {
            cx.violate("wrong_sequence", "FixedLenStrVec.get@arena_limit", format!("element {} of {} (pushed at arena offset {}) reads back as {:?}, it was pushed as {:?}", i, n, i * step, got.map(|g| g.chars().take(24).collect::<String>()), want.chars().take(24).collect::<String>()));
            return;
        }
    }
    if v.get(n).is_some() {
        cx.violate("wrong_value", "FixedLenStrVec.get@arena_limit", format!("get({}) is Some although only {} strings were accepted", n, n));
    }
}

fn fixedlen_limit(cx: &mut Run) {
    let cfg = cx.src.chan("cfg");
    match cfg.below(4) {
        0 => fixedlen_limit_run::<64>(cx, 64),
        1 => fixedlen_limit_run::<128>(cx, 128),
        2 => fixedlen_limit_run::<255>(cx, 255),
        _ => fixedlen_limit_run::<128>(cx, [32usize, 100, 127][cfg.below(3) as usize]),
    }
}

fn zosorted_run(cx: &mut Run) {
    let how = cx.src.chan("cfg").below(4);
    // mostly a handful of strings; in a third of the runs enough of them that the boundary
    // bit vector spans several 256-bit rank/select blocks
    let many = cx.src.chan("cfg").chance(1, 3);
    let mut ops = if many { planned_ops(cx, 14, 80) } else { planned_ops(cx, 0, 14) };
    let mut h = H::new(cx, "ZoSortedStrVec");
    let mut input: Vec<String> = vec![];
    let mut probe_o = [0u64; 4];
    while let Some(o) = ops.next() {
        let x = gen_rel(o, &input);
        input.push(x);
        probe_o = o;
    }
    let mut exp = input.clone();
    exp.sort();
    let (op, built): (&'static str, _) = match how {
        0 => {
            exp.dedup();
            h.ev(format!("from_strings({:?})", input));
            ("from_strings", ZoSortedStrVec::from_strings(input.clone()))
        }
        1 => {
            h.ev(format!("from_sorted_strings({:?})", exp));
            ("from_sorted_strings", ZoSortedStrVec::from_sorted_strings(exp.clone()))
        }
        2 => {
            let mut sv = SortableStrVec::new();
            for x in &input {
                let _ = sv.push_str(x);
            }
            h.ev(format!("from_sortable_str_vec({:?})", input));
            ("from_sortable_str_vec", ZoSortedStrVec::from_sortable_str_vec(sv))
        }
        _ => {
            // unsorted input to the constructor that requires sorted input: refusal expected
            let sorted_already = input.windows(2).all(|w| w[0] <= w[1]);
            h.ev(format!("from_sorted_strings({:?})", input));
            let r = ZoSortedStrVec::from_sorted_strings(input.clone());
            if !sorted_already {
                if r.is_ok() {
                    h.bad("wrong_value", "from_sorted_strings", "unsorted input was accepted".to_string());
                }
                h.cx.fault("unsorted_input_refused");
                h.cx.nontrivial = input.len() >= 2;
                return;
            }
            ("from_sorted_strings", r)
        }
    };
    let Some(z) = h.must_ok(op, built) else { return };
    let n = exp.len();
    h.ev(format!("len() -> {}", z.len()));
    if z.len() != n || z.is_empty() != (n == 0) {
        h.bad("wrong_sequence", op, format!("len() = {}, model holds {}", z.len(), n));
        return;
    }
    if !check_strs(&mut h, op, "get(0..len)", (0..n).map(|i| z.get(i)), &exp) || !check_strs(&mut h, op, "iter()", z.iter().map(Some), &exp) {
        return;
    }
    if z.get(n).is_some() || z.get(n + 1).is_some() {
        h.bad("oob_not_reported", "get", format!("get({}) on length {} returned Some", n, n));
        return;
    }
    let bits: usize = exp.iter().map(|x| x.len() + 1).sum();
    if bits > 256 {
        h.cx.probe("zosorted_several_rank_blocks");
    }
    // the iterator's own bookkeeping, and a clone
    {
        let mut it = z.iter();
        let skip = (probe_o[1] as usize) % (n + 1);
        for _ in 0..skip {
            it.next();
        }
        if !h.same("wrong_value", "iter", "remaining length of a partly consumed iterator", (it.len(), it.size_hint()), (n - skip, (n - skip, Some(n - skip)))) {
            return;
        }
        let c = z.clone();
        h.ev(format!("clone() -> len {}", c.len()));
        if c.len() != n || !check_strs(&mut h, "clone", "clone: get(0..len)", (0..n).map(|i| c.get(i)), &exp) {
            return;
        }
    }
    let mut needles: Vec<String> = exp.iter().take(4).cloned().collect();
    needles.extend(exp.iter().rev().take(2).cloned());
    needles.push(gen_str([0, probe_o[2], probe_o[1], 1]));
    needles.push(gen_str([0, probe_o[3], probe_o[2], 0]));
    needles.push(gen_rel([0, probe_o[1], probe_o[2], 224 * 3 * (probe_o[3] % 7)], &exp));
    needles.push(gen_rel([0, probe_o[2], probe_o[3], 224 * 3 * (probe_o[1] % 7)], &exp));
    // range(start, end): the strings x with start <= x < end, in order.  (With duplicates in
    // the content the boundary indices are any-of-several; only duplicate-free content is checked.)
    if exp.windows(2).all(|w| w[0] != w[1]) {
        for w in needles.windows(2).take(6) {
            let (a, b) = (&w[0], &w[1]);
            for (start, end) in [(a, b), (b, a)] {
                let got: Vec<String> = z.range(start, end).map(|x| x.to_string()).collect();
                let want: Vec<String> = exp.iter().filter(|x| *x >= start && *x < end).cloned().collect();
                h.ev(format!("range({:?}, {:?}) -> {} strings", start, end, got.len()));
                if got != want {
                    h.bad("wrong_sequence", "range", format!("range({:?}, {:?}) yields {:?}, the content {:?} has {:?} in that range", start, end, got, exp, want));
                    return;
                }
            }
        }
    }
    for x in needles {
        let r = z.binary_search(&x);
        h.ev(format!("binary_search({:?}) -> {:?}, contains -> {}", x, r, z.contains(&x)));
        let present = exp.contains(&x);
        match r {
            Ok(i) => {
                if exp.get(i) != Some(&x) {
                    h.bad("wrong_value", "binary_search", format!("binary_search({:?}) -> Ok({}) in {:?}", x, i, exp));
                }
            }
            Err(i) => {
                if present || i != exp.partition_point(|y| y < &x) {
                    h.bad("wrong_value", "binary_search", format!("binary_search({:?}) -> Err({}) in {:?}", x, i, exp));
                }
            }
        }
        if z.contains(&x) != present {
            h.bad("wrong_value", "contains", format!("contains({:?}) = {} in {:?}", x, !present, exp));
        }
        if h.failed() {
            return;
        }
    }
    h.cx.nontrivial = n >= 2;
}

// ---------------------------------------------------------------------------------------
// scenarios

#[derive(Clone, Copy)]
enum Kind {
    FastVecTracked,
    FastVecU64,
    FastVecU8,
    ValVecTracked,
    ValVecU64,
    CacheVec,
    Bump,
    Mmap,
    MmapU8,
    MmapSimd,
    FixedQueue,
    FixedQueueDebug,
    FixedLenLimit,
    AutoGrow,
    Sortable,
    SortableBulk,
    FixedLen,
    BitPacked32,
    BitPacked64,
    Advanced(u8),
    ZoSorted,
}

struct Sc(Kind);

impl Scenario for Sc {
    fn name(&self) -> String {
        match self.0 {
            Kind::FastVecTracked => "FastVec/tracked".into(),
            Kind::FastVecU64 => "FastVec/u64".into(),
            Kind::FastVecU8 => "FastVec/u8".into(),
            Kind::ValVecTracked => "ValVec32/tracked".into(),
            Kind::ValVecU64 => "ValVec32/u64".into(),
            Kind::CacheVec => "CacheAlignedVec/tracked".into(),
            Kind::Bump => "BumpVec/tracked".into(),
            Kind::Mmap => "MmapVec/u64".into(),
            Kind::MmapU8 => "MmapVec/u8".into(),
            Kind::MmapSimd => "MmapVec/with_capacity_simd".into(),
            Kind::FixedQueue => "FixedCircularQueue/tracked".into(),
            Kind::FixedQueueDebug => "FixedCircularQueue/debug".into(),
            Kind::AutoGrow => "AutoGrowCircularQueue/tracked".into(),
            Kind::Sortable => "SortableStrVec/ops".into(),
            Kind::SortableBulk => "SortableStrVec/bulk".into(),
            Kind::FixedLen => "FixedLenStrVec/ops".into(),
            Kind::BitPacked32 => "BitPackedStringVec/u32".into(),
            Kind::BitPacked64 => "BitPackedStringVec/u64".into(),
            Kind::Advanced(l) => format!("AdvancedStringVec/level{}", l),
            Kind::ZoSorted => "ZoSortedStrVec/build".into(),
            Kind::FixedLenLimit => "FixedLenStrVec/arena_limit".into(),
        }
    }
    fn budget(&self, tier: Tier) -> u64 {
        let (q, t) = match self.0 {
            // (the driver's per-run bookkeeping, ~0.1-0.7 ms of file I/O, dominates these cheap runs)
            Kind::Mmap => (2_000, 60_000),
            Kind::MmapU8 => (2_000, 60_000),
            Kind::MmapSimd => (600, 18_000),
            Kind::SortableBulk => (2_000, 60_000),
            Kind::FixedQueueDebug => (4_000, 120_000),
            Kind::FastVecU8 => (6_000, 180_000),
            Kind::ZoSorted => (3_000, 90_000),
            // (each run pushes 16 MiB of strings: a handful of runs)
            Kind::FixedLenLimit => (16, 160),
            // level 3 (prefix/substring sharing between entries) has by far the most state per push
            Kind::Advanced(3) => (40_000, 1_200_000),
            Kind::Sortable | Kind::FixedLen | Kind::BitPacked32 | Kind::BitPacked64 | Kind::Advanced(_) => (8_000, 240_000),
            _ => (10_000, 300_000),
        };
        match tier {
            Tier::Quick => q,
            Tier::Thorough => t,
        }
    }
    fn run(&self, cx: &mut Run) {
        match self.0 {
            Kind::FastVecTracked => fastvec_run::<Tracked>(cx),
            Kind::FastVecU64 => fastvec_run::<u64>(cx),
            Kind::FastVecU8 => fastvec_run::<u8>(cx),
            Kind::ValVecTracked => valvec_run::<Tracked>(cx),
            Kind::ValVecU64 => valvec_run::<u64>(cx),
            Kind::CacheVec => cachevec_run(cx),
            Kind::Bump => bumpvec_run(cx),
            Kind::Mmap => mmapvec_run::<u64>(cx),
            Kind::MmapU8 => mmapvec_run::<u8>(cx),
            Kind::MmapSimd => mmap_simd_run(cx),
            Kind::FixedQueue => fixed_queue(cx, false),
            Kind::FixedQueueDebug => fixed_queue(cx, true),
            Kind::AutoGrow => autogrow_run(cx),
            Kind::Sortable => sortable_run(cx),
            Kind::SortableBulk => sortable_bulk_run(cx),
            Kind::FixedLen => fixedlen(cx),
            Kind::BitPacked32 => bitpacked32_run(cx),
            Kind::BitPacked64 => bitpacked64_run(cx),
            Kind::Advanced(l) => advanced_run(cx, l),
            Kind::ZoSorted => zosorted_run(cx),
            Kind::FixedLenLimit => fixedlen_limit(cx),
        }
    }
}

fn main() {
    let mut spec = CheckSpec::new(
        "C10",
        "exploration",
        "seeded operation histories (swarm-configured: each operation kind is switched off in a quarter of the runs) over small capacities and short strings, \
         compared step by step with Vec / VecDeque models and a drop ledger; non-trivial = at least 3 operations executed (ZoSortedStrVec, SortableStrVec/bulk: at least 2 strings); \
         distinct = distinct hash of the (operation, observed result) trace",
    );
    spec.assumptions = vec![
        "single-threaded use of every container (FixedCircularQueue's SPSC claim is not exercised)".into(),
        "allocation never fails; the only capacity refusals exercised are the fixed queue being full, BumpVec capacity / arena exhaustion and FixedLenStrVec's length limit".into(),
        "MmapVec is reopened only after an explicit sync(); crash images are C19's subject".into(),
        "strings never contain a NUL byte (ZoSortedStrVec documents NUL-terminated storage)".into(),
        "a panicking Tracked::clone (panic safety) is not exercised: the property does not state it".into(),
    ];
    spec.components = vec![
        ("containers::FastVec", "real"),
        ("containers::specialized::ValVec32", "real"),
        ("memory::cache::CacheAlignedVec", "real"),
        ("memory::bump::{BumpAllocator, BumpVec}", "real"),
        ("memory::mmap_vec::MmapVec", "real, scratch files on tmpfs"),
        ("containers::specialized::{FixedCircularQueue, AutoGrowCircularQueue}", "real"),
        ("string vectors (SortableStrVec, FixedLenStrVec, BitPackedStringVec32/64, AdvancedStringVec levels 0-3, ZoSortedStrVec)", "real"),
        ("containers::specialized::circular_queue_ultrafast", "not compiled into the crate"),
        ("element type", "stub: Tracked (heap-owning, ledger-registered), u64, u8 (FastVec, MmapVec) or a 32-byte-aligned plain struct (BumpVec)"),
    ];
    spec.init = zsim_props::install_hooks;
    let kinds = [
        Kind::FastVecTracked,
        Kind::FastVecU64,
        Kind::FastVecU8,
        Kind::ValVecTracked,
        Kind::ValVecU64,
        Kind::CacheVec,
        Kind::Bump,
        Kind::Mmap,
        Kind::MmapU8,
        Kind::FixedQueue,
        Kind::FixedQueueDebug,
        Kind::AutoGrow,
        Kind::Sortable,
        Kind::SortableBulk,
        Kind::FixedLen,
        Kind::BitPacked32,
        Kind::BitPacked64,
        Kind::Advanced(0),
        Kind::Advanced(1),
        Kind::Advanced(2),
        Kind::Advanced(3),
        Kind::ZoSorted,
        Kind::FixedLenLimit,
        // last: a defect of this constructor writes outside its own mapping
        Kind::MmapSimd,
    ];
    for k in kinds {
        spec.scenarios.push(Box::new(Sc(k)));
    }
    zsim_core::driver::main(spec);
}
