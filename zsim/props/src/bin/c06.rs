//! C06 — hash maps behave as maps for every operation history and hasher.
//!
//! One seeded history of insert / remove / get / get_mut / contains_key / len / iter / clear
//! per run, over a small key alphabet, against every map type of the property; a
//! `BTreeMap` is the reference model.  The environment seam is the hash function:
//!
//! * `ZiporaHashMap<K, V, S>` takes the caller's `BuildHasher`; `SimHasher` returns, per key,
//!   exactly the 64-bit value the run chose for it (0, u64::MAX, 1, a shared value, values
//!   equal modulo powers of two, neighbouring values, or a well spread value).
//! * `GoldHashMap` (std `DefaultHasher::new()`, fixed keys), `GoldHashIdx`
//!   (`AHasher::default()`), `SmallMap` / `EasyHashMap` (`ZiporaHashMap<K, V, ahash::RandomState>`)
//!   hash internally.  There the pressure comes from the key type's `Hash` impl, which feeds
//!   the run's per-key class value to whatever hasher it is given: equal class value =
//!   full collision.  ahash is seeded from the OS once per process, so for the ahash-backed
//!   maps only histories whose outcome does not depend on the (process-random) slot layout
//!   are driven: all keys in one collision class where the underlying table is known to be
//!   layout-sensitive, see the scenario comments.

use std::collections::{BTreeMap, BTreeSet};
use std::hash::{BuildHasher, Hash, Hasher};
use std::sync::Arc;
use zipora::containers::{EasyHashMap, GoldHashIdx, HashStrMap, SmallMap};
use zipora::hash_map::{GoldHashMap, GoldHashMapConfig, IterationStrategy, LinkType, ZiporaHashMap, ZiporaHashMapConfig};
use zipora::memory::{SecureMemoryPool, SecurePoolConfig};
use zipora::string::FastStr;
use zsim_core::{Chan, CheckSpec, Run, Scenario, Tier};

// ---------------------------------------------------------------------------------------
// keys and the simulator-controlled hasher

/// A key whose identity is `id` and whose hash input is the class value `h` chosen by the run.
#[derive(Clone, Debug)]
struct SimKey {
    id: u32,
    h: u64,
}
impl PartialEq for SimKey {
    fn eq(&self, o: &SimKey) -> bool {
        self.id == o.id
    }
}
impl Eq for SimKey {}
impl Hash for SimKey {
    fn hash<H: Hasher>(&self, s: &mut H) {
        s.write_u64(self.h)
    }
}

/// The caller-supplied hash function of the run: returns, for every key, exactly the value
/// the run assigned to it.  Stable within the run (as the `Hash`/`BuildHasher` contract demands).
#[derive(Clone)]
struct SimHasher {
    /// id -> hash, used for keys that arrive as bytes ("k<id>" strings)
    table: Arc<Vec<u64>>,
}
struct SimHasherState {
    table: Arc<Vec<u64>>,
    out: u64,
}
impl BuildHasher for SimHasher {
    type Hasher = SimHasherState;
    fn build_hasher(&self) -> SimHasherState {
        SimHasherState { table: self.table.clone(), out: 0x0DD0_5EED_0DD0_5EED }
    }
}
impl Hasher for SimHasherState {
    fn finish(&self) -> u64 {
        self.out
    }
    fn write(&mut self, bytes: &[u8]) {
        // string keys are "k<decimal id>"; the 0xff terminator str::hash appends is ignored
        if bytes.first() == Some(&b'k') {
            let mut id = 0usize;
            for &c in &bytes[1..] {
                if c.is_ascii_digit() {
                    id = id * 10 + (c - b'0') as usize;
                }
            }
            if !self.table.is_empty() {
                self.out = self.table[id % self.table.len()];
            }
        }
    }
    fn write_u64(&mut self, v: u64) {
        self.out = v;
    }
}

trait SimK: Hash + Eq + Clone + 'static {
    fn make(id: usize, h: u64) -> Self;
    fn id(&self) -> usize;
}
impl SimK for SimKey {
    fn make(id: usize, h: u64) -> SimKey {
        SimKey { id: id as u32, h }
    }
    fn id(&self) -> usize {
        self.id as usize
    }
}
impl SimK for String {
    fn make(id: usize, _h: u64) -> String {
        format!("k{}", id)
    }
    fn id(&self) -> usize {
        self.get(1..).and_then(|s| s.parse().ok()).unwrap_or(usize::MAX)
    }
}

#[derive(Clone, Copy, PartialEq, Debug)]
enum Fam {
    /// a well-behaved hash function: distinct, well spread values (slot collisions still happen naturally)
    Spread,
    /// adversarial collisions: identical values, values equal modulo 2^k, neighbouring values
    Collide,
    /// values that tables like to use as markers: 0, u64::MAX, 1, u64::MAX-1, 1<<63
    Sentinel,
    /// everything above
    Mixed,
    /// every key in one class (the only layout-independent regime for process-seeded hashers)
    Same,
}

fn fam_name(f: Fam) -> &'static str {
    match f {
        Fam::Spread => "spread",
        Fam::Collide => "collide",
        Fam::Sentinel => "sentinel",
        Fam::Mixed => "mixed",
        Fam::Same => "same-hash",
    }
}

fn sm(x: u64) -> u64 {
    let mut z = x.wrapping_add(0x9E37_79B9_7F4A_7C15);
    z = (z ^ (z >> 30)).wrapping_mul(0xBF58_476D_1CE4_E5B9);
    z = (z ^ (z >> 27)).wrapping_mul(0x94D0_49BB_1331_11EB);
    z ^ (z >> 31)
}

/// never a marker value
fn good(h: u64) -> u64 {
    if h == 0 || h == u64::MAX || h == 1 || h == u64::MAX - 1 {
        0x5151_5151_5151_5150
    } else {
        h
    }
}

/// The run's hash function: one value per key.
fn gen_hashes(cfg: &Chan, n: usize, fam: Fam) -> Vec<u64> {
    let base = good(sm((cfg.below(1 << 32) << 32) | cfg.below(1 << 32)));
    if fam == Fam::Same {
        return vec![base; n];
    }
    let k = *cfg.pick(&[4u32, 5, 6, 7, 8, 16, 32]);
    // kinds: 0 spread, 1 base, 2 base + ((m+1) << k), 3 base + 1 + m, 4 zero, 5 MAX, 6 one, 7 MAX-1, 8 1<<63
    let w: [u32; 9] = match fam {
        Fam::Spread => [1, 0, 0, 0, 0, 0, 0, 0, 0],
        Fam::Collide => [2, 4, 4, 2, 0, 0, 0, 0, 0],
        Fam::Sentinel => [4, 1, 0, 0, 3, 3, 1, 1, 1],
        Fam::Mixed => [4, 3, 3, 2, 2, 2, 1, 1, 1],
        Fam::Same => unreachable!(),
    };
    (0..n)
        .map(|j| {
            let spread = good(sm(base ^ (j as u64 + 1).wrapping_mul(0xD6E8_FEB8_6659_FD93)));
            if fam == Fam::Spread {
                return spread;
            }
            let kind = cfg.weighted(&w);
            let m = cfg.below(8);
            match kind {
                0 => spread,
                1 => base,
                2 => good(base.wrapping_add((m + 1) << k)),
                3 => good(base.wrapping_add(1 + m)),
                4 => 0,
                5 => u64::MAX,
                6 => 1,
                7 => u64::MAX - 1,
                _ => 1u64 << 63,
            }
        })
        .collect()
}

// ---------------------------------------------------------------------------------------
// the uniform face of a map under test (keys are indices into the run's key table)

enum Ret {
    /// the map reports the previous value
    Prev(Option<u64>),
    /// the map's insert returns nothing (EasyHashMap::put)
    Unit,
}

trait Target {
    fn ty(&self) -> &'static str;
    fn insert(&mut self, k: usize, v: u64, variant: u64) -> Result<Ret, String>;
    fn remove(&mut self, k: usize) -> Result<Option<u64>, String>;
    fn get(&self, k: usize, variant: u64) -> Option<u64>;
    /// a second lookup API of the type, if it has one: (site suffix, result)
    fn get_alt(&self, _k: usize) -> Option<(&'static str, Option<u64>)> {
        None
    }
    /// get_mut(k): write `v` through the reference, return the value that was there.
    /// Outer None = the type has no such operation for this state.
    fn get_mut_set(&mut self, k: usize, v: u64, present: bool) -> Option<Option<u64>>;
    fn contains(&self, k: usize) -> bool;
    fn len(&self) -> usize;
    /// None = the type has no iteration API
    fn iter(&self) -> Option<Vec<(usize, u64)>>;
    /// a second iteration API whose documented precondition currently holds
    fn iter_alt(&self) -> Option<(&'static str, Vec<(usize, u64)>)> {
        None
    }
    /// false = the type has no clear()
    fn clear(&mut self) -> bool;
    /// an operation that must not change the map's contents; returns its description
    fn neutral(&mut self, _a: u64, _b: u64) -> Option<String> {
        None
    }
    /// bulk insert, if the type has one
    fn insert_batch(&mut self, _items: &[(usize, u64)]) -> Option<Result<(), String>> {
        None
    }
    fn capacity(&self) -> usize {
        0
    }
    /// false = the harness must not issue an insert now (workload restriction, see EasySc)
    fn allow_insert(&self, _k: usize) -> bool {
        true
    }
}

fn kname(k: usize) -> String {
    if k == usize::MAX {
        "k?".into()
    } else {
        format!("k{}", k)
    }
}

// ---- ZiporaHashMap<K, u64, SimHasher>

struct ZMap<K: SimK> {
    m: ZiporaHashMap<K, u64, SimHasher>,
    keys: Vec<K>,
}

impl<K: SimK> ZMap<K> {
    fn new(config: ZiporaHashMapConfig, hashes: &[u64]) -> Result<ZMap<K>, String> {
        let hb = SimHasher { table: Arc::new(hashes.to_vec()) };
        let m = ZiporaHashMap::with_config_and_hasher(config, hb).map_err(|e| e.to_string())?;
        Ok(ZMap { m, keys: hashes.iter().enumerate().map(|(i, &h)| K::make(i, h)).collect() })
    }
}

impl<K: SimK> Target for ZMap<K> {
    fn ty(&self) -> &'static str {
        "ZiporaHashMap"
    }
    fn insert(&mut self, k: usize, v: u64, _variant: u64) -> Result<Ret, String> {
        self.m.insert(self.keys[k].clone(), v).map(Ret::Prev).map_err(|e| e.to_string())
    }
    fn remove(&mut self, k: usize) -> Result<Option<u64>, String> {
        Ok(self.m.remove(&self.keys[k]))
    }
    fn get(&self, k: usize, _variant: u64) -> Option<u64> {
        self.m.get(&self.keys[k]).copied()
    }
    fn get_mut_set(&mut self, k: usize, v: u64, _present: bool) -> Option<Option<u64>> {
        Some(self.m.get_mut(&self.keys[k]).map(|r| std::mem::replace(r, v)))
    }
    fn contains(&self, k: usize) -> bool {
        self.m.contains_key(&self.keys[k])
    }
    fn len(&self) -> usize {
        self.m.len()
    }
    fn iter(&self) -> Option<Vec<(usize, u64)>> {
        Some(self.m.iter().map(|(k, v)| (k.id(), *v)).collect())
    }
    fn clear(&mut self) -> bool {
        self.m.clear();
        true
    }
    fn capacity(&self) -> usize {
        self.m.capacity()
    }
}

// ---- GoldHashMap<SimKey, u64, L>

struct Gold<L: LinkType> {
    m: GoldHashMap<SimKey, u64, L>,
    keys: Vec<SimKey>,
}

impl<L: LinkType> Target for Gold<L> {
    fn ty(&self) -> &'static str {
        "GoldHashMap"
    }
    fn insert(&mut self, k: usize, v: u64, _variant: u64) -> Result<Ret, String> {
        self.m.insert(self.keys[k].clone(), v).map(Ret::Prev).map_err(|e| e.to_string())
    }
    fn remove(&mut self, k: usize) -> Result<Option<u64>, String> {
        self.m.remove(&self.keys[k]).map_err(|e| e.to_string())
    }
    fn get(&self, k: usize, _variant: u64) -> Option<u64> {
        self.m.get(&self.keys[k]).copied()
    }
    fn get_mut_set(&mut self, k: usize, v: u64, _present: bool) -> Option<Option<u64>> {
        Some(self.m.get_mut(&self.keys[k]).map(|r| std::mem::replace(r, v)))
    }
    fn contains(&self, k: usize) -> bool {
        self.m.contains_key(&self.keys[k])
    }
    fn len(&self) -> usize {
        self.m.len()
    }
    fn iter(&self) -> Option<Vec<(usize, u64)>> {
        Some(self.m.iter().map(|(k, v)| (k.id(), *v)).collect())
    }
    fn iter_alt(&self) -> Option<(&'static str, Vec<(usize, u64)>)> {
        // iter_fast is documented for maps without deleted entries only
        if self.m.deleted_count() == 0 {
            Some(("iter_fast", self.m.iter_fast().map(|(k, v)| (k.id(), *v)).collect()))
        } else {
            None
        }
    }
    fn clear(&mut self) -> bool {
        self.m.clear();
        true
    }
    fn neutral(&mut self, a: u64, b: u64) -> Option<String> {
        match a % 4 {
            0 => {
                let r = self.m.revoke_deleted();
                Some(format!("revoke_deleted -> {}", if r.is_ok() { "ok" } else { "err" }))
            }
            1 => {
                let n = (b % 40) as usize;
                let r = self.m.reserve(n);
                Some(format!("reserve({}) -> {}", n, if r.is_ok() { "ok" } else { "err" }))
            }
            2 => {
                let on = !self.m.is_hash_cached();
                self.m.set_hash_caching(on);
                Some(format!("set_hash_caching({})", on))
            }
            _ => {
                let _ = self.m.load_factor();
                Some("load_factor".to_string())
            }
        }
    }
    fn capacity(&self) -> usize {
        self.m.capacity()
    }
}

// ---- GoldHashIdx<SimKey, u64>

struct Idx {
    m: GoldHashIdx<SimKey, u64>,
    keys: Vec<SimKey>,
}

impl Target for Idx {
    fn ty(&self) -> &'static str {
        "GoldHashIdx"
    }
    fn insert(&mut self, k: usize, v: u64, _variant: u64) -> Result<Ret, String> {
        self.m.insert(self.keys[k].clone(), v).map(Ret::Prev).map_err(|e| e.to_string())
    }
    fn remove(&mut self, k: usize) -> Result<Option<u64>, String> {
        Ok(self.m.remove(&self.keys[k]))
    }
    fn get(&self, k: usize, variant: u64) -> Option<u64> {
        if variant % 4 == 3 {
            self.m.get_batch(std::slice::from_ref(&self.keys[k]))[0].copied()
        } else {
            self.m.get(&self.keys[k]).copied()
        }
    }
    fn get_mut_set(&mut self, k: usize, v: u64, _present: bool) -> Option<Option<u64>> {
        Some(self.m.get_mut(&self.keys[k]).map(|r| std::mem::replace(r, v)))
    }
    fn contains(&self, k: usize) -> bool {
        self.m.contains_key(&self.keys[k])
    }
    fn len(&self) -> usize {
        self.m.len()
    }
    fn iter(&self) -> Option<Vec<(usize, u64)>> {
        None
    }
    fn clear(&mut self) -> bool {
        false
    }
    fn neutral(&mut self, _a: u64, _b: u64) -> Option<String> {
        self.m.shrink_to_fit();
        Some("shrink_to_fit".to_string())
    }
    fn insert_batch(&mut self, items: &[(usize, u64)]) -> Option<Result<(), String>> {
        let v: Vec<(SimKey, u64)> = items.iter().map(|&(k, v)| (self.keys[k].clone(), v)).collect();
        Some(self.m.insert_batch(v).map_err(|e| e.to_string()))
    }
}

// ---- SmallMap<SimKey, u64>

struct Small {
    m: SmallMap<SimKey, u64>,
    keys: Vec<SimKey>,
    use_iter: bool,
}

impl Target for Small {
    fn ty(&self) -> &'static str {
        "SmallMap"
    }
    fn insert(&mut self, k: usize, v: u64, _variant: u64) -> Result<Ret, String> {
        self.m.insert(self.keys[k].clone(), v).map(Ret::Prev).map_err(|e| e.to_string())
    }
    fn remove(&mut self, k: usize) -> Result<Option<u64>, String> {
        Ok(self.m.remove(&self.keys[k]))
    }
    fn get(&self, k: usize, _variant: u64) -> Option<u64> {
        self.m.get(&self.keys[k]).copied()
    }
    fn get_mut_set(&mut self, k: usize, v: u64, _present: bool) -> Option<Option<u64>> {
        Some(self.m.get_mut(&self.keys[k]).map(|r| std::mem::replace(r, v)))
    }
    fn contains(&self, k: usize) -> bool {
        self.m.contains_key(&self.keys[k])
    }
    fn len(&self) -> usize {
        self.m.len()
    }
    fn iter(&self) -> Option<Vec<(usize, u64)>> {
        if self.use_iter {
            Some(self.m.iter().map(|(k, v)| (k.id(), *v)).collect())
        } else {
            None
        }
    }
    fn clear(&mut self) -> bool {
        self.m.clear();
        true
    }
    fn capacity(&self) -> usize {
        self.m.capacity()
    }
}

// ---- SmallMap<u8, u64> with its SIMD lookup get_fast (inline storage only: at most 8 keys)

struct SmallU8 {
    m: SmallMap<u8, u64>,
    keys: Vec<u8>,
}

impl Target for SmallU8 {
    fn ty(&self) -> &'static str {
        "SmallMap<u8>"
    }
    /// stay in the inline representation (the large one hashes u8 keys with process-seeded ahash):
    /// a ninth key is looked up but never inserted
    fn allow_insert(&self, k: usize) -> bool {
        self.m.len() < 8 || self.m.contains_key(&self.keys[k])
    }
    fn insert(&mut self, k: usize, v: u64, _variant: u64) -> Result<Ret, String> {
        self.m.insert(self.keys[k], v).map(Ret::Prev).map_err(|e| e.to_string())
    }
    fn remove(&mut self, k: usize) -> Result<Option<u64>, String> {
        Ok(self.m.remove(&self.keys[k]))
    }
    fn get(&self, k: usize, _variant: u64) -> Option<u64> {
        self.m.get(&self.keys[k]).copied()
    }
    fn get_alt(&self, k: usize) -> Option<(&'static str, Option<u64>)> {
        Some(("get_fast", self.m.get_fast(&self.keys[k]).copied()))
    }
    fn get_mut_set(&mut self, k: usize, v: u64, _present: bool) -> Option<Option<u64>> {
        Some(self.m.get_mut(&self.keys[k]).map(|r| std::mem::replace(r, v)))
    }
    fn contains(&self, k: usize) -> bool {
        self.m.contains_key(&self.keys[k])
    }
    fn len(&self) -> usize {
        self.m.len()
    }
    fn iter(&self) -> Option<Vec<(usize, u64)>> {
        Some(self.m.iter().map(|(k, v)| (self.keys.iter().position(|x| x == k).unwrap_or(usize::MAX), *v)).collect())
    }
    fn clear(&mut self) -> bool {
        self.m.clear();
        true
    }
    fn capacity(&self) -> usize {
        self.m.capacity()
    }
}

// ---- EasyHashMap<SimKey, u64>

struct Easy {
    m: EasyHashMap<SimKey, u64>,
    keys: Vec<SimKey>,
    /// grow scenario: no put while the table may hold a tombstone, unless that put rebuilds the table
    guard: bool,
    /// a remove succeeded since the table was last rebuilt or cleared
    tomb: bool,
    cap_seen: usize,
}

impl Easy {
    /// EasyHashMap::should_grow, from the map's own statistics
    fn would_grow(&self) -> bool {
        let st = self.m.statistics();
        st.auto_grow_enabled && (st.capacity == 0 || st.len as f64 / st.capacity as f64 >= st.max_load_factor)
    }
    fn note_capacity(&mut self) {
        let c = self.m.capacity();
        if c != self.cap_seen {
            self.cap_seen = c;
            self.tomb = false;
        }
    }
}

impl Target for Easy {
    fn ty(&self) -> &'static str {
        "EasyHashMap"
    }
    fn allow_insert(&self, _k: usize) -> bool {
        !self.guard || !self.tomb || self.would_grow()
    }
    fn insert(&mut self, k: usize, v: u64, _variant: u64) -> Result<Ret, String> {
        self.m.put(self.keys[k].clone(), v);
        self.note_capacity();
        Ok(Ret::Unit)
    }
    fn remove(&mut self, k: usize) -> Result<Option<u64>, String> {
        let r = self.m.remove(&self.keys[k]);
        if r.is_some() {
            self.tomb = true;
        }
        Ok(r)
    }
    fn get(&self, k: usize, _variant: u64) -> Option<u64> {
        self.m.get(&self.keys[k]).copied()
    }
    fn get_mut_set(&mut self, k: usize, v: u64, present: bool) -> Option<Option<u64>> {
        // the type's only mutable access is get_or_insert; used as get_mut for keys that are present
        // (for an absent key it would be an insert)
        if !present || !self.m.contains_key(&self.keys[k]) {
            return None;
        }
        match self.m.get_or_insert(self.keys[k].clone(), v) {
            Ok(r) => Some(Some(std::mem::replace(r, v))),
            Err(_) => None,
        }
    }
    fn contains(&self, k: usize) -> bool {
        self.m.contains_key(&self.keys[k])
    }
    fn len(&self) -> usize {
        self.m.len()
    }
    fn iter(&self) -> Option<Vec<(usize, u64)>> {
        None
    }
    fn clear(&mut self) -> bool {
        self.m.clear();
        self.tomb = false;
        true
    }
    fn neutral(&mut self, a: u64, b: u64) -> Option<String> {
        // growth is only driven in the guarded scenario
        let a = if !self.guard && matches!(a % 5, 2 | 3) { 4 } else { a % 5 };
        match a {
            0 => {
                self.m.retain(|_, _| true);
                Some("retain(all)".to_string())
            }
            1 => {
                self.m.reserve(4);
                Some("reserve(4)".to_string())
            }
            2 => {
                let on = !self.m.statistics().auto_grow_enabled;
                self.m.set_auto_grow(on);
                Some(format!("set_auto_grow({})", on))
            }
            3 => {
                let f = [0.75f64, 0.1, 0.25, 0.5, 0.95][(b % 5) as usize];
                self.m.set_max_load_factor(f);
                Some(format!("set_max_load_factor({})", f))
            }
            _ => {
                let _ = self.m.statistics();
                Some("statistics".to_string())
            }
        }
    }
    fn capacity(&self) -> usize {
        self.m.capacity()
    }
}

// ---- HashStrMap<u64>

struct StrMap {
    m: HashStrMap<u64>,
    keys: Vec<String>,
}

impl StrMap {
    fn idx(&self, s: &str) -> usize {
        self.keys.iter().position(|x| x == s).unwrap_or(usize::MAX)
    }
}

impl Target for StrMap {
    fn ty(&self) -> &'static str {
        "HashStrMap"
    }
    fn insert(&mut self, k: usize, v: u64, variant: u64) -> Result<Ret, String> {
        let r = match variant % 3 {
            0 => self.m.insert(&self.keys[k], v),
            1 => self.m.insert_string(self.keys[k].clone(), v),
            _ => self.m.insert_fast_str(FastStr::from_string(&self.keys[k]), v),
        };
        r.map(Ret::Prev).map_err(|e| e.to_string())
    }
    fn remove(&mut self, k: usize) -> Result<Option<u64>, String> {
        Ok(self.m.remove(&self.keys[k]))
    }
    fn get(&self, k: usize, variant: u64) -> Option<u64> {
        if variant % 2 == 0 {
            self.m.get(&self.keys[k]).copied()
        } else {
            self.m.get_by_fast_str(&FastStr::from_string(&self.keys[k])).copied()
        }
    }
    fn get_mut_set(&mut self, k: usize, v: u64, _present: bool) -> Option<Option<u64>> {
        Some(self.m.get_mut(&self.keys[k]).map(|r| std::mem::replace(r, v)))
    }
    fn contains(&self, k: usize) -> bool {
        self.m.contains_key(&self.keys[k]) && self.m.is_interned(&self.keys[k])
    }
    fn len(&self) -> usize {
        self.m.len()
    }
    fn iter(&self) -> Option<Vec<(usize, u64)>> {
        Some(self.m.iter().map(|(k, v)| (self.idx(k), *v)).collect())
    }
    fn clear(&mut self) -> bool {
        self.m.clear();
        true
    }
    fn neutral(&mut self, _a: u64, _b: u64) -> Option<String> {
        self.m.shrink_to_fit();
        let _ = self.m.statistics();
        Some("shrink_to_fit".to_string())
    }
}

// ---------------------------------------------------------------------------------------
// the history driver and the oracle

const N_OPS: usize = 10;
const OP_NAME: [&str; N_OPS] = ["insert", "remove", "get", "get_mut", "contains_key", "len", "iter", "clear", "neutral", "insert_batch"];

struct Plan {
    nkeys: usize,
    planned: u64,
    /// weight of each operation kind in this run (swarm: some are switched off)
    w: [u64; N_OPS],
    /// 0 = only what the history asks; 1 = len + get of every key after every step; 2 = + iteration
    audit: u64,
}

/// size profile: (min keys, max keys, min ops, max ops, weight)
type Sizes = &'static [(usize, usize, u64, u64, u32)];

fn make_plan(cfg: &Chan, sizes: Sizes, base_w: [u64; N_OPS]) -> Plan {
    let ws: Vec<u32> = sizes.iter().map(|s| s.4).collect();
    let s = sizes[cfg.weighted(&ws)];
    let nkeys = cfg.range(s.0 as u64, s.1 as u64) as usize;
    let planned = cfg.range(s.2, s.3);
    let mut w = base_w;
    for (i, wi) in w.iter_mut().enumerate() {
        // 0 -> as is, 1 -> switched off for this run, 2 -> tripled
        let m = cfg.weighted(&[5, 2, 2]);
        if i == 0 {
            if m == 2 {
                *wi *= 3;
            }
        } else if m == 1 {
            *wi = 0;
        } else if m == 2 {
            *wi *= 3;
        }
    }
    let audit = cfg.weighted(&[3, 3, 3]) as u64;
    Plan { nkeys, planned, w, audit }
}

/// SmallMap<u8>::get_fast can hand out a slot past the live ones (uninitialised or stale memory):
/// its content is not reproducible and is never printed.
fn show_alt(name: &str, want: Option<u64>, got: Option<u64>, last_written: u64) -> String {
    if name == "get_fast" && want.is_none() && got.is_some() {
        "Some(<content of a slot past the live ones>)".into()
    } else {
        show(got, last_written)
    }
}

fn show(v: Option<u64>, last_written: u64) -> String {
    match v {
        None => "None".into(),
        Some(x) if x >= 1 && x <= last_written => format!("Some({})", x),
        // never print bytes the harness did not write (they may be uninitialised memory)
        Some(_) => "Some(<a value never written>)".into(),
    }
}

struct Oracle {
    ty: &'static str,
    nkeys: usize,
    /// per key: "" or a qualifier naming a marker-like hash value the run gave that key
    /// (only where the final hash value is the simulator's, i.e. behind the BuildHasher seam)
    quals: Vec<&'static str>,
    model: BTreeMap<usize, u64>,
    ever: BTreeSet<usize>,
    removed: BTreeSet<usize>,
    last_v: u64,
}

impl Oracle {
    fn qual(&self, k: usize) -> &'static str {
        self.quals.get(k).copied().unwrap_or("")
    }

    fn lookup_class(&self, _k: usize, want: Option<u64>, got: Option<u64>) -> &'static str {
        match (want, got) {
            (Some(_), None) => "lost_entry",
            (None, Some(_)) => "phantom_entry",
            _ => "wrong_value",
        }
    }

    /// Whatever clause was seen broken first, the most specific broken clause is reported:
    /// look every key up and report a wrong `get` if there is one.  true = violation recorded.
    fn sweep(&self, cx: &mut Run, t: &dyn Target, ctx: &str) -> bool {
        // keys whose hash is a marker value first: storing one of them can also break the probe
        // chain of an innocent key, and the finding should carry the cause
        let order: Vec<usize> = (0..self.nkeys).filter(|&k| !self.qual(k).is_empty()).chain((0..self.nkeys).filter(|&k| self.qual(k).is_empty())).collect();
        for k in order {
            let want = self.model.get(&k).copied();
            let got = t.get(k, 0);
            if got != want {
                cx.violate(
                    self.lookup_class(k, want, got),
                    &format!("{}.get{}", self.ty, self.qual(k)),
                    format!("get({}) = {} but the map should hold {}{}", kname(k), show(got, self.last_v), show(want, self.last_v), ctx),
                );
                return true;
            }
        }
        for k in 0..self.nkeys {
            if let Some((name, got)) = t.get_alt(k) {
                let want = self.model.get(&k).copied();
                if got != want {
                    cx.violate(
                        self.lookup_class(k, want, got),
                        &format!("{}.{}{}", self.ty, name, self.qual(k)),
                        format!("{}({}) = {} but the map should hold {}{}", name, kname(k), show_alt(name, want, got, self.last_v), show(want, self.last_v), ctx),
                    );
                    return true;
                }
            }
        }
        false
    }

    /// report a broken clause of operation `op` (after the sweep had its say)
    fn fail(&self, cx: &mut Run, t: &dyn Target, class: &str, op: &str, key: Option<usize>, detail: String, ctx: &str) {
        let sctx = if op == "get" {
            let k = key.map(kname).unwrap_or_default();
            format!(" (every key looked up because get({}) was wrong{})", k, ctx)
        } else {
            format!(" (looked up after {} showed {}{})", op, class, ctx)
        };
        if self.sweep(cx, t, &sctx) {
            return;
        }
        let q = key.map(|k| self.qual(k)).unwrap_or("");
        cx.violate(class, &format!("{}.{}{}", self.ty, op, q), format!("{}{}", detail, ctx));
    }

    /// compare one lookup result; true = violation recorded
    fn check_lookup(&self, cx: &mut Run, t: &dyn Target, op: &str, k: usize, got: Option<u64>, ctx: &str) -> bool {
        let want = self.model.get(&k).copied();
        if got == want {
            return false;
        }
        let class = self.lookup_class(k, want, got);
        self.fail(cx, t, class, op, Some(k), format!("{}({}) = {} but the map should hold {}", op, kname(k), show_alt(op, want, got, self.last_v), show(want, self.last_v)), ctx);
        true
    }

    fn check_len(&self, cx: &mut Run, t: &dyn Target, got: usize, ctx: &str) -> bool {
        if got != self.model.len() {
            self.fail(cx, t, "len_mismatch", "len", None, format!("len() = {} but {} keys are live", got, self.model.len()), ctx);
            return true;
        }
        false
    }

    fn check_iter(&self, cx: &mut Run, t: &dyn Target, op: &str, items: &[(usize, u64)], ctx: &str) -> bool {
        let mut seen: BTreeMap<usize, u64> = BTreeMap::new();
        for &(k, v) in items {
            if seen.contains_key(&k) {
                self.fail(cx, t, "iter_duplicate", op, Some(k), format!("{}() yielded {} more than once", op, kname(k)), ctx);
                return true;
            }
            seen.insert(k, v);
        }
        for (&k, &v) in &seen {
            match self.model.get(&k) {
                None => {
                    self.fail(cx, t, "iter_dead_entry", op, Some(k), format!("{}() yielded {} -> {} but that key is not in the map", op, kname(k), show(Some(v), self.last_v)), ctx);
                    return true;
                }
                Some(&w) if w != v => {
                    self.fail(cx, t, "iter_wrong_value", op, Some(k), format!("{}() yielded {} -> {} but the map should hold {}", op, kname(k), show(Some(v), self.last_v), w), ctx);
                    return true;
                }
                _ => {}
            }
        }
        for (&k, &w) in &self.model {
            if !seen.contains_key(&k) {
                self.fail(cx, t, "iter_missing", op, Some(k), format!("{}() did not yield the live entry {} -> {}", op, kname(k), w), ctx);
                return true;
            }
        }
        false
    }
}

fn render_items(items: &[(usize, u64)], last_v: u64) -> String {
    let mut s: Vec<(usize, u64)> = items.to_vec();
    s.sort();
    let body: Vec<String> = s.iter().map(|&(k, v)| format!("{}:{}", kname(k), if v >= 1 && v <= last_v { v.to_string() } else { "?".into() })).collect();
    format!("{{{}}}", body.join(", "))
}

fn describe_keys(cx: &mut Run, hashes: &[u64]) {
    for (c, chunk) in hashes.chunks(8).enumerate() {
        let body: Vec<String> = chunk.iter().enumerate().map(|(i, h)| format!("k{}={:#x}", c * 8 + i, h)).collect();
        cx.ev(format!("hash: {}", body.join(" ")));
    }
    let uniq: BTreeSet<u64> = hashes.iter().copied().collect();
    if uniq.len() < hashes.len() {
        cx.probe("keys_with_identical_hash");
    }
    if hashes.contains(&0) {
        cx.probe("key_hashing_to_0");
    }
    if hashes.contains(&u64::MAX) {
        cx.probe("key_hashing_to_u64_max");
    }
}

fn quals_for(hashes: &[u64]) -> Vec<&'static str> {
    hashes
        .iter()
        .map(|&h| {
            if h == 0 {
                "[hash=0]"
            } else if h == u64::MAX {
                "[hash=u64::MAX]"
            } else {
                ""
            }
        })
        .collect()
}

fn drive(cx: &mut Run, t: &mut dyn Target, p: &Plan, quals: Vec<&'static str>) {
    let ty = t.ty();
    let mut o = Oracle { ty, nkeys: p.nkeys, quals, model: BTreeMap::new(), ever: BTreeSet::new(), removed: BTreeSet::new(), last_v: 0 };
    let total: u64 = p.w.iter().sum::<u64>().max(1);
    let mut ops = cx.src.ops("ops", p.planned);
    let mut cap = t.capacity();
    let mut inserts_ok = 0u64;
    while let Some(op) = ops.next() {
        cx.steps += 1;
        let mut x = op[0] % total;
        let mut kind = 0usize;
        for (i, &wi) in p.w.iter().enumerate() {
            if x < wi {
                kind = i;
                break;
            }
            x -= wi;
        }
        let k = (op[1] % p.nkeys as u64) as usize;
        let present = o.model.contains_key(&k);
        cx.cell(format!("{}/{}/{}", ty, OP_NAME[kind], if present { "present" } else { "absent" }));
        if matches!(kind, 0 | 1 | 3 | 4) {
            // attribute precisely: an operation's own return value is only judged when a plain
            // lookup of its key was right immediately before it
            let got = t.get(k, 0);
            if o.check_lookup(cx, &*t, "get", k, got, &format!(" (looked up before step {}: {}({}))", cx.steps, OP_NAME[kind], kname(k))) {
                return;
            }
        }
        let kind = if kind == 0 && !t.allow_insert(k) { 2 } else { kind };
        match kind {
            0 => {
                o.last_v += 1;
                let v = o.last_v;
                let want = o.model.get(&k).copied();
                match t.insert(k, v, op[2]) {
                    Ok(r) => {
                        if o.removed.contains(&k) && !present {
                            cx.probe("reinsert_after_remove");
                        }
                        o.model.insert(k, v);
                        o.ever.insert(k);
                        inserts_ok += 1;
                        match r {
                            Ret::Prev(got) => {
                                cx.ev(format!("insert({}, {}) -> {}", kname(k), v, show(got, o.last_v)));
                                if got != want {
                                    o.fail(cx, &*t, "insert_return", "insert", Some(k), format!("insert({}, {}) returned {} but the previous value was {}", kname(k), v, show(got, o.last_v), show(want, o.last_v)), "");
                                    return;
                                }
                            }
                            Ret::Unit => cx.ev(format!("put({}, {})", kname(k), v)),
                        }
                    }
                    Err(e) => {
                        // a refusal: the map must be unchanged
                        cx.ev(format!("insert({}, {}) -> refused ({})", kname(k), v, e));
                        cx.probe("insert_refused");
                    }
                }
            }
            1 => match t.remove(k) {
                Ok(got) => {
                    cx.ev(format!("remove({}) -> {}", kname(k), show(got, o.last_v)));
                    let want = o.model.remove(&k);
                    if want.is_some() {
                        o.removed.insert(k);
                    }
                    // the stored value exactly when present; for an absent key no value either
                    // (a value there would mean the key was still stored)
                    if got != want {
                        o.fail(cx, &*t, "remove_return", "remove", Some(k), format!("remove({}) returned {} but the map held {}", kname(k), show(got, o.last_v), show(want, o.last_v)), "");
                        return;
                    }
                }
                Err(e) => {
                    cx.ev(format!("remove({}) -> refused ({})", kname(k), e));
                    cx.probe("remove_refused");
                }
            },
            2 => {
                let got = t.get(k, op[2]);
                cx.ev(format!("get({}) -> {}", kname(k), show(got, o.last_v)));
                if o.check_lookup(cx, &*t, "get", k, got, "") {
                    return;
                }
                if let Some((name, got)) = t.get_alt(k) {
                    cx.ev(format!("{}({}) -> {}", name, kname(k), show_alt(name, o.model.get(&k).copied(), got, o.last_v)));
                    if o.check_lookup(cx, &*t, name, k, got, "") {
                        return;
                    }
                }
            }
            3 => {
                let v = o.last_v + 1;
                match t.get_mut_set(k, v, present) {
                    Some(got) => {
                        let want = o.model.get(&k).copied();
                        if got.is_some() {
                            // the map wrote v into the entry it found
                            o.last_v = v;
                            o.model.insert(k, v);
                            cx.probe("write_through_get_mut");
                        }
                        cx.ev(format!("get_mut({}) -> {}{}", kname(k), show(got, o.last_v), if got.is_some() { format!(", wrote {}", v) } else { String::new() }));
                        if got != want {
                            let class = o.lookup_class(k, want, got);
                            o.fail(cx, &*t, class, "get_mut", Some(k), format!("get_mut({}) = {} but the map should hold {}", kname(k), show(got, o.last_v), show(want, o.last_v)), "");
                            return;
                        }
                    }
                    None => {
                        let got = t.get(k, 0);
                        cx.ev(format!("get({}) -> {}", kname(k), show(got, o.last_v)));
                        if o.check_lookup(cx, &*t, "get", k, got, "") {
                            return;
                        }
                    }
                }
            }
            4 => {
                let got = t.contains(k);
                cx.ev(format!("contains_key({}) -> {}", kname(k), got));
                if got != present {
                    o.fail(cx, &*t, "contains_mismatch", "contains_key", Some(k), format!("contains_key({}) = {} but the key is {}", kname(k), got, if present { "live" } else { "not in the map" }), "");
                    return;
                }
            }
            5 => {
                let got = t.len();
                cx.ev(format!("len() -> {}", got));
                if o.check_len(cx, &*t, got, "") {
                    return;
                }
            }
            6 => {
                if let Some(items) = t.iter() {
                    cx.ev(format!("iter() -> {}", render_items(&items, o.last_v)));
                    if o.check_iter(cx, &*t, "iter", &items, "") {
                        return;
                    }
                    if let Some((name, items)) = t.iter_alt() {
                        cx.ev(format!("{}() -> {}", name, render_items(&items, o.last_v)));
                        if o.check_iter(cx, &*t, name, &items, "") {
                            return;
                        }
                    }
                }
            }
            7 => {
                if t.clear() {
                    cx.ev("clear()");
                    if !o.model.is_empty() {
                        cx.probe("clear_nonempty");
                    }
                    for (k, _) in std::mem::take(&mut o.model) {
                        o.removed.insert(k);
                    }
                }
            }
            8 => {
                if let Some(d) = t.neutral(op[2], op[3]) {
                    cx.ev(d);
                }
            }
            _ => {
                let n = 1 + (op[2] % 5) as usize;
                let mut items = vec![];
                for j in 0..n {
                    items.push(((k + j * (1 + (op[3] % 3) as usize)) % p.nkeys, o.last_v + 1 + j as u64));
                }
                match t.insert_batch(&items) {
                    Some(Ok(())) => {
                        o.last_v += n as u64;
                        cx.ev(format!("insert_batch({}) -> ok", render_batch(&items)));
                        for &(k, v) in &items {
                            o.model.insert(k, v);
                            o.ever.insert(k);
                        }
                        inserts_ok += 1;
                    }
                    Some(Err(e)) => {
                        // a failed bulk insert may have applied a prefix; nothing the statement covers
                        o.last_v += n as u64;
                        cx.ev(format!("insert_batch({}) -> refused ({}); run ends", render_batch(&items), e));
                        cx.probe("insert_batch_refused");
                        break;
                    }
                    None => {}
                }
            }
        }
        let c = t.capacity();
        if c != cap {
            if c > cap {
                cx.probe("capacity_grew");
                if cap == 8 && ty.starts_with("SmallMap") {
                    cx.probe("smallmap_promoted_to_large");
                }
            } else {
                cx.probe("capacity_shrank");
            }
            cap = c;
        }
        if p.audit >= 1 {
            let ctx = format!(" (checked after step {}: {})", cx.steps, OP_NAME[kind]);
            if o.sweep(cx, &*t, &ctx) {
                return;
            }
            if p.audit >= 2 {
                if let Some(items) = t.iter() {
                    if o.check_iter(cx, &*t, "iter", &items, &ctx) {
                        return;
                    }
                }
                if let Some((name, items)) = t.iter_alt() {
                    if o.check_iter(cx, &*t, name, &items, &ctx) {
                        return;
                    }
                }
            }
            if o.check_len(cx, &*t, t.len(), &ctx) {
                return;
            }
        }
    }
    if o.model.len() >= 2 {
        cx.probe("ended_with_2plus_live_keys");
    }
    cx.nontrivial = cx.steps >= 3 && inserts_ok >= 1;
}

fn render_batch(items: &[(usize, u64)]) -> String {
    let body: Vec<String> = items.iter().map(|&(k, v)| format!("{}:{}", kname(k), v)).collect();
    format!("[{}]", body.join(", "))
}

// ---------------------------------------------------------------------------------------
// scenarios

const SZ_SMALL: Sizes = &[(3, 8, 4, 30, 6), (9, 24, 20, 90, 3), (17, 24, 40, 110, 2), (25, 40, 60, 160, 1)];
/// pool preset starts with 64 slots: growth needs more than 64 live keys
const SZ_POOL: Sizes = &[(3, 8, 4, 30, 5), (9, 24, 20, 90, 2), (66, 90, 140, 300, 3)];
const SZ_TINY: Sizes = &[(2, 8, 4, 40, 3), (9, 9, 16, 60, 2)];
const SZ_LE11: Sizes = &[(3, 8, 4, 30, 3), (9, 11, 20, 80, 2)];
const SZ_LE16: Sizes = &[(3, 8, 4, 30, 2), (9, 16, 20, 90, 5)];
const SZ_GROW: Sizes = &[(4, 12, 10, 60, 2), (13, 30, 20, 90, 3), (49, 70, 80, 200, 1)];

const W_ALL: [u64; N_OPS] = [7, 4, 3, 2, 1, 1, 1, 1, 1, 1];

#[derive(Clone, Copy, PartialEq)]
enum Preset {
    Default,
    WithCapacity,
    Pool,
    CacheOptimized,
    StringOptimized,
    SmallInline,
}

struct Zip {
    preset: Preset,
    fam: Fam,
}

impl Scenario for Zip {
    fn name(&self) -> String {
        let p = match self.preset {
            Preset::Default => "default",
            Preset::WithCapacity => "with_capacity",
            Preset::Pool => "pool",
            Preset::CacheOptimized => "cache_optimized",
            Preset::StringOptimized => "string_optimized",
            Preset::SmallInline => "small_inline",
        };
        format!("ZiporaHashMap.{}/{}", p, fam_name(self.fam))
    }
    fn budget(&self, tier: Tier) -> u64 {
        match tier {
            Tier::Quick => 6000,
            Tier::Thorough => 400_000,
        }
    }
    fn run(&self, cx: &mut Run) {
        let cfg = cx.src.chan("cfg");
        let plan = make_plan(&cfg, if self.preset == Preset::Pool { SZ_POOL } else { SZ_SMALL }, W_ALL);
        let hashes = gen_hashes(&cfg, plan.nkeys, self.fam);
        let mut cap_note = String::new();
        let config = match self.preset {
            Preset::Default => ZiporaHashMapConfig::default(),
            Preset::WithCapacity => ZiporaHashMapConfig::default(),
            Preset::Pool => match SecureMemoryPool::new(SecurePoolConfig::small_secure()) {
                Ok(p) => ZiporaHashMapConfig::concurrent_pool(p),
                Err(_) => return,
            },
            Preset::CacheOptimized => ZiporaHashMapConfig::cache_optimized(),
            Preset::StringOptimized => ZiporaHashMapConfig::string_optimized(),
            Preset::SmallInline => {
                let n = *cfg.pick(&[4usize, 1, 2, 8, 16]);
                cap_note = format!(" small_inline({})", n);
                ZiporaHashMapConfig::small_inline(n)
            }
        };
        cx.ev(format!("{} keys={} ops<={} audit={}{}", self.name(), plan.nkeys, plan.planned, plan.audit, cap_note));
        describe_keys(cx, &hashes);
        if self.preset == Preset::StringOptimized {
            match ZMap::<String>::new(config, &hashes) {
                Ok(mut t) => drive(cx, &mut t, &plan, vec![]),
                Err(e) => cx.ev(format!("constructor refused: {}", e)),
            }
            return;
        }
        if self.preset == Preset::WithCapacity {
            // ZiporaHashMap::with_capacity needs S: Default; the same configuration is built by hand
            let c = *cfg.pick(&[16usize, 0, 1, 17, 20, 24, 31, 32, 33, 48, 64]);
            cx.ev(format!("with_capacity({})", c));
            let mut conf = ZiporaHashMapConfig::default();
            conf.initial_capacity = c.max(16);
            if let zipora::hash_map::StorageStrategy::Standard { initial_capacity, .. } = &mut conf.storage_strategy {
                *initial_capacity = c.max(16);
            }
            match ZMap::<SimKey>::new(conf, &hashes) {
                Ok(mut t) => drive(cx, &mut t, &plan, quals_for(&hashes)),
                Err(e) => cx.ev(format!("constructor refused: {}", e)),
            }
            return;
        }
        // the hash qualifier of a site only means something where the storage uses the hash
        let quals = if matches!(self.preset, Preset::Default | Preset::Pool) { quals_for(&hashes) } else { vec![] };
        match ZMap::<SimKey>::new(config, &hashes) {
            Ok(mut t) => {
                drive(cx, &mut t, &plan, quals);
                if t.m.stats().rehashes > 0 {
                    cx.probe("zipora_rehash");
                }
            }
            Err(e) => cx.ev(format!("constructor refused: {}", e)),
        }
    }
}

#[derive(Clone, Copy, PartialEq)]
enum GoldCfg {
    Presets,
    Custom,
}

struct GoldSc {
    wide: bool,
    cfg: GoldCfg,
}

fn gold_config(cfg: &Chan, which: GoldCfg) -> (GoldHashMapConfig, String) {
    match which {
        GoldCfg::Presets => {
            let i = cfg.below(4);
            let (c, n) = match i {
                0 => (GoldHashMapConfig::default(), "default"),
                1 => (GoldHashMapConfig::small(), "small"),
                2 => (GoldHashMapConfig::high_churn(), "high_churn"),
                _ => (GoldHashMapConfig::large(), "large"),
            };
            (c, n.to_string())
        }
        GoldCfg::Custom => {
            let initial_capacity = *cfg.pick(&[5usize, 0, 1, 6, 11, 16, 23, 47]);
            let load_factor = *cfg.pick(&[0.7f32, 0.1, 0.3, 0.5, 0.9, 0.99, 0.999, 1.5, 0.0]);
            let enable_hash_cache = cfg.chance(1, 2);
            let enable_auto_gc = cfg.chance(1, 2);
            let no_reuse = cfg.chance(1, 4);
            let c = GoldHashMapConfig {
                initial_capacity,
                load_factor,
                enable_hash_cache,
                enable_auto_gc,
                enable_freelist_reuse: !no_reuse,
                // Fast iteration is documented to include deleted entries; only Safe is a map iteration
                default_iteration_strategy: IterationStrategy::Safe,
            };
            let d = format!("cap={} lf={} hash_cache={} auto_gc={} freelist_reuse={}", initial_capacity, load_factor, enable_hash_cache, enable_auto_gc, !no_reuse);
            (c, d)
        }
    }
}

impl Scenario for GoldSc {
    fn name(&self) -> String {
        format!("GoldHashMap.{}/{}", if self.wide { "u64" } else { "u32" }, if self.cfg == GoldCfg::Presets { "presets" } else { "custom" })
    }
    fn budget(&self, tier: Tier) -> u64 {
        match tier {
            Tier::Quick => 8000,
            Tier::Thorough => 500_000,
        }
    }
    fn run(&self, cx: &mut Run) {
        let cfg = cx.src.chan("cfg");
        let plan = make_plan(&cfg, SZ_SMALL, W_ALL);
        // DefaultHasher mixes the class value: equal class = full collision, nothing else is ours
        let fam = if cfg.chance(1, 2) { Fam::Collide } else { Fam::Spread };
        let hashes = gen_hashes(&cfg, plan.nkeys, fam);
        let (conf, d) = gold_config(&cfg, self.cfg);
        cx.ev(format!("{} keys={} ops<={} audit={} config: {}", self.name(), plan.nkeys, plan.planned, plan.audit, d));
        describe_keys(cx, &hashes);
        let keys: Vec<SimKey> = hashes.iter().enumerate().map(|(i, &h)| SimKey::make(i, h)).collect();
        if self.wide {
            let mut t = Gold::<u64> { m: GoldHashMap::with_config(conf), keys };
            drive(cx, &mut t, &plan, vec![]);
            if t.m.deleted_count() > 0 {
                cx.probe("gold_ended_with_deleted_slots");
            }
        } else {
            let mut t = Gold::<u32> { m: GoldHashMap::with_config(conf), keys };
            drive(cx, &mut t, &plan, vec![]);
            if t.m.deleted_count() > 0 {
                cx.probe("gold_ended_with_deleted_slots");
            }
        }
    }
}

struct IdxSc {
    fam: Fam,
}

impl Scenario for IdxSc {
    fn name(&self) -> String {
        format!("GoldHashIdx/{}", fam_name(self.fam))
    }
    fn budget(&self, tier: Tier) -> u64 {
        match tier {
            Tier::Quick => 6000,
            Tier::Thorough => 300_000,
        }
    }
    fn run(&self, cx: &mut Run) {
        let cfg = cx.src.chan("cfg");
        let mut plan = make_plan(&cfg, SZ_SMALL, W_ALL);
        // AHasher::default() is seeded per process: report the first divergence at the step that caused
        // it (what a corrupted table does later, e.g. in a rehash, could depend on the seed)
        plan.audit = plan.audit.max(1);
        let hashes = gen_hashes(&cfg, plan.nkeys, self.fam);
        let c = *cfg.pick(&[16usize, 0, 1, 17, 32, 100]);
        let own_pool = cfg.chance(1, 3);
        cx.ev(format!("{} keys={} ops<={} audit={} with_capacity({}) own_pool={}", self.name(), plan.nkeys, plan.planned, plan.audit, c, own_pool));
        describe_keys(cx, &hashes);
        let keys: Vec<SimKey> = hashes.iter().enumerate().map(|(i, &h)| SimKey::make(i, h)).collect();
        let m = if own_pool {
            match SecureMemoryPool::new(SecurePoolConfig::small_secure()) {
                Ok(p) => GoldHashIdx::with_pool(c, p),
                Err(_) => return,
            }
        } else if c == 16 {
            GoldHashIdx::new()
        } else {
            GoldHashIdx::with_capacity(c)
        };
        let mut t = Idx { m, keys };
        drive(cx, &mut t, &plan, vec![]);
    }
}

struct SmallSc {
    use_iter: bool,
}

impl Scenario for SmallSc {
    fn name(&self) -> String {
        format!("SmallMap/{}", if self.use_iter { "iter" } else { "no-iter" })
    }
    fn budget(&self, tier: Tier) -> u64 {
        match tier {
            Tier::Quick => 6000,
            Tier::Thorough => 300_000,
        }
    }
    fn run(&self, cx: &mut Run) {
        let cfg = cx.src.chan("cfg");
        // The large representation is a ZiporaHashMap with a process-seeded ahash state.  All keys
        // share one class and at most 16 keys exist, so that table never rehashes and its
        // behaviour is the same for every seed of the hasher (rotation of one probe cluster).
        let mut plan = make_plan(&cfg, SZ_LE16, W_ALL);
        // every step is followed by a full lookup + len check, so that the first divergence is
        // reported at the step that caused it (later behaviour of a corrupted table could depend on the seed)
        plan.audit = plan.audit.max(1);
        let hashes = gen_hashes(&cfg, plan.nkeys, Fam::Same);
        cx.ev(format!("{} keys={} ops<={} audit={}", self.name(), plan.nkeys, plan.planned, plan.audit));
        let keys: Vec<SimKey> = hashes.iter().enumerate().map(|(i, &h)| SimKey::make(i, h)).collect();
        let mut t = Small { m: SmallMap::new(), keys, use_iter: self.use_iter };
        drive(cx, &mut t, &plan, vec![]);
    }
}

struct SmallU8Sc;

impl Scenario for SmallU8Sc {
    fn name(&self) -> String {
        "SmallMap.u8/inline".into()
    }
    fn budget(&self, tier: Tier) -> u64 {
        match tier {
            Tier::Quick => 6000,
            Tier::Thorough => 300_000,
        }
    }
    fn run(&self, cx: &mut Run) {
        let cfg = cx.src.chan("cfg");
        let plan = make_plan(&cfg, SZ_TINY, W_ALL);
        const PAL: [u8; 9] = [3, 0, 255, 1, 128, 127, 64, 200, 9];
        let rot = cfg.below(9) as usize;
        let keys: Vec<u8> = (0..plan.nkeys).map(|i| PAL[(i + rot) % 9]).collect();
        cx.ev(format!("{} keys={:?} ops<={} audit={}", self.name(), keys, plan.planned, plan.audit));
        let mut t = SmallU8 { m: SmallMap::new(), keys };
        drive(cx, &mut t, &plan, vec![]);
    }
}

struct EasySc {
    grow: bool,
}

impl Scenario for EasySc {
    fn name(&self) -> String {
        format!("EasyHashMap/{}", if self.grow { "grow" } else { "same-hash" })
    }
    fn budget(&self, tier: Tier) -> u64 {
        match tier {
            Tier::Quick => 6000,
            Tier::Thorough => 300_000,
        }
    }
    fn run(&self, cx: &mut Run) {
        let cfg = cx.src.chan("cfg");
        // Process-seeded ahash underneath (see SmallMap): one collision class, so the table is one
        // probe cluster whose behaviour is the same wherever it starts.  What does depend on the seed
        // is the slot order in which put() copies the entries when it grows the table, and with it
        // every later put into a table that holds tombstones.  Hence:
        //   same-hash: at most 11 keys, never grows;
        //   grow:      many keys; a put is only issued while no remove has succeeded since the table
        //              was last rebuilt/cleared, or when that very put rebuilds the table (which is
        //              the step at which tombstones must disappear).  Other puts become gets.
        // put() returns nothing, so every step is followed by a lookup of every key and len().
        let mut plan = make_plan(&cfg, if self.grow { SZ_GROW } else { SZ_LE11 }, W_ALL);
        plan.audit = plan.audit.max(1);
        let hashes = gen_hashes(&cfg, plan.nkeys, Fam::Same);
        let variant = cfg.below(4);
        let lf = *cfg.pick(&[0.75f64, 0.5, 0.25, 0.95, 0.1]);
        let auto = !cfg.chance(1, 4);
        cx.ev(format!("{} keys={} ops<={} audit={} ctor={} max_load_factor={} auto_grow={}", self.name(), plan.nkeys, plan.planned, plan.audit, variant, lf, auto));
        let keys: Vec<SimKey> = hashes.iter().enumerate().map(|(i, &h)| SimKey::make(i, h)).collect();
        let mut m: EasyHashMap<SimKey, u64> = match variant {
            0 => EasyHashMap::new(),
            1 => EasyHashMap::with_default(0),
            2 => EasyHashMap::initial_capacity(16).build(),
            _ => EasyHashMap::initial_capacity(if self.grow { 32 } else { 16 }).build(),
        };
        if self.grow {
            m.set_max_load_factor(lf);
            m.set_auto_grow(auto);
        } else {
            // 11 of 16 slots stay below every load factor that is used here
            m.set_auto_grow(false);
        }
        let cap_seen = m.capacity();
        let mut t = Easy { m, keys, guard: self.grow, tomb: false, cap_seen };
        drive(cx, &mut t, &plan, vec![]);
    }
}

struct StrSc;

impl Scenario for StrSc {
    fn name(&self) -> String {
        "HashStrMap/str".into()
    }
    fn budget(&self, tier: Tier) -> u64 {
        match tier {
            Tier::Quick => 4000,
            Tier::Thorough => 200_000,
        }
    }
    fn run(&self, cx: &mut Run) {
        let cfg = cx.src.chan("cfg");
        let plan = make_plan(&cfg, &[(3, 12, 4, 40, 1)], W_ALL);
        let long = "a".repeat(40);
        let pal: [&str; 12] = ["a", "", "b", "ab", "a\0", "\0", "\u{e9}", &long, "k1", "K1", " a", "a "];
        let rot = cfg.below(12) as usize;
        let keys: Vec<String> = (0..plan.nkeys).map(|i| pal[(i + rot) % 12].to_string()).collect();
        cx.ev(format!("{} keys={:?} ops<={} audit={}", self.name(), keys, plan.planned, plan.audit));
        let m = if cfg.chance(1, 2) { HashStrMap::with_capacity(cfg.below(4) as usize) } else { HashStrMap::new() };
        let mut t = StrMap { m, keys };
        drive(cx, &mut t, &plan, vec![]);
    }
}

fn main() {
    let mut spec = CheckSpec::new(
        "C06",
        "exploration",
        "seeded operation histories (insert/remove/get/get_mut/contains_key/len/iter/clear + type-specific neutral operations) x seeded key sets x seeded hash function \
         (per-key value from {spread, shared, equal mod 2^k, neighbouring, 0, u64::MAX, 1, u64::MAX-1, 1<<63}) x map type/configuration, compared step by step with a BTreeMap; \
         non-trivial = at least 3 operations executed and at least one insert accepted; distinct = distinct hash of the event trace (configuration, hash table, operations and observed results)",
    );
    spec.assumptions = vec![
        "the final hash value is fully simulator-controlled only for ZiporaHashMap (BuildHasher seam); GoldHashMap (std DefaultHasher), GoldHashIdx (AHasher::default), SmallMap and EasyHashMap (ahash::RandomState) hash internally, so there only 'same class value = same hash' is controlled".into(),
        "ahash is seeded from the OS once per process: SmallMap's large representation and EasyHashMap are driven with all keys in one collision class and without a rehash-with-tombstones, the only histories whose outcome is the same for every seed; GoldHashIdx is also driven with distinct classes (its answers did not depend on the seed in any run)".into(),
        "GoldHashMap's Fast iteration strategy is documented to yield deleted entries and is only compared when deleted_count() == 0".into(),
        "an Err from insert/remove is a refusal: the map must then be unchanged".into(),
        "single-threaded; no allocation failure".into(),
    ];
    spec.components = vec![
        ("hash_map::ZiporaHashMap (all presets)", "real"),
        ("hash_map::GoldHashMap<u32|u64>", "real"),
        ("containers::GoldHashIdx + SecureMemoryPool", "real"),
        ("containers::SmallMap (generic and u8/get_fast)", "real"),
        ("containers::EasyHashMap", "real"),
        ("containers::HashStrMap", "real"),
        ("BuildHasher supplied to ZiporaHashMap", "stub (SimHasher: per-key value chosen by the run)"),
        ("Hash impl of the key type", "stub (feeds the run's class value)"),
    ];
    for fam in [Fam::Spread, Fam::Collide, Fam::Sentinel] {
        spec.scenarios.push(Box::new(Zip { preset: Preset::Default, fam }));
    }
    spec.scenarios.push(Box::new(Zip { preset: Preset::WithCapacity, fam: Fam::Mixed }));
    for fam in [Fam::Spread, Fam::Collide, Fam::Sentinel] {
        spec.scenarios.push(Box::new(Zip { preset: Preset::Pool, fam }));
    }
    spec.scenarios.push(Box::new(Zip { preset: Preset::CacheOptimized, fam: Fam::Mixed }));
    spec.scenarios.push(Box::new(Zip { preset: Preset::StringOptimized, fam: Fam::Mixed }));
    spec.scenarios.push(Box::new(Zip { preset: Preset::SmallInline, fam: Fam::Mixed }));
    spec.scenarios.push(Box::new(GoldSc { wide: false, cfg: GoldCfg::Presets }));
    spec.scenarios.push(Box::new(GoldSc { wide: false, cfg: GoldCfg::Custom }));
    spec.scenarios.push(Box::new(GoldSc { wide: true, cfg: GoldCfg::Custom }));
    spec.scenarios.push(Box::new(IdxSc { fam: Fam::Same }));
    spec.scenarios.push(Box::new(IdxSc { fam: Fam::Collide }));
    spec.scenarios.push(Box::new(SmallSc { use_iter: true }));
    spec.scenarios.push(Box::new(SmallSc { use_iter: false }));
    spec.scenarios.push(Box::new(SmallU8Sc));
    spec.scenarios.push(Box::new(EasySc { grow: false }));
    spec.scenarios.push(Box::new(EasySc { grow: true }));
    spec.scenarios.push(Box::new(StrSc));
    zsim_core::driver::main(spec);
}
