//! C06 — hash maps behave as maps for every operation history and hasher.
//!
//! One seeded history of insert / remove / get / get_mut / contains_key / len / is_empty / iter / clear
//! (+ per type: insert_batch / extend, get_or_insert[_with], retain(pred), clone and continued use of both
//! maps, capacity operations) per run, over a small key alphabet, against every map type of the
//! property; a `BTreeMap` is the reference model.  The environment seam is the hash function:
//!
//! * `ZiporaHashMap<K, V, S>` takes the caller's `BuildHasher`; `SimHasher` returns, per key,
//!   exactly the 64-bit value the run chose for it (0, u64::MAX, 1, a shared value, values
//!   equal modulo powers of two, neighbouring values, or a well spread value); in the
//!   `zipora-hashfn` scenario it is one of zipora's own hash functions over natural keys.
//! * `GoldHashMap` (std `DefaultHasher::new()`, fixed keys), `GoldHashIdx`
//!   (`AHasher::default()`), `SmallMap` / `EasyHashMap` (`ZiporaHashMap<K, V, ahash::RandomState>`)
//!   hash internally.  There the pressure comes from the key type's `Hash` impl, which feeds
//!   the run's per-key class value to whatever hasher it is given: equal class value =
//!   full collision.  ahash is seeded from the OS once per process, so for the ahash-backed
//!   maps only histories whose outcome does not depend on the (process-random) slot layout
//!   are driven: all keys in one collision class where the underlying table is known to be
//!   layout-sensitive, see the scenario comments.
//!
//! Shape of a history (per-run knobs, swarm style): operation weights (some switched off, some tripled),
//! `burst` (an insert/remove starts a run of the same operation over consecutive keys, ascending or
//! descending: fill everything / drain everything), `sticky` (an operation takes the key of the one
//! before it), `audit` (how much is re-read after every step).  The final state is always compared in full.

use std::collections::{BTreeMap, BTreeSet};
use std::hash::{BuildHasher, Hash, Hasher};
use std::sync::Arc;
use zipora::containers::{EasyHashMap, GoldHashIdx, HashStrMap, SmallMap};
use zipora::hash_map::{
    advanced_hash_combine, bmi2_hash_combine_u64, fabo_hash_combine_u64, fast_string_hash_bmi2, hash_combine_with_bmi2, hash_with_bmi2, specialized, CombineStrategy, GoldHashMap, GoldHashMapConfig,
    HashFunctionBuilder, HashStrategy, IterationStrategy, LinkType, OptimizationStrategy, StorageStrategy, ZiporaHashMap, ZiporaHashMapConfig,
};
use zipora::memory::{SecureMemoryPool, SecurePoolConfig};
use zipora::string::FastStr;
use zsim_core::{Chan, CheckSpec, Run, Scenario, Tier};

// ---------------------------------------------------------------------------------------
// keys and the simulator-controlled hasher

/// A key whose identity is `id` and whose hash input is the class value `h` chosen by the run.
#[derive(Clone, Debug)]
struct SimKey {
    id: u32,
    h: u64,
}
impl PartialEq for SimKey {
    fn eq(&self, o: &SimKey) -> bool {
        self.id == o.id
    }
}
impl Eq for SimKey {}
impl Hash for SimKey {
    fn hash<H: Hasher>(&self, s: &mut H) {
        s.write_u64(self.h)
    }
}

/// The caller-supplied hash function of the run.  `mode` 0: returns, for every key, exactly the value
/// the run assigned to it.  `mode` >= 1: one of zipora's own hash functions (src/hash_map/hash_functions.rs)
/// applied to what the key's `Hash` impl writes.  Stable within the run (as the `Hash`/`BuildHasher`
/// contract demands).  `Default` = mode 0 with an empty table: enough for `SimKey` (which writes its value).
#[derive(Clone, Default)]
struct SimHasher {
    /// id -> hash, used for keys that arrive as bytes ("k<id>" strings)
    table: Arc<Vec<u64>>,
    mode: u8,
    seed: u64,
}
struct SimHasherState {
    table: Arc<Vec<u64>>,
    mode: u8,
    seed: u64,
    out: u64,
}
const N_FN_MODES: u64 = 10;
fn fn_mode_name(mode: u8) -> &'static str {
    match mode {
        1 => "fabo_hash_combine_u64",
        2 => "bmi2_hash_combine_u64",
        3 => "advanced_hash_combine",
        4 => "hash_with_bmi2",
        5 => "specialized::hash_integer_bmi2",
        6 => "HashFunctionBuilder(Advanced).build_u64",
        7 => "hash_combine_with_bmi2",
        8 => "specialized::hash_complex_key_bmi2",
        9 => "HashFunctionBuilder(Xor,rot=0).build_u64",
        10 => "fast_string_hash_bmi2",
        _ => "per-key table",
    }
}
fn zipora_fn_u64(mode: u8, seed: u64, v: u64) -> u64 {
    match mode {
        1 => fabo_hash_combine_u64(seed, v),
        2 => bmi2_hash_combine_u64(seed, v),
        3 => advanced_hash_combine(&[seed, v]),
        4 => hash_with_bmi2(v.to_le_bytes()),
        5 => specialized::hash_integer_bmi2(v),
        6 => (HashFunctionBuilder::new().with_rotation(13).with_strategy(CombineStrategy::Advanced).build_u64())(seed, v),
        7 => hash_combine_with_bmi2(seed, v),
        8 => specialized::hash_complex_key_bmi2(&[seed, v]),
        9 => (HashFunctionBuilder::new().with_rotation(0).with_strategy(CombineStrategy::Xor).build_u64())(seed, v),
        _ => {
            let b = v.to_le_bytes();
            let txt: String = b.iter().map(|&c| (b'a' + (c & 15)) as char).collect();
            fast_string_hash_bmi2(&txt, seed)
        }
    }
}
fn zipora_fn_bytes(mode: u8, seed: u64, bytes: &[u8]) -> u64 {
    match mode {
        4 | 5 | 7 => hash_with_bmi2(bytes),
        10 | 1 | 2 => fast_string_hash_bmi2(std::str::from_utf8(bytes).unwrap_or("?"), seed),
        _ => {
            // the combiners, word by word
            let mut h = seed;
            for c in bytes.chunks(8) {
                let mut w = [0u8; 8];
                w[..c.len()].copy_from_slice(c);
                h = zipora_fn_u64(mode, h, u64::from_le_bytes(w));
            }
            h
        }
    }
}
impl BuildHasher for SimHasher {
    type Hasher = SimHasherState;
    fn build_hasher(&self) -> SimHasherState {
        SimHasherState { table: self.table.clone(), mode: self.mode, seed: self.seed, out: 0x0DD0_5EED_0DD0_5EED }
    }
}
impl Hasher for SimHasherState {
    fn finish(&self) -> u64 {
        self.out
    }
    fn write(&mut self, bytes: &[u8]) {
        if self.mode != 0 {
            // str::hash appends a 0xff terminator through write_u8: folded in like any other write
            let h = zipora_fn_bytes(self.mode, self.seed, bytes);
            self.out = zipora_fn_u64(self.mode, self.out, h);
            return;
        }
        // string keys are "k<decimal id>"; the 0xff terminator str::hash appends is ignored
        if bytes.first() == Some(&b'k') {
            let mut id = 0usize;
            for &c in &bytes[1..] {
                if c.is_ascii_digit() {
                    id = id * 10 + (c - b'0') as usize;
                }
            }
            if !self.table.is_empty() {
                self.out = self.table[id % self.table.len()];
            }
        }
    }
    fn write_u64(&mut self, v: u64) {
        self.out = if self.mode == 0 { v } else { zipora_fn_u64(self.mode, self.seed, v) };
    }
}

trait SimK: Hash + Eq + Clone + 'static {
    fn make(id: usize, h: u64) -> Self;
    fn id(&self) -> usize;
}
impl SimK for SimKey {
    fn make(id: usize, h: u64) -> SimKey {
        SimKey { id: id as u32, h }
    }
    fn id(&self) -> usize {
        self.id as usize
    }
}
impl SimK for String {
    fn make(id: usize, _h: u64) -> String {
        format!("k{}", id)
    }
    fn id(&self) -> usize {
        self.get(1..).and_then(|s| s.parse().ok()).unwrap_or(usize::MAX)
    }
}

#[derive(Clone, Copy, PartialEq, Debug)]
enum Fam {
    /// a well-behaved hash function: distinct, well spread values (slot collisions still happen naturally)
    Spread,
    /// adversarial collisions: identical values, values equal modulo 2^k, neighbouring values
    Collide,
    /// values that tables like to use as markers: 0, u64::MAX, 1, u64::MAX-1, 1<<63
    Sentinel,
    /// everything above
    Mixed,
    /// every key in one class (the only layout-independent regime for process-seeded hashers)
    Same,
}

fn fam_name(f: Fam) -> &'static str {
    match f {
        Fam::Spread => "spread",
        Fam::Collide => "collide",
        Fam::Sentinel => "sentinel",
        Fam::Mixed => "mixed",
        Fam::Same => "same-hash",
    }
}

fn sm(x: u64) -> u64 {
    let mut z = x.wrapping_add(0x9E37_79B9_7F4A_7C15);
    z = (z ^ (z >> 30)).wrapping_mul(0xBF58_476D_1CE4_E5B9);
    z = (z ^ (z >> 27)).wrapping_mul(0x94D0_49BB_1331_11EB);
    z ^ (z >> 31)
}

/// never a marker value
fn good(h: u64) -> u64 {
    if h == 0 || h == u64::MAX || h == 1 || h == u64::MAX - 1 {
        0x5151_5151_5151_5150
    } else {
        h
    }
}

/// The run's hash function: one value per key.
fn gen_hashes(cfg: &Chan, n: usize, fam: Fam) -> Vec<u64> {
    let base = good(sm((cfg.below(1 << 32) << 32) | cfg.below(1 << 32)));
    if fam == Fam::Same {
        return vec![base; n];
    }
    let k = *cfg.pick(&[4u32, 5, 6, 7, 8, 16, 32]);
    // kinds: 0 spread, 1 base, 2 base + ((m+1) << k), 3 base + 1 + m, 4 zero, 5 MAX, 6 one, 7 MAX-1, 8 1<<63
    let w: [u32; 9] = match fam {
        Fam::Spread => [1, 0, 0, 0, 0, 0, 0, 0, 0],
        Fam::Collide => [2, 4, 4, 2, 0, 0, 0, 0, 0],
        Fam::Sentinel => [4, 1, 0, 0, 3, 3, 1, 1, 1],
        Fam::Mixed => [4, 3, 3, 2, 2, 2, 1, 1, 1],
        Fam::Same => unreachable!(),
    };
    (0..n)
        .map(|j| {
            let spread = good(sm(base ^ (j as u64 + 1).wrapping_mul(0xD6E8_FEB8_6659_FD93)));
            if fam == Fam::Spread {
                return spread;
            }
            let kind = cfg.weighted(&w);
            let m = cfg.below(8);
            match kind {
                0 => spread,
                1 => base,
                2 => good(base.wrapping_add((m + 1) << k)),
                3 => good(base.wrapping_add(1 + m)),
                4 => 0,
                5 => u64::MAX,
                6 => 1,
                7 => u64::MAX - 1,
                _ => 1u64 << 63,
            }
        })
        .collect()
}

// ---------------------------------------------------------------------------------------
// the uniform face of a map under test (keys are indices into the run's key table)

enum Ret {
    /// the map reports the previous value
    Prev(Option<u64>),
    /// the map's insert returns nothing (EasyHashMap::put)
    Unit,
}

trait Target {
    fn ty(&self) -> &'static str;
    fn insert(&mut self, k: usize, v: u64, variant: u64) -> Result<Ret, String>;
    fn remove(&mut self, k: usize) -> Result<Option<u64>, String>;
    fn get(&self, k: usize, variant: u64) -> Option<u64>;
    /// a second lookup API of the type, if it has one: (site suffix, result)
    fn get_alt(&self, _k: usize) -> Option<(&'static str, Option<u64>)> {
        None
    }
    /// get_mut(k): write `v` through the reference, return the value that was there.
    /// Outer None = the type has no such operation for this state.
    fn get_mut_set(&mut self, k: usize, v: u64, present: bool) -> Option<Option<u64>>;
    fn contains(&self, k: usize) -> bool;
    fn len(&self) -> usize;
    /// None = the type has no iteration API
    fn iter(&self) -> Option<Vec<(usize, u64)>>;
    /// a second iteration API whose documented precondition currently holds
    fn iter_alt(&self) -> Option<(&'static str, Vec<(usize, u64)>)> {
        None
    }
    /// false = the type has no clear()
    fn clear(&mut self) -> bool;
    /// an operation that must not change the map's contents; returns its description
    fn neutral(&mut self, _a: u64, _b: u64) -> Option<String> {
        None
    }
    /// bulk insert, if the type has one
    fn insert_batch(&mut self, _items: &[(usize, u64)]) -> Option<Result<(), String>> {
        None
    }
    fn capacity(&self) -> usize {
        0
    }
    /// false = the harness must not issue an insert now (workload restriction, see EasySc)
    fn allow_insert(&self, _k: usize) -> bool {
        true
    }
    fn is_empty(&self) -> bool;
    /// `Clone`: set a clone of the map aside (replacing one set aside earlier).  false = the type is not `Clone`.
    fn fork(&mut self) -> bool {
        false
    }
    /// exchange the map in use and the one set aside
    fn swap_spare(&mut self) {}
    /// drop the map set aside
    fn drop_spare(&mut self) {}
    /// "entry().or_insert()" style access: (name of the API, value seen through the returned reference).
    /// Must insert `v` when the key is absent and leave a present key's value alone.  None = no such operation.
    fn get_or_insert(&mut self, _k: usize, _v: u64, _variant: u64) -> Option<(&'static str, Result<u64, String>)> {
        None
    }
    /// retain(pred) with pred(key) = `keep[key]`.  false = no such operation.
    fn retain(&mut self, _keep: &[bool]) -> bool {
        false
    }
}

// ---- value types: the statement quantifies over maps, not over `u64` values

/// A value carrying the number `v` the run wrote, in a representation of the run's choice.
trait Val: Clone + 'static {
    const NAME: &'static str;
    fn mk(v: u64) -> Self;
    /// the number, or `POISON` if the representation is no longer what `mk` built
    fn rd(&self) -> u64;
}
/// rendered as "<a value never written>"
const POISON: u64 = u64::MAX - 3;
impl Val for u64 {
    const NAME: &'static str = "u64";
    fn mk(v: u64) -> u64 {
        v
    }
    fn rd(&self) -> u64 {
        *self
    }
}
/// 24 bytes, no heap
#[derive(Clone)]
struct W24 {
    a: u64,
    b: u64,
    c: u64,
}
impl Val for W24 {
    const NAME: &'static str = "24-byte struct";
    fn mk(v: u64) -> W24 {
        W24 { a: v, b: !v, c: sm(v) }
    }
    fn rd(&self) -> u64 {
        if self.b == !self.a && self.c == sm(self.a) {
            self.a
        } else {
            POISON
        }
    }
}
/// 1040 bytes: above the 1024-byte class of the global value pools
#[derive(Clone)]
struct Big {
    a: u64,
    pad: [u64; 129],
}
impl Val for Big {
    const NAME: &'static str = "1040-byte struct";
    fn mk(v: u64) -> Big {
        let mut pad = [0u64; 129];
        for (i, p) in pad.iter_mut().enumerate() {
            *p = v ^ (i as u64 + 1).wrapping_mul(0x9E37_79B9_7F4A_7C15);
        }
        Big { a: v, pad }
    }
    fn rd(&self) -> u64 {
        if self.pad.iter().enumerate().all(|(i, &p)| p == self.a ^ (i as u64 + 1).wrapping_mul(0x9E37_79B9_7F4A_7C15)) {
            self.a
        } else {
            POISON
        }
    }
}
/// a value owning heap memory (has a destructor)
#[derive(Clone)]
struct HeapV(Box<[u64; 2]>);
impl Val for HeapV {
    const NAME: &'static str = "Box<[u64; 2]>";
    fn mk(v: u64) -> HeapV {
        HeapV(Box::new([v, !v]))
    }
    fn rd(&self) -> u64 {
        if self.0[1] == !self.0[0] {
            self.0[0]
        } else {
            POISON
        }
    }
}

fn kname(k: usize) -> String {
    if k == usize::MAX {
        "k?".into()
    } else {
        format!("k{}", k)
    }
}

// ---- ZiporaHashMap<K, u64, SimHasher>

struct ZMap<K: SimK> {
    m: ZiporaHashMap<K, u64, SimHasher>,
    spare: Option<ZiporaHashMap<K, u64, SimHasher>>,
    keys: Vec<K>,
}

impl<K: SimK> ZMap<K> {
    fn new(config: ZiporaHashMapConfig, hashes: &[u64]) -> Result<ZMap<K>, String> {
        ZMap::with_hasher(config, hashes, 0, 0)
    }
    fn with_hasher(config: ZiporaHashMapConfig, hashes: &[u64], mode: u8, seed: u64) -> Result<ZMap<K>, String> {
        let hb = SimHasher { table: Arc::new(hashes.to_vec()), mode, seed };
        let m = ZiporaHashMap::with_config_and_hasher(config, hb).map_err(|e| e.to_string())?;
        Ok(ZMap::from_map(m, hashes))
    }
    fn from_map(m: ZiporaHashMap<K, u64, SimHasher>, hashes: &[u64]) -> ZMap<K> {
        ZMap { m, spare: None, keys: hashes.iter().enumerate().map(|(i, &h)| K::make(i, h)).collect() }
    }
}

impl<K: SimK> Target for ZMap<K> {
    fn ty(&self) -> &'static str {
        "ZiporaHashMap"
    }
    fn insert(&mut self, k: usize, v: u64, _variant: u64) -> Result<Ret, String> {
        self.m.insert(self.keys[k].clone(), v).map(Ret::Prev).map_err(|e| e.to_string())
    }
    fn remove(&mut self, k: usize) -> Result<Option<u64>, String> {
        Ok(self.m.remove(&self.keys[k]))
    }
    fn get(&self, k: usize, _variant: u64) -> Option<u64> {
        self.m.get(&self.keys[k]).copied()
    }
    fn get_mut_set(&mut self, k: usize, v: u64, _present: bool) -> Option<Option<u64>> {
        Some(self.m.get_mut(&self.keys[k]).map(|r| std::mem::replace(r, v)))
    }
    fn contains(&self, k: usize) -> bool {
        self.m.contains_key(&self.keys[k])
    }
    fn len(&self) -> usize {
        self.m.len()
    }
    fn is_empty(&self) -> bool {
        self.m.is_empty()
    }
    fn iter(&self) -> Option<Vec<(usize, u64)>> {
        Some(self.m.iter().map(|(k, v)| (k.id(), *v)).collect())
    }
    fn clear(&mut self) -> bool {
        self.m.clear();
        true
    }
    fn capacity(&self) -> usize {
        self.m.capacity()
    }
    fn fork(&mut self) -> bool {
        self.spare = Some(self.m.clone());
        true
    }
    fn swap_spare(&mut self) {
        if let Some(s) = self.spare.as_mut() {
            std::mem::swap(&mut self.m, s);
        }
    }
    fn drop_spare(&mut self) {
        self.spare = None;
    }
}

// ---- GoldHashMap<SimKey, u64, L>

struct Gold<L: LinkType> {
    m: GoldHashMap<SimKey, u64, L>,
    keys: Vec<SimKey>,
}

impl<L: LinkType> Target for Gold<L> {
    fn ty(&self) -> &'static str {
        "GoldHashMap"
    }
    fn insert(&mut self, k: usize, v: u64, _variant: u64) -> Result<Ret, String> {
        self.m.insert(self.keys[k].clone(), v).map(Ret::Prev).map_err(|e| e.to_string())
    }
    fn remove(&mut self, k: usize) -> Result<Option<u64>, String> {
        self.m.remove(&self.keys[k]).map_err(|e| e.to_string())
    }
    fn get(&self, k: usize, _variant: u64) -> Option<u64> {
        self.m.get(&self.keys[k]).copied()
    }
    fn get_mut_set(&mut self, k: usize, v: u64, _present: bool) -> Option<Option<u64>> {
        Some(self.m.get_mut(&self.keys[k]).map(|r| std::mem::replace(r, v)))
    }
    fn contains(&self, k: usize) -> bool {
        self.m.contains_key(&self.keys[k])
    }
    fn len(&self) -> usize {
        self.m.len()
    }
    fn is_empty(&self) -> bool {
        self.m.is_empty()
    }
    fn iter(&self) -> Option<Vec<(usize, u64)>> {
        Some(self.m.iter().map(|(k, v)| (k.id(), *v)).collect())
    }
    fn iter_alt(&self) -> Option<(&'static str, Vec<(usize, u64)>)> {
        // iter_fast is documented for maps without deleted entries only
        if self.m.deleted_count() == 0 {
            Some(("iter_fast", self.m.iter_fast().map(|(k, v)| (k.id(), *v)).collect()))
        } else {
            Some(("iter_with_strategy(Safe)", self.m.iter_with_strategy(IterationStrategy::Safe).map(|(k, v)| (k.id(), *v)).collect()))
        }
    }
    fn clear(&mut self) -> bool {
        self.m.clear();
        true
    }
    fn neutral(&mut self, a: u64, b: u64) -> Option<String> {
        match a % 4 {
            0 => {
                let r = self.m.revoke_deleted();
                Some(format!("revoke_deleted -> {}", if r.is_ok() { "ok" } else { "err" }))
            }
            1 => {
                let n = (b % 40) as usize;
                let r = self.m.reserve(n);
                Some(format!("reserve({}) -> {}", n, if r.is_ok() { "ok" } else { "err" }))
            }
            2 => {
                let on = !self.m.is_hash_cached();
                self.m.set_hash_caching(on);
                Some(format!("set_hash_caching({})", on))
            }
            _ => {
                let _ = self.m.load_factor();
                Some("load_factor".to_string())
            }
        }
    }
    fn capacity(&self) -> usize {
        self.m.capacity()
    }
}

// ---- GoldHashIdx<SimKey, V>

struct Idx<V: Val> {
    m: GoldHashIdx<SimKey, V>,
    keys: Vec<SimKey>,
}

impl<V: Val> Target for Idx<V> {
    fn ty(&self) -> &'static str {
        "GoldHashIdx"
    }
    fn insert(&mut self, k: usize, v: u64, _variant: u64) -> Result<Ret, String> {
        self.m.insert(self.keys[k].clone(), V::mk(v)).map(|p| Ret::Prev(p.map(|x| x.rd()))).map_err(|e| e.to_string())
    }
    fn remove(&mut self, k: usize) -> Result<Option<u64>, String> {
        Ok(self.m.remove(&self.keys[k]).map(|x| x.rd()))
    }
    fn get(&self, k: usize, variant: u64) -> Option<u64> {
        if variant % 4 == 3 {
            // a batch of three lookups: the key, another key, the key again
            let other = self.keys[(k + 1 + (variant / 4) as usize % self.keys.len()) % self.keys.len()].clone();
            let q = [self.keys[k].clone(), other.clone(), self.keys[k].clone()];
            let r = self.m.get_batch(&q);
            if r.len() != 3 {
                return Some(POISON);
            }
            let a = r[0].map(|x| x.rd());
            let c = r[2].map(|x| x.rd());
            if a != c || r[1].map(|x| x.rd()) != self.m.get(&other).map(|x| x.rd()) {
                // the batch disagrees with itself or with get(): not what get() alone would say
                return Some(POISON);
            }
            a
        } else {
            self.m.get(&self.keys[k]).map(|x| x.rd())
        }
    }
    fn get_mut_set(&mut self, k: usize, v: u64, _present: bool) -> Option<Option<u64>> {
        Some(self.m.get_mut(&self.keys[k]).map(|r| {
            let old = r.rd();
            *r = V::mk(v);
            old
        }))
    }
    fn contains(&self, k: usize) -> bool {
        self.m.contains_key(&self.keys[k])
    }
    fn len(&self) -> usize {
        self.m.len()
    }
    fn is_empty(&self) -> bool {
        self.m.is_empty()
    }
    fn iter(&self) -> Option<Vec<(usize, u64)>> {
        None
    }
    fn clear(&mut self) -> bool {
        false
    }
    fn neutral(&mut self, a: u64, _b: u64) -> Option<String> {
        if a % 4 == 3 {
            let _ = self.m.memory_usage();
            return Some("memory_usage".to_string());
        }
        self.m.shrink_to_fit();
        Some("shrink_to_fit".to_string())
    }
    fn insert_batch(&mut self, items: &[(usize, u64)]) -> Option<Result<(), String>> {
        let v: Vec<(SimKey, V)> = items.iter().map(|&(k, v)| (self.keys[k].clone(), V::mk(v))).collect();
        Some(self.m.insert_batch(v).map_err(|e| e.to_string()))
    }
}

// ---- SmallMap<SimKey, V>

struct Small<V: Val> {
    m: SmallMap<SimKey, V>,
    spare: Option<SmallMap<SimKey, V>>,
    keys: Vec<SimKey>,
    use_iter: bool,
}

impl<V: Val> Target for Small<V> {
    fn ty(&self) -> &'static str {
        "SmallMap"
    }
    fn insert(&mut self, k: usize, v: u64, _variant: u64) -> Result<Ret, String> {
        self.m.insert(self.keys[k].clone(), V::mk(v)).map(|p| Ret::Prev(p.map(|x| x.rd()))).map_err(|e| e.to_string())
    }
    fn remove(&mut self, k: usize) -> Result<Option<u64>, String> {
        Ok(self.m.remove(&self.keys[k]).map(|x| x.rd()))
    }
    fn get(&self, k: usize, _variant: u64) -> Option<u64> {
        self.m.get(&self.keys[k]).map(|x| x.rd())
    }
    fn get_mut_set(&mut self, k: usize, v: u64, _present: bool) -> Option<Option<u64>> {
        Some(self.m.get_mut(&self.keys[k]).map(|r| {
            let old = r.rd();
            *r = V::mk(v);
            old
        }))
    }
    fn contains(&self, k: usize) -> bool {
        self.m.contains_key(&self.keys[k])
    }
    fn len(&self) -> usize {
        self.m.len()
    }
    fn is_empty(&self) -> bool {
        self.m.is_empty()
    }
    fn iter(&self) -> Option<Vec<(usize, u64)>> {
        if self.use_iter {
            Some(self.m.iter().map(|(k, v)| (k.id(), v.rd())).collect())
        } else {
            None
        }
    }
    fn clear(&mut self) -> bool {
        self.m.clear();
        true
    }
    fn capacity(&self) -> usize {
        self.m.capacity()
    }
    fn fork(&mut self) -> bool {
        self.spare = Some(self.m.clone());
        true
    }
    fn swap_spare(&mut self) {
        if let Some(s) = self.spare.as_mut() {
            std::mem::swap(&mut self.m, s);
        }
    }
    fn drop_spare(&mut self) {
        self.spare = None;
    }
}

// ---- SmallMap<u8, u64> with its SIMD lookup get_fast (inline storage only: at most 8 keys)

struct SmallU8 {
    m: SmallMap<u8, u64>,
    spare: Option<SmallMap<u8, u64>>,
    keys: Vec<u8>,
}

impl Target for SmallU8 {
    fn ty(&self) -> &'static str {
        "SmallMap<u8>"
    }
    /// stay in the inline representation (the large one hashes u8 keys with process-seeded ahash):
    /// a ninth key is looked up but never inserted
    fn allow_insert(&self, k: usize) -> bool {
        self.m.len() < 8 || self.m.contains_key(&self.keys[k])
    }
    fn insert(&mut self, k: usize, v: u64, _variant: u64) -> Result<Ret, String> {
        self.m.insert(self.keys[k], v).map(Ret::Prev).map_err(|e| e.to_string())
    }
    fn remove(&mut self, k: usize) -> Result<Option<u64>, String> {
        Ok(self.m.remove(&self.keys[k]))
    }
    fn get(&self, k: usize, _variant: u64) -> Option<u64> {
        self.m.get(&self.keys[k]).copied()
    }
    fn get_alt(&self, k: usize) -> Option<(&'static str, Option<u64>)> {
        Some(("get_fast", self.m.get_fast(&self.keys[k]).copied()))
    }
    fn get_mut_set(&mut self, k: usize, v: u64, _present: bool) -> Option<Option<u64>> {
        Some(self.m.get_mut(&self.keys[k]).map(|r| std::mem::replace(r, v)))
    }
    fn contains(&self, k: usize) -> bool {
        self.m.contains_key(&self.keys[k])
    }
    fn len(&self) -> usize {
        self.m.len()
    }
    fn is_empty(&self) -> bool {
        self.m.is_empty()
    }
    fn iter(&self) -> Option<Vec<(usize, u64)>> {
        Some(self.m.iter().map(|(k, v)| (self.keys.iter().position(|x| x == k).unwrap_or(usize::MAX), *v)).collect())
    }
    fn clear(&mut self) -> bool {
        self.m.clear();
        true
    }
    fn capacity(&self) -> usize {
        self.m.capacity()
    }
    fn fork(&mut self) -> bool {
        self.spare = Some(self.m.clone());
        true
    }
    fn swap_spare(&mut self) {
        if let Some(s) = self.spare.as_mut() {
            std::mem::swap(&mut self.m, s);
        }
    }
    fn drop_spare(&mut self) {
        self.spare = None;
    }
}

// ---- EasyHashMap<SimKey, u64>

struct Easy {
    m: EasyHashMap<SimKey, u64>,
    keys: Vec<SimKey>,
    /// grow scenario: no put while the table may hold a tombstone, unless that put rebuilds the table
    guard: bool,
    /// a remove succeeded since the table was last rebuilt or cleared
    tomb: bool,
    cap_seen: usize,
    /// the map was built with a default value (0, which the run never writes)
    has_default: bool,
}

impl Easy {
    /// EasyHashMap::should_grow, from the map's own statistics
    fn would_grow(&self) -> bool {
        let st = self.m.statistics();
        st.auto_grow_enabled && (st.capacity == 0 || st.len as f64 / st.capacity as f64 >= st.max_load_factor)
    }
    fn note_capacity(&mut self) {
        let c = self.m.capacity();
        if c != self.cap_seen {
            self.cap_seen = c;
            self.tomb = false;
        }
    }
}

impl Target for Easy {
    fn ty(&self) -> &'static str {
        "EasyHashMap"
    }
    fn allow_insert(&self, _k: usize) -> bool {
        !self.guard || !self.tomb || self.would_grow()
    }
    fn insert(&mut self, k: usize, v: u64, _variant: u64) -> Result<Ret, String> {
        self.m.put(self.keys[k].clone(), v);
        self.note_capacity();
        Ok(Ret::Unit)
    }
    fn remove(&mut self, k: usize) -> Result<Option<u64>, String> {
        let r = self.m.remove(&self.keys[k]);
        if r.is_some() {
            self.tomb = true;
        }
        Ok(r)
    }
    fn get(&self, k: usize, _variant: u64) -> Option<u64> {
        self.m.get(&self.keys[k]).copied()
    }
    fn get_alt(&self, k: usize) -> Option<(&'static str, Option<u64>)> {
        // get_or_default is documented for maps built with a default value; the default is 0 and
        // every value the run writes is >= 1, so "the default came back" reads as "absent"
        if !self.has_default {
            return None;
        }
        let r = *self.m.get_or_default(&self.keys[k]);
        Some(("get_or_default", if r == 0 { None } else { Some(r) }))
    }
    fn get_mut_set(&mut self, k: usize, v: u64, present: bool) -> Option<Option<u64>> {
        // the type's only mutable access is get_or_insert; used as get_mut for keys that are present
        // (for an absent key it is an insert: see get_or_insert below)
        if !present || !self.m.contains_key(&self.keys[k]) {
            return None;
        }
        match self.m.get_or_insert(self.keys[k].clone(), v) {
            Ok(r) => Some(Some(std::mem::replace(r, v))),
            Err(_) => None,
        }
    }
    fn get_or_insert(&mut self, k: usize, v: u64, variant: u64) -> Option<(&'static str, Result<u64, String>)> {
        let key = self.keys[k].clone();
        let r = if variant % 2 == 0 {
            ("get_or_insert", self.m.get_or_insert(key, v).map(|r| *r).map_err(|e| e.to_string()))
        } else {
            ("get_or_insert_with", self.m.get_or_insert_with(key, || v).map(|r| *r).map_err(|e| e.to_string()))
        };
        self.note_capacity();
        Some(r)
    }
    fn contains(&self, k: usize) -> bool {
        self.m.contains_key(&self.keys[k])
    }
    fn len(&self) -> usize {
        self.m.len()
    }
    fn is_empty(&self) -> bool {
        self.m.is_empty()
    }
    fn iter(&self) -> Option<Vec<(usize, u64)>> {
        None
    }
    fn clear(&mut self) -> bool {
        self.m.clear();
        self.tomb = false;
        true
    }
    fn retain(&mut self, keep: &[bool]) -> bool {
        let before = self.m.len();
        self.m.retain(|k, _| keep[k.id()]);
        if self.m.len() != before {
            self.tomb = true;
        }
        true
    }
    fn insert_batch(&mut self, items: &[(usize, u64)]) -> Option<Result<(), String>> {
        // extend() is a put per item; in the grow scenario only while the table holds no tombstone
        // (then no put of the batch can meet one: puts do not make tombstones)
        if self.guard && self.tomb {
            return None;
        }
        let v: Vec<(SimKey, u64)> = items.iter().map(|&(k, v)| (self.keys[k].clone(), v)).collect();
        if items.len() % 2 == 0 {
            self.m.extend(v);
        } else {
            std::iter::Extend::extend(&mut self.m, v);
        }
        self.note_capacity();
        Some(Ok(()))
    }
    fn neutral(&mut self, a: u64, b: u64) -> Option<String> {
        // growth is only driven in the guarded scenario
        let a = if !self.guard && matches!(a % 7, 2 | 3) { 4 } else { a % 7 };
        let d = match a {
            0 => {
                self.m.retain(|_, _| true);
                "retain(all)".to_string()
            }
            1 => {
                self.m.reserve(4);
                let r = self.m.try_reserve((b % 100) as usize);
                format!("reserve(4), try_reserve({}) -> {}", b % 100, if r.is_ok() { "ok" } else { "err" })
            }
            2 => {
                let on = !self.m.statistics().auto_grow_enabled;
                self.m.set_auto_grow(on);
                format!("set_auto_grow({})", on)
            }
            3 => {
                let f = [0.75f64, 0.1, 0.25, 0.5, 0.95][(b % 5) as usize];
                self.m.set_max_load_factor(f);
                format!("set_max_load_factor({})", f)
            }
            5 | 6 => {
                // rebuilds the table (from its iterator) when it is less than half full and larger than 32
                self.m.shrink_to_fit();
                "shrink_to_fit".to_string()
            }
            _ => {
                let _ = self.m.statistics();
                "statistics".to_string()
            }
        };
        self.note_capacity();
        Some(d)
    }
    fn capacity(&self) -> usize {
        self.m.capacity()
    }
}

// ---- HashStrMap<u64>

struct StrMap {
    m: HashStrMap<u64>,
    /// the keys as bytes; `text[i]` is Some for the valid UTF-8 ones
    keys: Vec<Vec<u8>>,
    text: Vec<Option<String>>,
}

impl StrMap {
    fn new(m: HashStrMap<u64>, keys: Vec<Vec<u8>>) -> StrMap {
        let text = keys.iter().map(|b| String::from_utf8(b.clone()).ok()).collect();
        StrMap { m, keys, text }
    }
    fn idx(&self, s: &str) -> usize {
        self.text.iter().position(|x| x.as_deref() == Some(s)).unwrap_or(usize::MAX)
    }
}

impl Target for StrMap {
    fn ty(&self) -> &'static str {
        "HashStrMap"
    }
    fn insert(&mut self, k: usize, v: u64, variant: u64) -> Result<Ret, String> {
        let r = match (&self.text[k], variant % 3) {
            (Some(s), 0) => self.m.insert(s, v),
            (Some(s), 1) => self.m.insert_string(s.clone(), v),
            // the only insert that takes bytes
            _ => self.m.insert_fast_str(FastStr::new(&self.keys[k]), v),
        };
        r.map(Ret::Prev).map_err(|e| e.to_string())
    }
    fn remove(&mut self, k: usize) -> Result<Option<u64>, String> {
        match &self.text[k] {
            Some(s) => Ok(self.m.remove(s)),
            None => Err("the type has no remove for a key that is not UTF-8; not issued".into()),
        }
    }
    fn get(&self, k: usize, variant: u64) -> Option<u64> {
        match &self.text[k] {
            Some(s) if variant % 2 == 0 => self.m.get(s).copied(),
            _ => self.m.get_by_fast_str(&FastStr::new(&self.keys[k])).copied(),
        }
    }
    fn get_mut_set(&mut self, k: usize, v: u64, _present: bool) -> Option<Option<u64>> {
        let s = self.text[k].as_ref()?;
        Some(self.m.get_mut(s).map(|r| std::mem::replace(r, v)))
    }
    fn contains(&self, k: usize) -> bool {
        match &self.text[k] {
            Some(s) => self.m.contains_key(s) && self.m.is_interned(s),
            None => self.m.get_by_fast_str(&FastStr::new(&self.keys[k])).is_some(),
        }
    }
    fn len(&self) -> usize {
        self.m.len()
    }
    fn is_empty(&self) -> bool {
        self.m.is_empty()
    }
    fn iter(&self) -> Option<Vec<(usize, u64)>> {
        Some(self.m.iter().map(|(k, v)| (self.idx(k), *v)).collect())
    }
    fn iter_alt(&self) -> Option<(&'static str, Vec<(usize, u64)>)> {
        // keys() and values() walk the same table in the same order
        Some(("keys+values", self.m.keys().zip(self.m.values()).map(|(k, v)| (self.idx(k), *v)).collect()))
    }
    fn clear(&mut self) -> bool {
        if self.m.len() % 2 == 0 {
            self.m.clear();
        } else {
            self.m.clear_all();
        }
        true
    }
    fn neutral(&mut self, _a: u64, _b: u64) -> Option<String> {
        self.m.shrink_to_fit();
        let _ = self.m.statistics();
        Some("shrink_to_fit".to_string())
    }
}

// ---------------------------------------------------------------------------------------
// the history driver and the oracle

const N_OPS: usize = 13;
const OP_NAME: [&str; N_OPS] = ["insert", "remove", "get", "get_mut", "contains_key", "len", "iter", "clear", "neutral", "insert_batch", "clone", "get_or_insert", "retain"];

struct Plan {
    nkeys: usize,
    planned: u64,
    /// weight of each operation kind in this run (swarm: some are switched off)
    w: [u64; N_OPS],
    /// 0 = only what the history asks; 1 = len + get of every key after every step; 2 = + iteration
    audit: u64,
    /// 0 = off; else one insert/remove in `burst` starts a run of the same operation over consecutive keys
    /// (fill everything, drain everything: the states independent draws over a large key set rarely reach)
    burst: u64,
    /// 0 = off; else one operation in `sticky` takes the key of the operation before it
    sticky: u64,
}

/// size profile: (min keys, max keys, min ops, max ops, weight)
type Sizes = &'static [(usize, usize, u64, u64, u32)];

fn make_plan(cfg: &Chan, sizes: Sizes, base_w: [u64; N_OPS]) -> Plan {
    let ws: Vec<u32> = sizes.iter().map(|s| s.4).collect();
    let s = sizes[cfg.weighted(&ws)];
    let nkeys = cfg.range(s.0 as u64, s.1 as u64) as usize;
    // one run in eight is four times as long
    let planned = cfg.range(s.2, s.3) * if cfg.chance(1, 8) { 4 } else { 1 };
    let mut w = base_w;
    for (i, wi) in w.iter_mut().enumerate() {
        // 0 -> as is, 1 -> switched off for this run, 2 -> tripled
        let m = cfg.weighted(&[5, 2, 2]);
        if i == 0 {
            if m == 2 {
                *wi *= 3;
            }
        } else if m == 1 {
            *wi = 0;
        } else if m == 2 {
            *wi *= 3;
        }
    }
    let audit = cfg.weighted(&[3, 3, 3]) as u64;
    let burst = *cfg.pick(&[0u64, 0, 4, 8, 16]);
    let sticky = *cfg.pick(&[0u64, 0, 3, 6]);
    Plan { nkeys, planned, w, audit, burst, sticky }
}

fn knobs(p: &Plan) -> String {
    format!("audit={} burst={} sticky={}", p.audit, p.burst, p.sticky)
}

/// SmallMap<u8>::get_fast can hand out a slot past the live ones (uninitialised or stale memory):
/// its content is not reproducible and is never printed.
fn show_alt(name: &str, want: Option<u64>, got: Option<u64>, last_written: u64) -> String {
    if name == "get_fast" && want.is_none() && got.is_some() {
        "Some(<content of a slot past the live ones>)".into()
    } else {
        show(got, last_written)
    }
}

fn show(v: Option<u64>, last_written: u64) -> String {
    match v {
        None => "None".into(),
        Some(x) if x >= 1 && x <= last_written => format!("Some({})", x),
        // never print bytes the harness did not write (they may be uninitialised memory)
        Some(_) => "Some(<a value never written>)".into(),
    }
}

struct Oracle {
    ty: &'static str,
    nkeys: usize,
    /// per key: "" or a qualifier naming a marker-like hash value the run gave that key
    /// (only where the final hash value is the simulator's, i.e. behind the BuildHasher seam)
    quals: Vec<&'static str>,
    model: BTreeMap<usize, u64>,
    ever: BTreeSet<usize>,
    removed: BTreeSet<usize>,
    last_v: u64,
}

impl Oracle {
    fn qual(&self, k: usize) -> &'static str {
        self.quals.get(k).copied().unwrap_or("")
    }

    fn lookup_class(&self, _k: usize, want: Option<u64>, got: Option<u64>) -> &'static str {
        match (want, got) {
            (Some(_), None) => "lost_entry",
            (None, Some(_)) => "phantom_entry",
            _ => "wrong_value",
        }
    }

    /// Whatever clause was seen broken first, the most specific broken clause is reported:
    /// look every key up and report a wrong `get` if there is one.  true = violation recorded.
    fn sweep(&self, cx: &mut Run, t: &dyn Target, ctx: &str) -> bool {
        // keys whose hash is a marker value first: storing one of them can also break the probe
        // chain of an innocent key, and the finding should carry the cause
        let order: Vec<usize> = (0..self.nkeys).filter(|&k| !self.qual(k).is_empty()).chain((0..self.nkeys).filter(|&k| self.qual(k).is_empty())).collect();
        for k in order {
            let want = self.model.get(&k).copied();
            let got = t.get(k, 0);
            if got != want {
                cx.violate(
                    self.lookup_class(k, want, got),
                    &format!("{}.get{}", self.ty, self.qual(k)),
                    format!("get({}) = {} but the map should hold {}{}", kname(k), show(got, self.last_v), show(want, self.last_v), ctx),
                );
                return true;
            }
        }
        for k in 0..self.nkeys {
            if let Some((name, got)) = t.get_alt(k) {
                let want = self.model.get(&k).copied();
                if got != want {
                    cx.violate(
                        self.lookup_class(k, want, got),
                        &format!("{}.{}{}", self.ty, name, self.qual(k)),
                        format!("{}({}) = {} but the map should hold {}{}", name, kname(k), show_alt(name, want, got, self.last_v), show(want, self.last_v), ctx),
                    );
                    return true;
                }
            }
        }
        false
    }

    /// report a broken clause of operation `op` (after the sweep had its say)
    fn fail(&self, cx: &mut Run, t: &dyn Target, class: &str, op: &str, key: Option<usize>, detail: String, ctx: &str) {
        let sctx = if op == "get" {
            let k = key.map(kname).unwrap_or_default();
            format!(" (every key looked up because get({}) was wrong{})", k, ctx)
        } else {
            format!(" (looked up after {} showed {}{})", op, class, ctx)
        };
        if self.sweep(cx, t, &sctx) {
            return;
        }
        let q = key.map(|k| self.qual(k)).unwrap_or("");
        cx.violate(class, &format!("{}.{}{}", self.ty, op, q), format!("{}{}", detail, ctx));
    }

    /// compare one lookup result; true = violation recorded
    fn check_lookup(&self, cx: &mut Run, t: &dyn Target, op: &str, k: usize, got: Option<u64>, ctx: &str) -> bool {
        let want = self.model.get(&k).copied();
        if got == want {
            return false;
        }
        let class = self.lookup_class(k, want, got);
        self.fail(cx, t, class, op, Some(k), format!("{}({}) = {} but the map should hold {}", op, kname(k), show_alt(op, want, got, self.last_v), show(want, self.last_v)), ctx);
        true
    }

    fn check_len(&self, cx: &mut Run, t: &dyn Target, got: usize, ctx: &str) -> bool {
        if got != self.model.len() {
            self.fail(cx, t, "len_mismatch", "len", None, format!("len() = {} but {} keys are live", got, self.model.len()), ctx);
            return true;
        }
        let e = t.is_empty();
        if e != self.model.is_empty() {
            self.fail(cx, t, "len_mismatch", "is_empty", None, format!("is_empty() = {} but {} keys are live", e, self.model.len()), ctx);
            return true;
        }
        false
    }

    /// First difference between the map in use and `model` (len, every key, iteration); used for the
    /// map a clone() made and for the map set aside, where the finding is about clone(), not about get().
    fn diff(&self, t: &dyn Target, model: &BTreeMap<usize, u64>) -> Option<String> {
        if t.len() != model.len() {
            return Some(format!("len() = {} instead of {}", t.len(), model.len()));
        }
        if t.is_empty() != model.is_empty() {
            return Some(format!("is_empty() = {} with {} keys", t.is_empty(), model.len()));
        }
        for k in 0..self.nkeys {
            let want = model.get(&k).copied();
            let got = t.get(k, 0);
            if got != want {
                return Some(format!("get({}) = {} instead of {}", kname(k), show(got, self.last_v), show(want, self.last_v)));
            }
        }
        if let Some(items) = t.iter() {
            let mut s: Vec<(usize, u64)> = items.clone();
            s.sort();
            let want: Vec<(usize, u64)> = model.iter().map(|(&k, &v)| (k, v)).collect();
            if s != want {
                return Some(format!("iter() yields {} instead of {}", render_items(&items, self.last_v), render_items(&want, self.last_v)));
            }
        }
        None
    }

    fn check_iter(&self, cx: &mut Run, t: &dyn Target, op: &str, items: &[(usize, u64)], ctx: &str) -> bool {
        let mut seen: BTreeMap<usize, u64> = BTreeMap::new();
        for &(k, v) in items {
            if seen.contains_key(&k) {
                self.fail(cx, t, "iter_duplicate", op, Some(k), format!("{}() yielded {} more than once", op, kname(k)), ctx);
                return true;
            }
            seen.insert(k, v);
        }
        for (&k, &v) in &seen {
            match self.model.get(&k) {
                None => {
                    self.fail(cx, t, "iter_dead_entry", op, Some(k), format!("{}() yielded {} -> {} but that key is not in the map", op, kname(k), show(Some(v), self.last_v)), ctx);
                    return true;
                }
                Some(&w) if w != v => {
                    self.fail(cx, t, "iter_wrong_value", op, Some(k), format!("{}() yielded {} -> {} but the map should hold {}", op, kname(k), show(Some(v), self.last_v), w), ctx);
                    return true;
                }
                _ => {}
            }
        }
        for (&k, &w) in &self.model {
            if !seen.contains_key(&k) {
                self.fail(cx, t, "iter_missing", op, Some(k), format!("{}() did not yield the live entry {} -> {}", op, kname(k), w), ctx);
                return true;
            }
        }
        false
    }
}

fn render_items(items: &[(usize, u64)], last_v: u64) -> String {
    let mut s: Vec<(usize, u64)> = items.to_vec();
    s.sort();
    let body: Vec<String> = s.iter().map(|&(k, v)| format!("{}:{}", kname(k), if v >= 1 && v <= last_v { v.to_string() } else { "?".into() })).collect();
    format!("{{{}}}", body.join(", "))
}

fn describe_keys(cx: &mut Run, hashes: &[u64]) {
    for (c, chunk) in hashes.chunks(8).enumerate() {
        let body: Vec<String> = chunk.iter().enumerate().map(|(i, h)| format!("k{}={:#x}", c * 8 + i, h)).collect();
        cx.ev(format!("hash: {}", body.join(" ")));
    }
    let uniq: BTreeSet<u64> = hashes.iter().copied().collect();
    if uniq.len() < hashes.len() {
        cx.probe("keys_with_identical_hash");
    }
    if hashes.contains(&0) {
        cx.probe("key_hashing_to_0");
    }
    if hashes.contains(&u64::MAX) {
        cx.probe("key_hashing_to_u64_max");
    }
}

fn quals_for(hashes: &[u64]) -> Vec<&'static str> {
    hashes
        .iter()
        .map(|&h| {
            if h == 0 {
                "[hash=0]"
            } else if h == u64::MAX {
                "[hash=u64::MAX]"
            } else {
                ""
            }
        })
        .collect()
}

/// the map set aside by a clone operation, as the model sees it
struct Spare {
    model: BTreeMap<usize, u64>,
    /// "clone" or "original": which of the two is set aside
    what: &'static str,
    step: u64,
}

fn check_spare(cx: &mut Run, t: &mut dyn Target, o: &Oracle, sp: &Spare, when: &str) -> bool {
    t.swap_spare();
    let d = o.diff(&*t, &sp.model);
    t.swap_spare();
    if let Some(d) = d {
        cx.violate(
            "clone_not_independent",
            &format!("{}.clone", o.ty),
            format!("the {} set aside at step {} was not touched since, but {}: {}", sp.what, sp.step, when, d),
        );
        return true;
    }
    false
}

/// every key, iteration, len/is_empty of the map in use against the model, booked on the map's own sites
fn full_check(cx: &mut Run, t: &dyn Target, o: &Oracle, ctx: &str) -> bool {
    if o.sweep(cx, t, ctx) {
        return true;
    }
    if let Some(items) = t.iter() {
        if o.check_iter(cx, t, "iter", &items, ctx) {
            return true;
        }
    }
    if let Some((name, items)) = t.iter_alt() {
        if o.check_iter(cx, t, name, &items, ctx) {
            return true;
        }
    }
    o.check_len(cx, t, t.len(), ctx)
}

fn drive(cx: &mut Run, t: &mut dyn Target, p: &Plan, quals: Vec<&'static str>) {
    let ty = t.ty();
    let mut o = Oracle { ty, nkeys: p.nkeys, quals, model: BTreeMap::new(), ever: BTreeSet::new(), removed: BTreeSet::new(), last_v: 0 };
    let total: u64 = p.w.iter().sum::<u64>().max(1);
    let mut ops = cx.src.ops("ops", p.planned);
    let mut cap = t.capacity();
    let mut inserts_ok = 0u64;
    let mut spare: Option<Spare> = None;
    // (kind, next key, direction, operations left)
    let mut burst: Option<(usize, usize, bool, u64)> = None;
    let mut last_k = 0usize;
    while let Some(op) = ops.next() {
        cx.steps += 1;
        let mut x = op[0] % total;
        let mut kind = 0usize;
        for (i, &wi) in p.w.iter().enumerate() {
            if x < wi {
                kind = i;
                break;
            }
            x -= wi;
        }
        let mut k = (op[1] % p.nkeys as u64) as usize;
        if let Some((bk, bn, up, left)) = burst {
            // inside a burst: the same operation over the next key
            kind = bk;
            k = bn % p.nkeys;
            let next = if up { (k + 1) % p.nkeys } else { (k + p.nkeys - 1) % p.nkeys };
            burst = if left > 1 { Some((bk, next, up, left - 1)) } else { None };
        } else {
            if p.sticky > 0 && (op[3] >> 10) % p.sticky == 0 {
                k = last_k % p.nkeys;
                cx.probe("same_key_as_previous_operation");
            }
            if p.burst > 0 && kind <= 1 && (op[3] >> 5) % p.burst == 0 {
                let up = (op[3] >> 4) & 1 == 0;
                let len = 1 + (op[2] >> 3) % (p.nkeys as u64 + 2);
                let next = if up { (k + 1) % p.nkeys } else { (k + p.nkeys - 1) % p.nkeys };
                burst = Some((kind, next, up, len));
                cx.probe(if kind == 0 { "insert_burst" } else { "remove_burst" });
            }
        }
        last_k = k;
        let present = o.model.contains_key(&k);
        cx.cell(format!("{}/{}/{}", ty, OP_NAME[kind], if present { "present" } else { "absent" }));
        if matches!(kind, 0 | 1 | 3 | 4 | 11) {
            // attribute precisely: an operation's own return value is only judged when a plain
            // lookup of its key was right immediately before it
            let got = t.get(k, 0);
            if o.check_lookup(cx, &*t, "get", k, got, &format!(" (looked up before step {}: {}({}))", cx.steps, OP_NAME[kind], kname(k))) {
                return;
            }
        }
        let kind = if (kind == 0 || (kind == 11 && !present)) && !t.allow_insert(k) { 2 } else { kind };
        match kind {
            0 => {
                o.last_v += 1;
                let v = o.last_v;
                let want = o.model.get(&k).copied();
                match t.insert(k, v, op[2]) {
                    Ok(r) => {
                        if o.removed.contains(&k) && !present {
                            cx.probe("reinsert_after_remove");
                        }
                        o.model.insert(k, v);
                        o.ever.insert(k);
                        inserts_ok += 1;
                        if o.model.len() == p.nkeys && p.nkeys >= 9 {
                            cx.probe("every_key_live_9plus");
                        }
                        match r {
                            Ret::Prev(got) => {
                                cx.ev(format!("insert({}, {}) -> {}", kname(k), v, show(got, o.last_v)));
                                if got != want {
                                    o.fail(cx, &*t, "insert_return", "insert", Some(k), format!("insert({}, {}) returned {} but the previous value was {}", kname(k), v, show(got, o.last_v), show(want, o.last_v)), "");
                                    return;
                                }
                            }
                            Ret::Unit => cx.ev(format!("put({}, {})", kname(k), v)),
                        }
                    }
                    Err(e) => {
                        // a refusal: the map must be unchanged
                        cx.ev(format!("insert({}, {}) -> refused ({})", kname(k), v, e));
                        cx.probe("insert_refused");
                    }
                }
            }
            1 => match t.remove(k) {
                Ok(got) => {
                    cx.ev(format!("remove({}) -> {}", kname(k), show(got, o.last_v)));
                    let want = o.model.remove(&k);
                    if want.is_some() {
                        o.removed.insert(k);
                        if o.model.is_empty() && o.ever.len() >= 9 {
                            cx.probe("drained_to_empty_after_9plus_keys");
                        }
                    }
                    // the stored value exactly when present; for an absent key no value either
                    // (a value there would mean the key was still stored)
                    if got != want {
                        o.fail(cx, &*t, "remove_return", "remove", Some(k), format!("remove({}) returned {} but the map held {}", kname(k), show(got, o.last_v), show(want, o.last_v)), "");
                        return;
                    }
                }
                Err(e) => {
                    cx.ev(format!("remove({}) -> refused ({})", kname(k), e));
                    cx.probe("remove_refused");
                }
            },
            2 => {
                let got = t.get(k, op[2]);
                cx.ev(format!("get({}) -> {}", kname(k), show(got, o.last_v)));
                if o.check_lookup(cx, &*t, "get", k, got, "") {
                    return;
                }
                if let Some((name, got)) = t.get_alt(k) {
                    cx.ev(format!("{}({}) -> {}", name, kname(k), show_alt(name, o.model.get(&k).copied(), got, o.last_v)));
                    if o.check_lookup(cx, &*t, name, k, got, "") {
                        return;
                    }
                }
            }
            3 => {
                let v = o.last_v + 1;
                match t.get_mut_set(k, v, present) {
                    Some(got) => {
                        let want = o.model.get(&k).copied();
                        if got.is_some() {
                            // the map wrote v into the entry it found
                            o.last_v = v;
                            o.model.insert(k, v);
                            cx.probe("write_through_get_mut");
                        }
                        cx.ev(format!("get_mut({}) -> {}{}", kname(k), show(got, o.last_v), if got.is_some() { format!(", wrote {}", v) } else { String::new() }));
                        if got != want {
                            let class = o.lookup_class(k, want, got);
                            o.fail(cx, &*t, class, "get_mut", Some(k), format!("get_mut({}) = {} but the map should hold {}", kname(k), show(got, o.last_v), show(want, o.last_v)), "");
                            return;
                        }
                    }
                    None => {
                        let got = t.get(k, 0);
                        cx.ev(format!("get({}) -> {}", kname(k), show(got, o.last_v)));
                        if o.check_lookup(cx, &*t, "get", k, got, "") {
                            return;
                        }
                    }
                }
            }
            4 => {
                let got = t.contains(k);
                cx.ev(format!("contains_key({}) -> {}", kname(k), got));
                if got != present {
                    o.fail(cx, &*t, "contains_mismatch", "contains_key", Some(k), format!("contains_key({}) = {} but the key is {}", kname(k), got, if present { "live" } else { "not in the map" }), "");
                    return;
                }
            }
            5 => {
                let got = t.len();
                cx.ev(format!("len() -> {}, is_empty() -> {}", got, t.is_empty()));
                if o.check_len(cx, &*t, got, "") {
                    return;
                }
            }
            6 => {
                if let Some(items) = t.iter() {
                    cx.ev(format!("iter() -> {}", render_items(&items, o.last_v)));
                    if !o.removed.is_empty() {
                        cx.probe("iter_after_a_removal");
                    }
                    if o.check_iter(cx, &*t, "iter", &items, "") {
                        return;
                    }
                    if let Some((name, items)) = t.iter_alt() {
                        cx.ev(format!("{}() -> {}", name, render_items(&items, o.last_v)));
                        if o.check_iter(cx, &*t, name, &items, "") {
                            return;
                        }
                    }
                }
            }
            7 => {
                if t.clear() {
                    cx.ev("clear()");
                    if !o.model.is_empty() {
                        cx.probe("clear_nonempty");
                    }
                    for (k, _) in std::mem::take(&mut o.model) {
                        o.removed.insert(k);
                    }
                }
            }
            8 => {
                if let Some(d) = t.neutral(op[2], op[3]) {
                    cx.ev(d);
                }
            }
            9 => {
                let n = 1 + (op[2] % 5) as usize;
                let mut items = vec![];
                for j in 0..n {
                    items.push(((k + j * (1 + (op[3] % 3) as usize)) % p.nkeys, o.last_v + 1 + j as u64));
                }
                match t.insert_batch(&items) {
                    Some(Ok(())) => {
                        o.last_v += n as u64;
                        cx.ev(format!("insert_batch({}) -> ok", render_batch(&items)));
                        for &(k, v) in &items {
                            o.model.insert(k, v);
                            o.ever.insert(k);
                        }
                        inserts_ok += 1;
                    }
                    Some(Err(e)) => {
                        // a failed bulk insert may have applied a prefix; nothing the statement covers
                        o.last_v += n as u64;
                        cx.ev(format!("insert_batch({}) -> refused ({}); run ends", render_batch(&items), e));
                        cx.probe("insert_batch_refused");
                        break;
                    }
                    None => {}
                }
            }
            10 => match spare.take() {
                None => {
                    // a finding about clone() needs a map that is itself right
                    if full_check(cx, &*t, &o, &format!(" (checked before clone() at step {})", cx.steps)) {
                        return;
                    }
                    if t.fork() {
                        cx.ev("clone()");
                        cx.probe("cloned");
                        if o.model.len() >= 9 {
                            cx.probe("cloned_with_9plus_keys");
                        }
                        // the clone must be the same map ...
                        t.swap_spare();
                        if let Some(d) = o.diff(&*t, &o.model) {
                            cx.violate("clone_differs", &format!("{}.clone", ty), format!("the clone of a map with {} differs from it: {}", render_items(&o.model.iter().map(|(&k, &v)| (k, v)).collect::<Vec<_>>(), o.last_v), d));
                            return;
                        }
                        // ... and from now on a map of its own: the history goes on with one of the two
                        let what = if op[2] % 2 == 0 {
                            t.swap_spare();
                            "clone"
                        } else {
                            cx.ev("continue with the clone");
                            cx.probe("continued_on_clone");
                            "original"
                        };
                        spare = Some(Spare { model: o.model.clone(), what, step: cx.steps });
                    }
                }
                Some(sp) => {
                    // the map in use may be set aside now: it must be right by its own sites first
                    if full_check(cx, &*t, &o, &format!(" (checked before the clone step {})", cx.steps)) {
                        return;
                    }
                    if check_spare(cx, t, &o, &sp, &format!("at step {}", cx.steps)) {
                        return;
                    }
                    cx.probe("set_aside_map_checked_later");
                    match op[2] % 3 {
                        0 => {
                            cx.ev(format!("drop the {} set aside at step {}", sp.what, sp.step));
                            t.drop_spare();
                        }
                        1 => {
                            cx.ev(format!("drop the map in use, continue with the {} set aside at step {}", sp.what, sp.step));
                            t.swap_spare();
                            t.drop_spare();
                            for &k in o.model.keys() {
                                o.removed.insert(k);
                            }
                            o.model = sp.model;
                        }
                        _ => {
                            cx.ev(format!("exchange the map in use and the {} set aside at step {}", sp.what, sp.step));
                            t.swap_spare();
                            let other = if sp.what == "clone" { "original" } else { "clone" };
                            let mine = std::mem::replace(&mut o.model, sp.model);
                            spare = Some(Spare { model: mine, what: other, step: sp.step });
                        }
                    }
                }
            },
            11 => {
                let v = o.last_v + 1;
                match t.get_or_insert(k, v, op[2]) {
                    Some((name, Ok(got))) => {
                        let want = o.model.get(&k).copied().unwrap_or(v);
                        // v was handed to the map (which must not store it under a present key)
                        o.last_v = v;
                        if !present {
                            o.model.insert(k, v);
                            o.ever.insert(k);
                            inserts_ok += 1;
                            cx.probe("get_or_insert_inserted");
                        }
                        cx.ev(format!("{}({}, {}) -> {}", name, kname(k), v, show(Some(got), o.last_v)));
                        if got != want {
                            o.fail(cx, &*t, "wrong_value", name, Some(k), format!("{}({}, {}) gave a reference to {} but the entry should hold {}", name, kname(k), v, show(Some(got), o.last_v), want), "");
                            return;
                        }
                    }
                    Some((name, Err(e))) => {
                        o.last_v = v;
                        cx.ev(format!("{}({}, {}) -> refused ({})", name, kname(k), v, e));
                        cx.probe("insert_refused");
                    }
                    None => {}
                }
            }
            _ => {
                let m = 2 + (op[2] % 3) as usize;
                let r = (op[3] % m as u64) as usize;
                let keep: Vec<bool> = (0..p.nkeys).map(|i| i % m != r).collect();
                if t.retain(&keep) {
                    let before = o.model.len();
                    let gone: Vec<usize> = o.model.keys().copied().filter(|&k| !keep[k]).collect();
                    for k in gone {
                        o.model.remove(&k);
                        o.removed.insert(k);
                    }
                    cx.ev(format!("retain(key % {} != {})", m, r));
                    if o.model.len() != before {
                        cx.probe("retain_removed_something");
                    }
                }
            }
        }
        let c = t.capacity();
        if c != cap {
            if c > cap {
                cx.probe("capacity_grew");
                if cap == 8 && ty.starts_with("SmallMap") {
                    cx.probe("smallmap_promoted_to_large");
                }
                if !o.removed.is_empty() {
                    cx.probe("capacity_grew_after_removals");
                }
            } else {
                cx.probe("capacity_shrank");
            }
            cap = c;
        }
        if p.audit >= 1 {
            let ctx = format!(" (checked after step {}: {})", cx.steps, OP_NAME[kind]);
            if o.sweep(cx, &*t, &ctx) {
                return;
            }
            if p.audit >= 2 {
                if let Some(items) = t.iter() {
                    if o.check_iter(cx, &*t, "iter", &items, &ctx) {
                        return;
                    }
                }
                if let Some((name, items)) = t.iter_alt() {
                    if o.check_iter(cx, &*t, name, &items, &ctx) {
                        return;
                    }
                }
            }
            if o.check_len(cx, &*t, t.len(), &ctx) {
                return;
            }
        }
    }
    // whatever the history asked for: the final state is always compared in full
    {
        if full_check(cx, &*t, &o, " (final check of the whole map)") {
            return;
        }
        if let Some(sp) = spare.take() {
            if check_spare(cx, t, &o, &sp, "at the end of the run") {
                return;
            }
        }
    }
    if o.model.len() >= 2 {
        cx.probe("ended_with_2plus_live_keys");
    }
    cx.nontrivial = cx.steps >= 3 && inserts_ok >= 1;
}

fn render_batch(items: &[(usize, u64)]) -> String {
    let body: Vec<String> = items.iter().map(|&(k, v)| format!("{}:{}", kname(k), v)).collect();
    format!("[{}]", body.join(", "))
}

// ---------------------------------------------------------------------------------------
// scenarios

const SZ_SMALL: Sizes = &[(3, 8, 4, 30, 6), (9, 24, 20, 90, 3), (17, 24, 40, 110, 2), (25, 40, 60, 160, 1)];
/// pool preset starts with 64 slots: growth needs more than 64 live keys
const SZ_POOL: Sizes = &[(3, 8, 4, 30, 5), (9, 24, 20, 90, 2), (66, 90, 140, 300, 3)];
const SZ_TINY: Sizes = &[(2, 8, 4, 40, 3), (9, 9, 16, 60, 2)];
const SZ_LE11: Sizes = &[(3, 8, 4, 30, 3), (9, 11, 20, 80, 2)];
const SZ_LE16: Sizes = &[(3, 8, 4, 30, 2), (9, 16, 20, 90, 5)];
const SZ_GROW: Sizes = &[(4, 12, 10, 60, 2), (13, 30, 20, 90, 3), (49, 70, 80, 200, 1)];

const W_ALL: [u64; N_OPS] = [7, 4, 3, 2, 1, 1, 1, 1, 1, 1, 0, 0, 0];
/// + clone
const W_CLONE: [u64; N_OPS] = [7, 4, 3, 2, 1, 1, 1, 1, 1, 1, 2, 0, 0];
/// EasyHashMap: + get_or_insert, retain
const W_EASY: [u64; N_OPS] = [7, 4, 3, 2, 1, 1, 1, 1, 2, 2, 0, 2, 1];

#[derive(Clone, Copy, PartialEq)]
enum Preset {
    Default,
    WithCapacity,
    Pool,
    CacheOptimized,
    StringOptimized,
    SmallInline,
    /// the public constructors themselves (new / default / with_capacity / with_config) and hand-written configurations
    Ctor,
    /// default configuration + clone()
    Cloning,
    /// default configuration, the hasher is one of zipora's own hash functions over natural keys
    ZiporaFn,
}

struct Zip {
    preset: Preset,
    fam: Fam,
}

/// A configuration a caller may write by hand (every field of `ZiporaHashMapConfig` is public).
fn custom_zip_config(cfg: &Chan) -> (ZiporaHashMapConfig, String) {
    let ic = *cfg.pick(&[16usize, 0, 1, 2, 3, 5, 8, 15, 17, 24, 32, 33, 64]);
    let ic2 = if cfg.chance(1, 3) { *cfg.pick(&[16usize, 0, 1, 7, 100]) } else { ic };
    let gf = *cfg.pick(&[2.0f64, 1.5, 1.0, 4.0]);
    let lf = *cfg.pick(&[0.75f64, 0.5, 1.0, 0.1, 0.99]);
    let d = *cfg.pick(&[64u16, 1, 2, 0, 16]);
    let (hs, hn) = match cfg.below(5) {
        0 => (HashStrategy::RobinHood { max_probe_distance: d, variance_reduction: cfg.chance(1, 2), backward_shift: cfg.chance(1, 2) }, "RobinHood"),
        1 => (HashStrategy::Chaining { load_factor: lf, hash_cache: cfg.chance(1, 2), compact_links: cfg.chance(1, 2) }, "Chaining"),
        2 => (HashStrategy::Hopscotch { neighborhood_size: d as u8, displacement_threshold: d }, "Hopscotch"),
        3 => (HashStrategy::LinearProbing { max_probe_distance: d, cache_aligned: cfg.chance(1, 2) }, "LinearProbing"),
        _ => (HashStrategy::Cuckoo { num_hash_functions: 2, max_evictions: d }, "Cuckoo"),
    };
    let (os, on) = match cfg.below(4) {
        0 => (OptimizationStrategy::Standard, "Standard"),
        1 => (OptimizationStrategy::SimdAccelerated { string_ops: true, bulk_ops: true, hash_computation: true }, "SimdAccelerated"),
        2 => (OptimizationStrategy::CacheAware { prefetch_distance: 2, hot_cold_separation: true, access_pattern_tracking: true }, "CacheAware"),
        _ => (OptimizationStrategy::HighPerformance { simd_enabled: false, cache_optimized: false, prefetch_enabled: false, numa_aware: false }, "HighPerformance(all off)"),
    };
    let c = ZiporaHashMapConfig { hash_strategy: hs, storage_strategy: StorageStrategy::Standard { initial_capacity: ic, growth_factor: gf }, optimization_strategy: os, initial_capacity: ic2, load_factor: lf };
    (c, format!("Standard{{initial_capacity={}, growth_factor={}}} initial_capacity={} load_factor={} {}(d={}) {}", ic, gf, ic2, lf, hn, d, on))
}

/// Natural key values for the zipora-hash-function scenario: distinct, with the regularities real keys have.
fn natural_keys(cfg: &Chan, n: usize) -> (Vec<u64>, &'static str) {
    let pat = cfg.below(8);
    let name = ["0,1,2,..", "multiples of 8", "multiples of 2^32", "i << 56", "u64::MAX - i", "i * 0x0101010101010101", "high bit set", "i*i"][pat as usize];
    let v = (0..n as u64)
        .map(|i| match pat {
            0 => i,
            1 => i * 8,
            2 => i << 32,
            3 => i << 56,
            4 => u64::MAX - i,
            5 => i.wrapping_mul(0x0101_0101_0101_0101),
            6 => (1u64 << 63) | i,
            _ => i * i,
        })
        .collect();
    (v, name)
}

impl Scenario for Zip {
    fn name(&self) -> String {
        let p = match self.preset {
            Preset::Default => "default",
            Preset::WithCapacity => "with_capacity",
            Preset::Pool => "pool",
            Preset::CacheOptimized => "cache_optimized",
            Preset::StringOptimized => "string_optimized",
            Preset::SmallInline => "small_inline",
            Preset::Ctor => "ctor",
            Preset::Cloning => "clone",
            Preset::ZiporaFn => return "ZiporaHashMap.default/zipora-hashfn".into(),
        };
        format!("ZiporaHashMap.{}/{}", p, fam_name(self.fam))
    }
    fn budget(&self, tier: Tier) -> u64 {
        match tier {
            Tier::Quick => 6000,
            Tier::Thorough => 400_000,
        }
    }
    fn run(&self, cx: &mut Run) {
        let cfg = cx.src.chan("cfg");
        let w = if self.preset == Preset::Cloning { W_CLONE } else { W_ALL };
        let plan = make_plan(&cfg, if self.preset == Preset::Pool { SZ_POOL } else { SZ_SMALL }, w);
        if self.preset == Preset::ZiporaFn {
            let (vals, pat) = natural_keys(&cfg, plan.nkeys);
            let mode = 1 + cfg.below(N_FN_MODES) as u8;
            let seed = *cfg.pick(&[0u64, 1, 0x9E37_79B9_7F4A_7C15, u64::MAX]);
            let strings = cfg.chance(1, 3);
            cx.ev(format!("{} keys={} ops<={} {} hasher={}(seed {:#x}) keys: {}{}", self.name(), plan.nkeys, plan.planned, knobs(&plan), fn_mode_name(mode), seed, if strings { "strings k<i>" } else { pat }, ""));
            if strings {
                match ZMap::<String>::with_hasher(ZiporaHashMapConfig::default(), &vals, mode, seed) {
                    Ok(mut t) => drive(cx, &mut t, &plan, vec![]),
                    Err(e) => cx.ev(format!("constructor refused: {}", e)),
                }
            } else {
                match ZMap::<SimKey>::with_hasher(ZiporaHashMapConfig::default(), &vals, mode, seed) {
                    Ok(mut t) => drive(cx, &mut t, &plan, vec![]),
                    Err(e) => cx.ev(format!("constructor refused: {}", e)),
                }
            }
            return;
        }
        let hashes = gen_hashes(&cfg, plan.nkeys, self.fam);
        if self.preset == Preset::Ctor {
            // the constructors that need `S: Default` (SimKey writes its value, so the default SimHasher is the run's hash function)
            let which = cfg.below(5);
            let (m, d): (Result<ZiporaHashMap<SimKey, u64, SimHasher>, String>, String) = match which {
                0 => (ZiporaHashMap::new().map_err(|e| e.to_string()), "new()".into()),
                1 => (Ok(ZiporaHashMap::default()), "default()".into()),
                2 => {
                    let c = *cfg.pick(&[16usize, 0, 1, 15, 17, 20, 24, 31, 32, 33, 48, 64, 100]);
                    (ZiporaHashMap::with_capacity(c).map_err(|e| e.to_string()), format!("with_capacity({})", c))
                }
                _ => {
                    let (c, d) = custom_zip_config(&cfg);
                    (ZiporaHashMap::with_config(c).map_err(|e| e.to_string()), format!("with_config({})", d))
                }
            };
            cx.ev(format!("{} keys={} ops<={} {} {}", self.name(), plan.nkeys, plan.planned, knobs(&plan), d));
            describe_keys(cx, &hashes);
            match m {
                Ok(m) => {
                    let mut t = ZMap::from_map(m, &hashes);
                    drive(cx, &mut t, &plan, quals_for(&hashes));
                    if t.m.stats().rehashes > 0 {
                        cx.probe("zipora_rehash");
                    }
                }
                Err(e) => cx.ev(format!("constructor refused: {}", e)),
            }
            return;
        }
        let mut cap_note = String::new();
        let config = match self.preset {
            Preset::Default | Preset::Cloning => ZiporaHashMapConfig::default(),
            Preset::WithCapacity => ZiporaHashMapConfig::default(),
            Preset::Pool => match SecureMemoryPool::new(SecurePoolConfig::small_secure()) {
                Ok(p) => ZiporaHashMapConfig::concurrent_pool(p),
                Err(_) => return,
            },
            Preset::CacheOptimized => ZiporaHashMapConfig::cache_optimized(),
            Preset::StringOptimized => ZiporaHashMapConfig::string_optimized(),
            Preset::SmallInline => {
                let n = *cfg.pick(&[4usize, 1, 2, 8, 16]);
                cap_note = format!(" small_inline({})", n);
                ZiporaHashMapConfig::small_inline(n)
            }
            Preset::Ctor | Preset::ZiporaFn => unreachable!(),
        };
        cx.ev(format!("{} keys={} ops<={} {}{}", self.name(), plan.nkeys, plan.planned, knobs(&plan), cap_note));
        describe_keys(cx, &hashes);
        if self.preset == Preset::StringOptimized {
            match ZMap::<String>::new(config, &hashes) {
                Ok(mut t) => drive(cx, &mut t, &plan, vec![]),
                Err(e) => cx.ev(format!("constructor refused: {}", e)),
            }
            return;
        }
        if self.preset == Preset::WithCapacity {
            // ZiporaHashMap::with_capacity needs S: Default; the same configuration is built by hand
            // (the constructor itself is driven by the ctor scenario)
            let c = *cfg.pick(&[16usize, 0, 1, 17, 20, 24, 31, 32, 33, 48, 64]);
            cx.ev(format!("with_capacity({})", c));
            let mut conf = ZiporaHashMapConfig::default();
            conf.initial_capacity = c.max(16);
            if let zipora::hash_map::StorageStrategy::Standard { initial_capacity, .. } = &mut conf.storage_strategy {
                *initial_capacity = c.max(16);
            }
            match ZMap::<SimKey>::new(conf, &hashes) {
                Ok(mut t) => drive(cx, &mut t, &plan, quals_for(&hashes)),
                Err(e) => cx.ev(format!("constructor refused: {}", e)),
            }
            return;
        }
        // the hash qualifier of a site only means something where the storage uses the hash
        let quals = if matches!(self.preset, Preset::Default | Preset::Pool | Preset::Cloning) { quals_for(&hashes) } else { vec![] };
        match ZMap::<SimKey>::new(config, &hashes) {
            Ok(mut t) => {
                drive(cx, &mut t, &plan, quals);
                if t.m.stats().rehashes > 0 {
                    cx.probe("zipora_rehash");
                }
            }
            Err(e) => cx.ev(format!("constructor refused: {}", e)),
        }
    }
}

#[derive(Clone, Copy, PartialEq)]
enum GoldCfg {
    Presets,
    Custom,
}

struct GoldSc {
    wide: bool,
    cfg: GoldCfg,
}

fn gold_config(cfg: &Chan, which: GoldCfg) -> (GoldHashMapConfig, String) {
    match which {
        GoldCfg::Presets => {
            let i = cfg.below(4);
            let (c, n) = match i {
                0 => (GoldHashMapConfig::default(), "default"),
                1 => (GoldHashMapConfig::small(), "small"),
                2 => (GoldHashMapConfig::high_churn(), "high_churn"),
                _ => (GoldHashMapConfig::large(), "large"),
            };
            (c, n.to_string())
        }
        GoldCfg::Custom => {
            let initial_capacity = *cfg.pick(&[5usize, 0, 1, 6, 11, 16, 23, 47]);
            let load_factor = *cfg.pick(&[0.7f32, 0.1, 0.3, 0.5, 0.9, 0.99, 0.999, 1.5, 0.0]);
            let enable_hash_cache = cfg.chance(1, 2);
            let enable_auto_gc = cfg.chance(1, 2);
            let no_reuse = cfg.chance(1, 4);
            let c = GoldHashMapConfig {
                initial_capacity,
                load_factor,
                enable_hash_cache,
                enable_auto_gc,
                enable_freelist_reuse: !no_reuse,
                // Fast iteration is documented to include deleted entries; only Safe is a map iteration
                default_iteration_strategy: IterationStrategy::Safe,
            };
            let d = format!("cap={} lf={} hash_cache={} auto_gc={} freelist_reuse={}", initial_capacity, load_factor, enable_hash_cache, enable_auto_gc, !no_reuse);
            (c, d)
        }
    }
}

impl Scenario for GoldSc {
    fn name(&self) -> String {
        format!("GoldHashMap.{}/{}", if self.wide { "u64" } else { "u32" }, if self.cfg == GoldCfg::Presets { "presets" } else { "custom" })
    }
    fn budget(&self, tier: Tier) -> u64 {
        match tier {
            Tier::Quick => 8000,
            Tier::Thorough => 500_000,
        }
    }
    fn run(&self, cx: &mut Run) {
        let cfg = cx.src.chan("cfg");
        let plan = make_plan(&cfg, SZ_SMALL, W_ALL);
        // DefaultHasher mixes the class value: equal class = full collision, nothing else is ours
        let fam = if cfg.chance(1, 2) { Fam::Collide } else { Fam::Spread };
        let hashes = gen_hashes(&cfg, plan.nkeys, fam);
        let (conf, d) = gold_config(&cfg, self.cfg);
        cx.ev(format!("{} keys={} ops<={} {} config: {}", self.name(), plan.nkeys, plan.planned, knobs(&plan), d));
        describe_keys(cx, &hashes);
        let keys: Vec<SimKey> = hashes.iter().enumerate().map(|(i, &h)| SimKey::make(i, h)).collect();
        // the default configuration also through the constructors that take none
        let plain = self.cfg == GoldCfg::Presets && d == "default";
        if self.wide {
            let m = if plain && plan.nkeys % 2 == 0 { GoldHashMap::new() } else if plain { GoldHashMap::default() } else { GoldHashMap::with_config(conf) };
            let mut t = Gold::<u64> { m, keys };
            drive(cx, &mut t, &plan, vec![]);
            if t.m.deleted_count() > 0 {
                cx.probe("gold_ended_with_deleted_slots");
            }
        } else {
            let m = if plain && plan.nkeys % 2 == 0 { GoldHashMap::new() } else if plain { GoldHashMap::default() } else { GoldHashMap::with_config(conf) };
            let mut t = Gold::<u32> { m, keys };
            drive(cx, &mut t, &plan, vec![]);
            if t.m.deleted_count() > 0 {
                cx.probe("gold_ended_with_deleted_slots");
            }
        }
    }
}

struct IdxSc {
    fam: Fam,
    /// values larger than a word (GoldHashIdx copies values into pool blocks)
    wide: bool,
}

fn run_idx<V: Val>(cx: &mut Run, cfg: &Chan, name: &str, fam: Fam) {
    let mut plan = make_plan(cfg, SZ_SMALL, W_ALL);
    // AHasher::default() is seeded per process: report the first divergence at the step that caused
    // it (what a corrupted table does later, e.g. in a rehash, could depend on the seed)
    plan.audit = plan.audit.max(1);
    let hashes = gen_hashes(cfg, plan.nkeys, fam);
    let c = *cfg.pick(&[16usize, 0, 1, 17, 32, 100]);
    // a caller's pool must have blocks that hold a value: small_secure() has 1024-byte blocks
    let own_pool = cfg.chance(1, 3) && std::mem::size_of::<V>() <= 1024;
    cx.ev(format!("{} keys={} ops<={} {} with_capacity({}) own_pool={} values: {}", name, plan.nkeys, plan.planned, knobs(&plan), c, own_pool, V::NAME));
    describe_keys(cx, &hashes);
    let keys: Vec<SimKey> = hashes.iter().enumerate().map(|(i, &h)| SimKey::make(i, h)).collect();
    let m: GoldHashIdx<SimKey, V> = if own_pool {
        match SecureMemoryPool::new(SecurePoolConfig::small_secure()) {
            Ok(p) => GoldHashIdx::with_pool(c, p),
            Err(_) => return,
        }
    } else if c == 16 {
        if cfg.chance(1, 2) {
            GoldHashIdx::new()
        } else {
            GoldHashIdx::default()
        }
    } else {
        GoldHashIdx::with_capacity(c)
    };
    let mut t = Idx { m, keys };
    drive(cx, &mut t, &plan, vec![]);
}

impl Scenario for IdxSc {
    fn name(&self) -> String {
        format!("GoldHashIdx{}/{}", if self.wide { ".wide" } else { "" }, fam_name(self.fam))
    }
    fn budget(&self, tier: Tier) -> u64 {
        match tier {
            Tier::Quick => 6000,
            Tier::Thorough => 300_000,
        }
    }
    fn run(&self, cx: &mut Run) {
        let cfg = cx.src.chan("cfg");
        if !self.wide {
            run_idx::<u64>(cx, &cfg, &self.name(), self.fam);
        } else if cfg.chance(1, 3) {
            run_idx::<Big>(cx, &cfg, &self.name(), self.fam);
        } else {
            run_idx::<W24>(cx, &cfg, &self.name(), self.fam);
        }
    }
}

struct SmallSc {
    use_iter: bool,
    /// values that own heap memory
    heap: bool,
}

fn run_small<V: Val>(cx: &mut Run, cfg: &Chan, name: &str, use_iter: bool) {
    // The large representation is a ZiporaHashMap with a process-seeded ahash state.  All keys
    // share one class and at most 16 keys exist, so that table never rehashes and its
    // behaviour is the same for every seed of the hasher (rotation of one probe cluster).
    // clone() is built on iter(): only where iteration is driven anyway.
    let mut plan = make_plan(cfg, SZ_LE16, if use_iter { W_CLONE } else { W_ALL });
    // every step is followed by a full lookup + len check, so that the first divergence is
    // reported at the step that caused it (later behaviour of a corrupted table could depend on the seed)
    plan.audit = plan.audit.max(1);
    let hashes = gen_hashes(cfg, plan.nkeys, Fam::Same);
    cx.ev(format!("{} keys={} ops<={} {} values: {}", name, plan.nkeys, plan.planned, knobs(&plan), V::NAME));
    let keys: Vec<SimKey> = hashes.iter().enumerate().map(|(i, &h)| SimKey::make(i, h)).collect();
    let m: SmallMap<SimKey, V> = if cfg.chance(1, 4) { SmallMap::default() } else { SmallMap::new() };
    let mut t = Small { m, spare: None, keys, use_iter };
    drive(cx, &mut t, &plan, vec![]);
}

impl Scenario for SmallSc {
    fn name(&self) -> String {
        format!("SmallMap{}/{}", if self.heap { ".heap" } else { "" }, if self.use_iter { "iter" } else { "no-iter" })
    }
    fn budget(&self, tier: Tier) -> u64 {
        match tier {
            Tier::Quick => 6000,
            Tier::Thorough => 300_000,
        }
    }
    fn run(&self, cx: &mut Run) {
        let cfg = cx.src.chan("cfg");
        if self.heap {
            run_small::<HeapV>(cx, &cfg, &self.name(), self.use_iter);
        } else {
            run_small::<u64>(cx, &cfg, &self.name(), self.use_iter);
        }
    }
}

struct SmallU8Sc;

impl Scenario for SmallU8Sc {
    fn name(&self) -> String {
        "SmallMap.u8/inline".into()
    }
    fn budget(&self, tier: Tier) -> u64 {
        match tier {
            Tier::Quick => 6000,
            Tier::Thorough => 300_000,
        }
    }
    fn run(&self, cx: &mut Run) {
        let cfg = cx.src.chan("cfg");
        let plan = make_plan(&cfg, SZ_TINY, W_CLONE);
        const PAL: [u8; 9] = [3, 0, 255, 1, 128, 127, 64, 200, 9];
        let rot = cfg.below(9) as usize;
        let keys: Vec<u8> = (0..plan.nkeys).map(|i| PAL[(i + rot) % 9]).collect();
        cx.ev(format!("{} keys={:?} ops<={} {}", self.name(), keys, plan.planned, knobs(&plan)));
        let mut t = SmallU8 { m: SmallMap::new(), spare: None, keys };
        drive(cx, &mut t, &plan, vec![]);
    }
}

struct EasySc {
    grow: bool,
}

impl Scenario for EasySc {
    fn name(&self) -> String {
        format!("EasyHashMap/{}", if self.grow { "grow" } else { "same-hash" })
    }
    fn budget(&self, tier: Tier) -> u64 {
        match tier {
            Tier::Quick => 6000,
            Tier::Thorough => 300_000,
        }
    }
    fn run(&self, cx: &mut Run) {
        let cfg = cx.src.chan("cfg");
        // Process-seeded ahash underneath (see SmallMap): one collision class, so the table is one
        // probe cluster whose behaviour is the same wherever it starts.  What does depend on the seed
        // is the slot order in which put() copies the entries when it grows the table, and with it
        // every later put into a table that holds tombstones.  Hence:
        //   same-hash: at most 11 keys, never grows;
        //   grow:      many keys; a put is only issued while no remove has succeeded since the table
        //              was last rebuilt/cleared, or when that very put rebuilds the table (which is
        //              the step at which tombstones must disappear).  Other puts become gets.
        // put() returns nothing, so every step is followed by a lookup of every key and len().
        let mut plan = make_plan(&cfg, if self.grow { SZ_GROW } else { SZ_LE11 }, W_EASY);
        plan.audit = plan.audit.max(1);
        let hashes = gen_hashes(&cfg, plan.nkeys, Fam::Same);
        let variant = cfg.below(8);
        let lf = *cfg.pick(&[0.75f64, 0.5, 0.25, 0.95, 0.1]);
        let auto = !cfg.chance(1, 4);
        cx.ev(format!("{} keys={} ops<={} {} ctor={} max_load_factor={} auto_grow={}", self.name(), plan.nkeys, plan.planned, knobs(&plan), variant, lf, auto));
        let keys: Vec<SimKey> = hashes.iter().enumerate().map(|(i, &h)| SimKey::make(i, h)).collect();
        let cap = if self.grow { 32 } else { 16 };
        // the builder's own switches where the scenario allows them (same-hash: never grows)
        let (b_auto, b_lf) = if self.grow { (auto, lf) } else { (false, 0.95) };
        let mut has_default = false;
        let mut m: EasyHashMap<SimKey, u64> = match variant {
            0 => EasyHashMap::new(),
            1 => {
                has_default = true;
                EasyHashMap::with_default(0)
            }
            2 => EasyHashMap::initial_capacity(16).build(),
            3 => EasyHashMap::initial_capacity(cap).build(),
            4 => EasyHashMap::default(),
            5 => {
                has_default = true;
                EasyHashMap::with_default_value(0).auto_grow(b_auto).max_load_factor(b_lf).build()
            }
            6 => EasyHashMap::initial_capacity(cap).auto_grow(b_auto).max_load_factor(b_lf).build(),
            _ => {
                has_default = true;
                EasyHashMap::initial_capacity(0).with_default(0).build()
            }
        };
        if self.grow {
            if !matches!(variant, 5 | 6) {
                m.set_max_load_factor(lf);
                m.set_auto_grow(auto);
            }
        } else {
            // 11 of 16 slots stay below every load factor that is used here
            m.set_auto_grow(false);
        }
        let cap_seen = m.capacity();
        let mut t = Easy { m, keys, guard: self.grow, tomb: false, cap_seen, has_default };
        drive(cx, &mut t, &plan, vec![]);
    }
}

struct StrSc {
    /// keys that are not UTF-8 (they exist only for the FastStr entry points)
    bytes: bool,
}

impl Scenario for StrSc {
    fn name(&self) -> String {
        if self.bytes { "HashStrMap/bytes".into() } else { "HashStrMap/str".into() }
    }
    fn budget(&self, tier: Tier) -> u64 {
        match tier {
            Tier::Quick => 4000,
            Tier::Thorough => 200_000,
        }
    }
    fn run(&self, cx: &mut Run) {
        let cfg = cx.src.chan("cfg");
        let plan = make_plan(&cfg, &[(3, 12, 4, 40, 1)], W_ALL);
        let long = "a".repeat(40);
        let m = |cfg: &Chan| if cfg.chance(1, 2) { HashStrMap::with_capacity(cfg.below(4) as usize) } else if cfg.chance(1, 2) { HashStrMap::default() } else { HashStrMap::new() };
        if self.bytes {
            // FastStr::new takes any bytes; insert_fast_str / get_by_fast_str are the byte-keyed map
            let pal: [&[u8]; 8] = [b"a", b"\xff", b"b", b"\xfe", b"a\xff", b"\xc3", b"ab", b"\xe9"];
            let rot = cfg.below(8) as usize;
            let keys: Vec<Vec<u8>> = (0..plan.nkeys.min(8)).map(|i| pal[(i + rot) % 8].to_vec()).collect();
            let mut plan = plan;
            plan.nkeys = keys.len();
            let shown: Vec<String> = keys.iter().map(|b| b.iter().map(|&c| if c.is_ascii_graphic() { (c as char).to_string() } else { format!("\\x{:02x}", c) }).collect()).collect();
            cx.ev(format!("{} keys={:?} ops<={} {}", self.name(), shown, plan.planned, knobs(&plan)));
            let quals: Vec<&'static str> = keys.iter().map(|b| if std::str::from_utf8(b).is_ok() { "" } else { "[non-utf8-key]" }).collect();
            let mut t = StrMap::new(m(&cfg), keys);
            drive(cx, &mut t, &plan, quals);
            return;
        }
        let pal: [&str; 12] = ["a", "", "b", "ab", "a\0", "\0", "\u{e9}", &long, "k1", "K1", " a", "a "];
        let rot = cfg.below(12) as usize;
        let keys: Vec<String> = (0..plan.nkeys).map(|i| pal[(i + rot) % 12].to_string()).collect();
        cx.ev(format!("{} keys={:?} ops<={} {}", self.name(), keys, plan.planned, knobs(&plan)));
        let mut t = StrMap::new(m(&cfg), keys.into_iter().map(|s| s.into_bytes()).collect());
        drive(cx, &mut t, &plan, vec![]);
    }
}

fn main() {
    let mut spec = CheckSpec::new(
        "C06",
        "exploration",
        "seeded operation histories (insert/remove/get/get_mut/contains_key/len/is_empty/iter/clear + per type insert_batch/extend, get_or_insert, retain(pred), clone with continued use of both maps, \
         capacity operations; independent draws plus fill/drain bursts over consecutive keys and same-key-again steps) x seeded key sets x seeded hash function \
         (per-key value from {spread, shared, equal mod 2^k, neighbouring, 0, u64::MAX, 1, u64::MAX-1, 1<<63}, or one of zipora's own hash functions over natural keys) x map type/constructor/configuration x value representation, \
         compared step by step and at the end with a BTreeMap; \
         non-trivial = at least 3 operations executed and at least one insert accepted; distinct = distinct hash of the event trace (configuration, hash table, operations and observed results)",
    );
    spec.assumptions = vec![
        "the final hash value is fully simulator-controlled only for ZiporaHashMap (BuildHasher seam); GoldHashMap (std DefaultHasher), GoldHashIdx (AHasher::default), SmallMap and EasyHashMap (ahash::RandomState) hash internally, so there only 'same class value = same hash' is controlled".into(),
        "ahash is seeded from the OS once per process: SmallMap's large representation and EasyHashMap are driven with all keys in one collision class and without a rehash-with-tombstones, the only histories whose outcome is the same for every seed; GoldHashIdx is also driven with distinct classes (its answers did not depend on the seed in any run)".into(),
        "GoldHashMap's Fast iteration strategy is documented to yield deleted entries and is only compared when deleted_count() == 0".into(),
        "an Err from insert/remove is a refusal: the map must then be unchanged".into(),
        "clone(): the statement lists insert/remove/get/get_mut/clear; that a clone answers like the map it was made from (class clone_differs) and that the two are independent afterwards (clone_not_independent) is the Clone contract read as part of 'answers like a mathematical map'; both have their own classes so that they can be told apart from the statement's own clauses".into(),
        "EasyHashMap::get_or_default is only called on maps built with a default value (documented precondition); a caller-supplied value pool for GoldHashIdx is only used with values that fit its blocks".into(),
        "HashStrMap keys that are not UTF-8 exist only for the FastStr entry points (insert_fast_str / get_by_fast_str); remove/get_mut are not issued for them".into(),
        "single-threaded; no allocation failure".into(),
    ];
    spec.components = vec![
        ("hash_map::ZiporaHashMap (all presets, public constructors, hand-written configurations, Clone)", "real"),
        ("hash_map::GoldHashMap<u32|u64>", "real"),
        ("containers::GoldHashIdx + SecureMemoryPool (8-, 24- and 1040-byte values)", "real"),
        ("containers::SmallMap (generic and u8/get_fast, Clone, heap-owning values)", "real"),
        ("containers::EasyHashMap (+ builder, extend, get_or_insert[_with], get_or_default, retain, shrink_to_fit)", "real"),
        ("containers::HashStrMap (str and FastStr entry points)", "real"),
        ("hash_map::hash_functions (fabo/bmi2/advanced combine, hash_with_bmi2, specialized::*, HashFunctionBuilder, fast_string_hash_bmi2) as the map's hasher", "real"),
        ("BuildHasher supplied to ZiporaHashMap", "stub (SimHasher: per-key value chosen by the run, or a zipora hash function)"),
        ("Hash impl of the key type", "stub (feeds the run's class value)"),
    ];
    for fam in [Fam::Spread, Fam::Collide, Fam::Sentinel] {
        spec.scenarios.push(Box::new(Zip { preset: Preset::Default, fam }));
    }
    spec.scenarios.push(Box::new(Zip { preset: Preset::WithCapacity, fam: Fam::Mixed }));
    for fam in [Fam::Spread, Fam::Collide, Fam::Sentinel] {
        spec.scenarios.push(Box::new(Zip { preset: Preset::Pool, fam }));
    }
    spec.scenarios.push(Box::new(Zip { preset: Preset::CacheOptimized, fam: Fam::Mixed }));
    spec.scenarios.push(Box::new(Zip { preset: Preset::StringOptimized, fam: Fam::Mixed }));
    spec.scenarios.push(Box::new(Zip { preset: Preset::SmallInline, fam: Fam::Mixed }));
    spec.scenarios.push(Box::new(Zip { preset: Preset::Ctor, fam: Fam::Mixed }));
    spec.scenarios.push(Box::new(Zip { preset: Preset::Cloning, fam: Fam::Mixed }));
    spec.scenarios.push(Box::new(Zip { preset: Preset::ZiporaFn, fam: Fam::Spread }));
    spec.scenarios.push(Box::new(GoldSc { wide: false, cfg: GoldCfg::Presets }));
    spec.scenarios.push(Box::new(GoldSc { wide: false, cfg: GoldCfg::Custom }));
    spec.scenarios.push(Box::new(GoldSc { wide: true, cfg: GoldCfg::Custom }));
    spec.scenarios.push(Box::new(GoldSc { wide: true, cfg: GoldCfg::Presets }));
    spec.scenarios.push(Box::new(IdxSc { fam: Fam::Same, wide: false }));
    spec.scenarios.push(Box::new(IdxSc { fam: Fam::Collide, wide: false }));
    spec.scenarios.push(Box::new(IdxSc { fam: Fam::Collide, wide: true }));
    spec.scenarios.push(Box::new(SmallSc { use_iter: true, heap: false }));
    spec.scenarios.push(Box::new(SmallSc { use_iter: false, heap: false }));
    spec.scenarios.push(Box::new(SmallSc { use_iter: true, heap: true }));
    spec.scenarios.push(Box::new(SmallU8Sc));
    spec.scenarios.push(Box::new(EasySc { grow: false }));
    spec.scenarios.push(Box::new(EasySc { grow: true }));
    spec.scenarios.push(Box::new(StrSc { bytes: false }));
    spec.scenarios.push(Box::new(StrSc { bytes: true }));
    zsim_core::driver::main(spec);
}
